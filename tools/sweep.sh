#!/bin/sh
# run every claimed quick check once with the given seed; print exit code and wall time (no evidence restored)
seed=${1:-1}; shift
here=$(cd "$(dirname "$0")/.." && pwd)
cd "$here"
ids=${@:-$(python3 -c "import json;print(' '.join(c['property_id'] for c in json.load(open('MANIFEST.json'))['checks']))")}
for c in $ids; do
  t0=$(date +%s)
  VERIF_SEED=$seed ./check $c --tier quick > .work_sweep_$c.log 2>&1
  rc=$?
  t1=$(date +%s)
  echo "seed=$seed $c exit=$rc wall=$((t1-t0))s $(grep -c '^VIOLATION' .work_sweep_$c.log) violations $(grep -c '^KNOWN-FINDING' .work_sweep_$c.log) known"
  grep '^VIOLATION\|^MACHINERY' .work_sweep_$c.log | head -3
  rm -f .work_sweep_$c.log
done
