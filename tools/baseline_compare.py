#!/usr/bin/env python3
"""Compare a junit xml of the repository suite with BASELINE.json stable_pass."""
import json, sys
import xml.etree.ElementTree as ET

b = json.load(open("/root/.vp/BASELINE.json"))
t = ET.parse(sys.argv[1]).getroot()
passed = set()
for tc in t.iter("testcase"):
    name = "%s::%s" % (tc.get("classname"), tc.get("name"))
    if not any(c.tag in ("failure", "error", "skipped") for c in tc):
        passed.add(name)
missing = [x for x in b["stable_pass"] if x not in passed]
print("stable_pass=%d passed_now=%d missing=%d" % (len(b["stable_pass"]), len(passed), len(missing)))
for m in missing:
    print("  MISSING", m)
sys.exit(1 if missing else 0)
