#!/usr/bin/env python3
"""Confirm a seeded change and run checks against it.

usage: run_seed.py <seed_dir> <patch_file> <demo_file> <check ids ...> [--tier quick] [--skip-suite]

* creates a scratch worktree of /repo HEAD under /tmp, applies the patch there
* runs the demonstration on the unchanged /repo (must exit 0) and on the patched tree (must exit != 0)
* runs the repository's test suite on the patched tree and compares with BASELINE.json
* runs the given checks with REPO_ROOT=<patched tree> (the checks import tf_pwa from there)
* prints one JSON line with the outcome; removes the worktree
(The scratch worktree stands in for `git -C /repo apply`; identical for the checks, which take
the source root from REPO_ROOT, and it does not disturb other runs using /repo.)
"""
import json
import os
import subprocess
import sys
import time


def sh(cmd, **kw):
    return subprocess.run(cmd, shell=True, capture_output=True, text=True, **kw)


def main():
    args = [a for a in sys.argv[1:] if not a.startswith("--")]
    tier = "quick"
    if "--tier" in sys.argv:
        tier = sys.argv[sys.argv.index("--tier") + 1]
        args = [a for a in args if a != tier]
    skip_suite = "--skip-suite" in sys.argv
    seed_dir, patch, demo = os.path.abspath(args[0]), args[1], args[2]
    checks = args[3:]
    tag = "%s_%d" % (os.path.basename(patch).replace(".", "_"), os.getpid())
    wt = "/tmp/seedrun_%s" % tag
    out = {"patch": patch, "demo": demo, "tier": tier}
    sh("git -C /repo worktree add -q %s HEAD" % wt)
    try:
        r = sh("git -C %s apply %s" % (wt, os.path.join(seed_dir, patch)))
        out["applies"] = r.returncode == 0
        if r.returncode != 0:
            out["apply_error"] = r.stderr[-300:]
            print(json.dumps(out))
            return
        env = dict(os.environ, PYTHONHASHSEED="0", TF_CPP_MIN_LOG_LEVEL="3", CUDA_VISIBLE_DEVICES="")
        d0 = sh("cd /repo && PYTHONPATH=/repo timeout 600 /venv/bin/python %s" % os.path.join(seed_dir, demo), env=env)
        d1 = sh("cd %s && PYTHONPATH=%s timeout 600 /venv/bin/python %s" % (wt, wt, os.path.join(seed_dir, demo)), env=env)
        out["demo_unpatched_exit"] = d0.returncode
        out["demo_patched_exit"] = d1.returncode
        out["demo_patched_tail"] = (d1.stdout + d1.stderr)[-300:]
        if not skip_suite:
            j = "/tmp/seedrun_%s.xml" % tag
            t = sh("cd %s && /venv/bin/python -m pytest -q -p no:cacheprovider --timeout=900 --continue-on-collection-errors --junitxml=%s 2>&1 | tail -1" % (wt, j), env=env)
            c = sh("python3 /verif/tools/baseline_compare.py %s" % j)
            out["suite_tail"] = t.stdout.strip()[-120:]
            out["suite_matches_baseline"] = c.returncode == 0
            if os.path.exists(j):
                os.remove(j)
        res = {}
        for cid in checks:
            t0 = time.time()
            work = "/tmp/seedrun_%s_work" % tag
            r = sh("cd /verif && REPO_ROOT=%s VERIF_TMP=%s ./check %s --tier %s" % (wt, work, cid, tier), env=env)
            lines = [l for l in r.stdout.splitlines() if l.startswith("VIOLATION") or l.startswith("KNOWN-FINDING") or l.startswith("MACHINERY")]
            res[cid] = {"exit": r.returncode, "wall_s": round(time.time() - t0, 1), "lines": lines[:6], "n_violation_lines": sum(l.startswith("VIOLATION") for l in lines)}
            sh("rm -rf %s" % work)
        out["checks"] = res
        print(json.dumps(out))
    finally:
        sh("git -C /repo worktree remove --force %s" % wt)
        # the run against the patched tree rewrote evidence / replays of those checks: restore the committed evidence
        for cid in checks:
            sh("cd /verif && git checkout -- evidence/%s.json 2>/dev/null; rm -rf replays/%s" % (cid, cid))


if __name__ == "__main__":
    main()
