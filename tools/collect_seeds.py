#!/usr/bin/env python3
"""Store the latest run_seed.py outcome of every seeded patch next to it (seeded/<id>/lead_runs.json)."""
import glob, json, os, re
root = os.path.dirname(os.path.dirname(os.path.abspath(__file__)))
for f in sorted(glob.glob("/tmp/seedres_C*.json")):
    m = re.match(r".*/seedres_(C\d+)(r\d)?([A-Z])\.json", f)
    if not m:
        continue
    pid, r2, letter = m.groups()
    if r2:
        pid = pid + "_" + r2
    try:
        j = json.load(open(f))
    except Exception:
        continue
    d = os.path.join(root, "seeded", pid)
    if not os.path.isdir(d):
        continue
    p = os.path.join(d, "lead_runs.json")
    cur = json.load(open(p)) if os.path.exists(p) else {}
    j.pop("demo_patched_tail", None)
    prev = cur.get("patch_%s" % letter, {})
    if "suite_matches_baseline" not in j or j.get("suite_matches_baseline") is None:
        for k in ("suite_tail", "suite_matches_baseline"):
            if k in prev:
                j[k] = prev[k]
    hist = prev.get("history", [])
    summ = {c: ("caught" if v["exit"] == 1 and v["n_violation_lines"] > 0 else "missed" if v["exit"] == 0 else "exit %s" % v["exit"]) for c, v in j.get("checks", {}).items()}
    if not hist or hist[-1] != summ:
        hist.append(summ)
    j["history"] = hist
    cur["patch_%s" % letter] = j
    json.dump(cur, open(p, "w"), indent=1)
    print(pid, letter, summ)
