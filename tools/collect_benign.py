#!/usr/bin/env python3
"""Collect behaviour-preserving changes (written by independent sub-agents) and the outcome of
the checks run against them into /verif/benign/<id>/ and write /verif/benign/README.md.

Input: /tmp/benign_<ID>/patch_X.diff, meta_X.json, equiv_X.py and /tmp/benignres_<ID>X.json
(one JSON line printed by tools/run_seed.py with a no-op demonstration).
A benign change must leave every check green: a VIOLATION line here is a false alarm of the
machinery (or the change is not benign after all: then it is moved to seeded/).
"""
import glob
import json
import os
import shutil

ROOT = "/verif/benign"


def main():
    rows = []
    for d in sorted(glob.glob("/tmp/benign_C??")):
        pid = os.path.basename(d).split("_")[1]
        out = os.path.join(ROOT, pid)
        for patch in sorted(glob.glob(os.path.join(d, "patch_?.diff"))):
            x = os.path.basename(patch)[6]
            res_file = "/tmp/benignres_%s%s.json" % (pid, x)
            if not os.path.exists(res_file):
                continue
            os.makedirs(out, exist_ok=True)
            shutil.copy(patch, out)
            for extra in ("meta_%s.json" % x, "equiv_%s.py" % x):
                if os.path.exists(os.path.join(d, extra)):
                    shutil.copy(os.path.join(d, extra), out)
            res = None
            for line in open(res_file):
                line = line.strip()
                if line.startswith("{"):
                    res = json.loads(line)
            if res is None:
                continue
            json.dump(res, open(os.path.join(out, "lead_run_%s.json" % x), "w"), indent=1)
    for f in sorted(glob.glob(os.path.join(ROOT, "C??", "lead_run_?.json"))):
        pid = f.split("/")[-2]
        x = f[-6]
        res = json.load(open(f))
        meta = {}
        mf = os.path.join(ROOT, pid, "meta_%s.json" % x)
        if os.path.exists(mf):
            try:
                meta = json.load(open(mf))
            except Exception:
                meta = {}
        checks = res.get("checks", {})
        verdict = ", ".join("%s exit %d%s" % (c, v["exit"], (" (%d VIOLATION lines)" % v["n_violation_lines"]) if v["n_violation_lines"] else "") for c, v in checks.items())
        rows.append((pid, x, str(meta.get("kind", ""))[:100], ", ".join(meta.get("files", []))[:80], res.get("suite_tail", meta.get("suite", ""))[:60], verdict))
    with open(os.path.join(ROOT, "README.md"), "w") as f:
        f.write("# Behaviour-preserving changes (false-alarm test)\n\n")
        f.write("Written by independent sub-agents that saw only the property text and a scratch worktree;\n")
        f.write("each keeps the property true.  Every listed check must stay green (exit 0, no VIOLATION).\n\n")
        f.write("| property | patch | kind | files | suite | checks run against the patched tree |\n|---|---|---|---|---|---|\n")
        for r in rows:
            f.write("| %s |\n" % " | ".join(x.replace("|", "/").replace("\n", " ") for x in r))
    print(len(rows), "rows")


if __name__ == "__main__":
    main()
