#!/usr/bin/env python3
"""Write seeded/README.md: one row per seeded change with what it needs and which checks caught it."""
import glob, json, os
root = os.path.dirname(os.path.dirname(os.path.abspath(__file__)))
rows = []
for d in sorted(x for x in glob.glob(os.path.join(root, "seeded", "C*")) if os.path.isdir(x)):
    pid = os.path.basename(d)
    meta = {}
    mp = os.path.join(d, "meta.json")
    if os.path.exists(mp):
        try:
            meta = json.load(open(mp))
        except Exception:
            meta = {}
    runs = json.load(open(os.path.join(d, "lead_runs.json"))) if os.path.exists(os.path.join(d, "lead_runs.json")) else {}
    patches = meta.get("patches", [])
    for letter in "AB":
        pm = next((p for p in patches if p.get("file") == "patch_%s.diff" % letter), {})
        r = runs.get("patch_%s" % letter, {})
        if not pm and not r:
            continue
        hist = r.get("history", [])
        last = hist[-1] if hist else {}
        first = hist[0] if hist else {}
        rows.append((pid, letter, pm.get("what", ""), pm.get("needs", ""), r.get("suite_matches_baseline"), r.get("demo_unpatched_exit"), r.get("demo_patched_exit"), first, last))
with open(os.path.join(root, "seeded", "README.md"), "w") as f:
    f.write("# Seeded changes (written by independent sub-agents that saw only the property text)\n\n")
    f.write("Each directory holds patch_X.diff, demo_X.py (exits 0 on the unchanged tree, 1 with the patch), meta.json (the seeder's\n"
            "description) and lead_runs.json (the lead's confirmation: patch applies, demo behaves, repository suite unchanged, and the\n"
            "outcome of the checks run with REPO_ROOT pointing at the patched tree; `history` lists the outcome before and after the\n"
            "checks were strengthened).\n\n")
    f.write("| property | patch | change | needs | suite = baseline | demo unpatched/patched | first run | latest run |\n|---|---|---|---|---|---|---|---|\n")
    for pid, letter, what, needs, suite, d0, d1, first, last in rows:
        f.write("| %s | %s | %s | %s | %s | %s/%s | %s | %s |\n" % (pid, letter, what.replace("|", "/")[:220], needs.replace("|", "/")[:220], suite, d0, d1, first, last))
print(len(rows), "rows")
