#!/usr/bin/env python3
"""Generate /verif/MANIFEST.json from the table below (single source of truth)."""
import json, os, sys

ROOT = os.path.dirname(os.path.dirname(os.path.abspath(__file__)))
ALL = ["C%02d" % i for i in range(1, 21)]

CLAIMS = {
    "C13": dict(
        category="model_checking",
        text="The quantifier is finite: every (JA,JB,JC,parities,p_break,C) configuration with spins up to 4 (quick: up to 2) is one TLC state of spec/LSCoupling.tla; TLC proves |Allowed| = NHel and the partition lemmas on all of them and prints the table; the implementation's lists are compared with it entry by entry and the coupling->helicity map is checked for full rank.",
        design_ref="DESIGN.md 5/C13",
        note="Trusted: the specification's reading of the triangle/parity/C rules and of the helicity-amplitude count (cross-checked against each other by TLC), TLC, numpy SVD with relative threshold 1e-9. C-parity only offered for integer s.",
        technique="TLA+ spec (LSCoupling.tla) exhaustively checked by TLC; complete table compared with the implementation (B3 exact)",
        engine="tlc-table",
    ),
    "C14": dict(
        category="model_checking",
        text="spec/Topology.tla models from_particles as an edge-insertion step machine and, independently, the declarative set of canonical grouping tables; TLC visits every partial graph for n<=7 (quick n<=6), checks binary-tree shape, refinement between the two descriptions, that a table determines its tree, the counting law (2n-3)!! and collision-freedom (VIEW on the canonical form); the implementation's chain set, sorted_table/from_sorted_table, topology_same (all pairs x all identical-particle namings for n<=5, TLC-judged sampled pairs above) and DecayGroup class maps are compared with the TLC tables.",
        design_ref="DESIGN.md 5/C14",
        note="Trusted: TLC, the declarative definition of a canonical form (set of leaf sets of inner nodes), identical particles modelled as 'name:id'. Groups for the class-map check are seeded random subsets.",
        technique="TLA+ spec (Topology.tla) exhaustively checked by TLC; tables and pair verdicts compared with the implementation (B3 exact)",
        engine="tlc-table",
    ),
    "C16": dict(
        category="model_checking",
        text="spec/Params.tla is an implementation-shaped model of VarsManager (one variable per attribute, one action per public method, bodies transcribed from the code, histories restricted by a phase variable to the order a configuration applies operations). TLC checks every stated property of C16 (FixedOnlyExplicit, TiedEqual, TiedCountOnce, TieKeepsFree, ReadWriteIdentity, ComplexPreserved, StandardForm, BoundInverse, FitStepLocal) exhaustively up to the depth bound on three configurations; the labelled state graph is dumped and its edges are executed on a real VarsManager (projection compared and the observers of C16 evaluated on the real object after every step), long TLC-simulated behaviours are replayed the same way, and TLC counterexamples are replayed on the real code before they count. Analytic bound maps are checked numerically.",
        design_ref="DESIGN.md 3.1, 5/C16",
        note="Trusted: TLC; the lattice abstraction (integer values, complex values r*i^k, custom bound x+1 on [0,3]); depth bounds (quick 3-5, thorough 5-6) plus simulation depth 25-30; quick tier replays a seeded sample of graph edges; ReadWriteIdentity is stated for sessions without an active mask block; bound inverse/slope for analytic kinds sampled on a grid.",
        technique="TLA+ state machine (Params.tla) model-checked by TLC; behaviours replayed into the real VarsManager (B1), counterexamples confirmed on the code",
        engine="tlc-replay",
    ),
    "C17": dict(
        category="fault_enumeration",
        text="spec/Session.tla models one amplitude-model session: six kinds of temporary-override blocks (nesting up to 3), five derived computations as multi-step frames (partial weights, interference weights, fit fractions old/new method, factor iteration) and the fault actions Raise (an exception out of the innermost block or out of the k-th inner evaluation of a computation unwinds every open block) and Abandon (generator closed). TLC checks the invariant Transparent (no open block => parameter reads, active chains, flags equal the baseline) over every behaviour up to the depth bound, i.e. with a fault at every point. Every graph edge that returns to top level and TLC-simulated deep behaviours are executed on a real AmplitudeModel (real with-blocks unwound with the injected exception, real computations with DecayGroup.sum_amp raising at the k-th call), and after every return to top level parameter values, active chains, mask flags, configuration entry and the density of probe events are compared with the baseline.",
        design_ref="DESIGN.md 3.1, 5/C17",
        note="Trusted: TLC; fault = Python exception raised by the inner evaluation or inside the with-body; one probe parameter, three chains with one resonance each, 6 probe events; depth/nesting bounds (quick depth 6/3 for the invariant and graph, simulation depth 14; thorough 8/4, 24); quick tier replays a seeded sample of the edges.",
        technique="TLA+ session model with fault actions model-checked by TLC; behaviours with injected faults replayed on a real AmplitudeModel (B1)",
        engine="tlc-replay",
    ),
    "C03": dict(
        category="model_checking",
        text="spec/Superpose.tla states the superposition algebra exactly (Gaussian-integer amplitudes): TLC checks Linearity, Proportional, SumRule and BatchIndependent in every scenario (6^3 lattice couplings x chain-to-resonance assignments x batch sizes) and evaluates the selection tables of a group with shared resonances. The scenarios are realised on real 3-body (spin-1 finals) and 4-body decay groups: per-chain amplitude tensors measured under set_used_chains([k]) must add up to the amplitude of every ordered subset, set_used_res / only=True / temp_used_res must select exactly the chains of the TLC table, a chain's amplitude must scale with its own coupling (lattice factors), and fit fractions through four routes must be batch independent and obey the sum rule for TLC-enumerated coupling scenarios and batch classes (1, 7, N-1, N, N+3).",
        design_ref="DESIGN.md 3.2 Superpose, 5/C03",
        note="Trusted: TLC; the discrete quantifier (subsets, orders, routes, batch classes, lattice couplings) is enumerated, events and the remaining parameters are seeded samples; identities compared at relative 1e-9. The selection state machine (restore after computations) is covered by C17's Session model.",
        technique="TLA+ exact algebra (Superpose.tla) model-checked by TLC; TLC scenarios and selection tables realised on real decay groups (B3)",
        engine="tlc-scenario",
    ),
    "C18": dict(
        category="model_checking",
        text="Split/merge/mask/index/batch-call/LazyCall on nested event data and the momentum-file layouts are specified in TLA+ (spec/DataOps.tla, spec/DatFile.tla). TLC checks Merge(Split)=id, batch-wise = whole, Mask/Index exactness, Load(Save)=id on every tree of <=3 (thorough 4) dict/list/tuple/leaf nodes incl. empty containers, every N, every batch size 1..N+1, every boolean mask, every dat_order permutation and file grouping, together with an implementation-shaped step model of the batch generator. Every TLC case is executed on tf_pwa with event ids as array contents and compared exactly; recorded data_split calls (repo test + MAX_ITER boundary probes) are validated by TLC.",
        design_ref="DESIGN.md 3.2 DataOps, 5/C18; notes/C18.md",
        note="Trusted: TLC, numpy file I/O, the projection (nested structure -> nested lists of ids); bounded domain (nodes, N, leaf width 2); N >= 1; trees with at least one leaf; save_data/load_data judged on dict-rooted data only; ROOT I/O covered only by 3 flat-dict round trips.",
        technique="TLC-enumerated case tables + step-machine model of the batch generator, exact conformance replay (B3), TLC validation of recorded calls (B2)",
        engine="tlc-table",
    ),
}

NOT_YET = "check not built yet in this round (planned in DESIGN.md 5); not claimed until its specification is bound to the code"
NA = {
    "C15": "pure numeric identities of continuous line-shape functions: no state, transition or finite case analysis for a TLA+ specification to decide (DESIGN.md 8)",
}


def main():
    checks = []
    for pid in ALL:
        if pid not in CLAIMS:
            continue
        c = CLAIMS[pid]
        checks.append(
            {
                "property_id": pid,
                "quick_cmd": "./check %s --tier quick" % pid,
                "thorough_cmd": "./check %s --tier thorough" % pid,
                "evidence_file": "evidence/%s.json" % pid,
                "replay_cmd_template": "./check %s --replay {path}" % pid,
                "engine": c["engine"],
                "level_claimed": {"category": c["category"], "text": c["text"], "design_ref": c["design_ref"]},
                "level_note": c["note"],
                "technique": c["technique"],
            }
        )
    na = []
    for pid in ALL:
        if pid in CLAIMS:
            continue
        na.append({"property_id": pid, "reason": NA.get(pid, NOT_YET)})
    m = {
        "version": 1,
        "setup_cmd": "./setup.sh",
        "hooks": {
            "guard": "TFPWA_VERIF",
            "enable": "no hooks are committed to /repo: tracing wrappers are installed from /verif/harness at import time when TFPWA_VERIF=1 (set by ./check); tf_pwa is imported from /repo's working tree (pure Python, no build)",
            "baseline_off_cmd": "cd /repo && /venv/bin/python -m pytest -ra -q -p no:cacheprovider --timeout=900 --continue-on-collection-errors",
            "source_commits": [],
            "add_only": True,
        },
        "engines": [
            {"name": "tlc-table", "path": "harness/tlc.py", "serves_properties": [p for p in CLAIMS if CLAIMS[p]["engine"] == "tlc-table"], "kind_free_text": "TLC evaluates a declarative/step specification on the whole bounded domain and writes tables as JSON; harness compares the implementation entry by entry"},
            {"name": "tlc-replay", "path": "harness/tlc.py", "serves_properties": [p for p in CLAIMS if CLAIMS[p]["engine"] == "tlc-replay"], "kind_free_text": "TLC explores a state machine; behaviours (state graph / simulation traces) are replayed on the real objects and recorded traces are validated by TLC"},
            {"name": "tlc-scenario", "path": "harness/tlc.py", "serves_properties": [p for p in CLAIMS if CLAIMS[p]["engine"] == "tlc-scenario"], "kind_free_text": "TLC enumerates the discrete scenario space and checks the exact algebraic skeleton; the continuous part is sampled numerically against the implementation"},
        ],
        "checks": checks,
        "not_applicable": na,
        "notes": "Single entry point ./check <ID> --tier quick|thorough. Exit 0 held / 1 VIOLATION / 2 machinery failure. Known findings: known_findings.json. See DESIGN.md.",
    }
    with open(os.path.join(ROOT, "MANIFEST.json"), "w") as f:
        json.dump(m, f, indent=1)
    print("claimed:", sorted(CLAIMS), "not claimed:", [x["property_id"] for x in na])


if __name__ == "__main__":
    main()
