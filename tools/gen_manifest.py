#!/usr/bin/env python3
"""Generate /verif/MANIFEST.json from the table below (single source of truth)."""
import json, os, sys

ROOT = os.path.dirname(os.path.dirname(os.path.abspath(__file__)))
ALL = ["C%02d" % i for i in range(1, 21)]

CLAIMS = {
    "C13": dict(
        category="model_checking",
        text="The quantifier is finite: every (JA,JB,JC,parities,p_break,C) configuration with spins up to 4 (quick: up to 2) is one TLC state of spec/LSCoupling.tla; TLC proves |Allowed| = NHel and the partition lemmas on all of them and prints the table; the implementation's lists are compared with it entry by entry and the coupling->helicity map is checked for full rank.",
        design_ref="DESIGN.md 5/C13",
        note="Trusted: the specification's reading of the triangle/parity/C rules and of the helicity-amplitude count (cross-checked against each other by TLC), TLC, numpy SVD with relative threshold 1e-9. C-parity only offered for integer s.",
        technique="TLA+ spec (LSCoupling.tla) exhaustively checked by TLC; complete table compared with the implementation (B3 exact)",
        engine="tlc-table",
    ),
    "C14": dict(
        category="model_checking",
        text="spec/Topology.tla models from_particles as an edge-insertion step machine and, independently, the declarative set of canonical grouping tables; TLC visits every partial graph for n<=7 (quick n<=6), checks binary-tree shape, refinement between the two descriptions, that a table determines its tree, the counting law (2n-3)!! and collision-freedom (VIEW on the canonical form); the implementation's chain set, sorted_table/from_sorted_table, topology_same (all pairs x all identical-particle namings for n<=5, TLC-judged sampled pairs above) and DecayGroup class maps are compared with the TLC tables.",
        design_ref="DESIGN.md 5/C14",
        note="Trusted: TLC, the declarative definition of a canonical form (set of leaf sets of inner nodes), identical particles modelled as 'name:id'. Groups for the class-map check are seeded random subsets.",
        technique="TLA+ spec (Topology.tla) exhaustively checked by TLC; tables and pair verdicts compared with the implementation (B3 exact)",
        engine="tlc-table",
    ),
    "C15": dict(
        category="model_checking",
        text="Every documented line-shape formula (16 particle models, Gamma/Gamma2, Bprime/Bprime_q2/barrier_factor, the Blatt-Weisskopf polynomial and its generator, break-up momenta, the ad-hoc effective mass) is transcribed once, from the doc strings, as an expression tree in spec/LineShape.tla. TLC evaluates the rational sub-language exactly (limb arithmetic, spec/Barrier.tla) on a lattice of kinematic points with rational break-up momenta - one state per (formula, L = 0..8, lattice point), 12 692 cells quick / 78 156 thorough - and checks the theorems the property states as invariants (Im > 0, i/(m0 Gamma0) at the pole, Gamma(m0)=Gamma0, B(q0)=1, table = |theta_L(i q d)|^2 from the reverse Bessel polynomial, q^2-based = q-based above threshold, finite below, FlatteC = conj Flatte). The real tf_pwa is held to TLC's output: coefficient table / generator / reverse Bessel polynomials as exact integers for L = 0..8, every exactly evaluated lattice cell (1e-8 rel + 1e-12 abs), and the spec's trees - through a generic one-line-per-operator evaluator - at seeded random continuous points against both the low-level functions and the registered particle models, plus the sympy denominators x numeric line shape = 1.",
        design_ref="DESIGN.md 5/C15, 8; notes/C15.md",
        note="Exhaustive and exact on the discrete part (formula x L x lattice point; integer tables). The continuous quantifier (masses, m0, Gamma0, daughter masses, d) is SAMPLED (seeded; quick 3 parameter sets x 60 masses, thorough 16 x 500 per implementation and L). Trusted base: the transcription of the doc strings into trees (validated by the TLC theorems and by agreeing with the code wherever the code is right), the 20-line numpy evaluator (self-tested against TLC's exact value on every evaluable cell), sympy.lambdify. Not judged: undocumented options (sheet, width_norm, running_width=False), models without a documented closed formula, roots of the barrier polynomial below threshold (the documented formula itself is singular there).",
        technique="TLA+ expression trees of the documented formulas (LineShape.tla, Barrier.tla) evaluated exactly by TLC on a rational lattice with the property's theorems as invariants; trees, exact lattice values and integer tables compared with the implementation (B3)",
        engine="tlc-table",
    ),
    "C16": dict(
        category="model_checking",
        text="spec/Params.tla is an implementation-shaped model of VarsManager (one variable per attribute, one action per public method, bodies transcribed from the code, histories restricted by a phase variable to the order a configuration applies operations). TLC checks every stated property of C16 (FixedOnlyExplicit, TiedEqual, TiedCountOnce, TieKeepsFree, ReadWriteIdentity, ComplexPreserved, StandardForm, BoundInverse, FitStepLocal) exhaustively up to the depth bound on three configurations; the labelled state graph is dumped and its edges are executed on a real VarsManager (projection compared and the observers of C16 evaluated on the real object after every step), long TLC-simulated behaviours are replayed the same way, and TLC counterexamples are replayed on the real code before they count. Analytic bound maps are checked numerically.",
        design_ref="DESIGN.md 3.1, 5/C16",
        note="Trusted: TLC; the lattice abstraction (integer values, complex values r*i^k, custom bound x+1 on [0,3]); depth bounds (quick 3-5, thorough 5-6) plus simulation depth 25-30; quick tier replays a seeded sample of graph edges; ReadWriteIdentity is stated for sessions without an active mask block; bound inverse/slope for analytic kinds sampled on a grid.",
        technique="TLA+ state machine (Params.tla) model-checked by TLC; behaviours replayed into the real VarsManager (B1), counterexamples confirmed on the code",
        engine="tlc-replay",
    ),
    "C17": dict(
        category="fault_enumeration",
        text="spec/Session.tla models one amplitude-model session: six kinds of temporary-override blocks (nesting up to 3), five derived computations as multi-step frames (partial weights, interference weights, fit fractions old/new method, factor iteration) and the fault actions Raise (an exception out of the innermost block or out of the k-th inner evaluation of a computation unwinds every open block) and Abandon (generator closed). TLC checks the invariant Transparent (no open block => parameter reads, active chains, flags equal the baseline) over every behaviour up to the depth bound, i.e. with a fault at every point. Every graph edge that returns to top level and TLC-simulated deep behaviours are executed on a real AmplitudeModel (real with-blocks unwound with the injected exception, real computations with DecayGroup.sum_amp raising at the k-th call), and after every return to top level parameter values, active chains, mask flags, configuration entry and the density of probe events are compared with the baseline.",
        design_ref="DESIGN.md 3.1, 5/C17",
        note="Trusted: TLC; fault = Python exception raised by the inner evaluation or inside the with-body; one probe parameter, three chains with one resonance each, 6 probe events; depth/nesting bounds (quick depth 6/3 for the invariant and graph, simulation depth 14; thorough 8/4, 24); quick tier replays a seeded sample of the edges.",
        technique="TLA+ session model with fault actions model-checked by TLC; behaviours with injected faults replayed on a real AmplitudeModel (B1)",
        engine="tlc-replay",
    ),
    "C03": dict(
        category="model_checking",
        text="spec/Superpose.tla states the superposition algebra exactly (Gaussian-integer amplitudes): TLC checks Linearity, Proportional, SumRule and BatchIndependent in every scenario (6^3 lattice couplings x chain-to-resonance assignments x batch sizes) and evaluates the selection tables of a group with shared resonances. The scenarios are realised on real 3-body (spin-1 finals) and 4-body decay groups: per-chain amplitude tensors measured under set_used_chains([k]) must add up to the amplitude of every ordered subset, set_used_res / only=True / temp_used_res must select exactly the chains of the TLC table, a chain's amplitude must scale with its own coupling (lattice factors), and fit fractions through four routes must be batch independent and obey the sum rule for TLC-enumerated coupling scenarios and batch classes (1, 7, N-1, N, N+3).",
        design_ref="DESIGN.md 3.2 Superpose, 5/C03",
        note="Trusted: TLC; the discrete quantifier (subsets, orders, routes, batch classes, lattice couplings) is enumerated, events and the remaining parameters are seeded samples; identities compared at relative 1e-9. The selection state machine (restore after computations) is covered by C17's Session model.",
        technique="TLA+ exact algebra (Superpose.tla) model-checked by TLC; TLC scenarios and selection tables realised on real decay groups (B3)",
        engine="tlc-scenario",
    ),
    "C18": dict(
        category="model_checking",
        text="Split/merge/mask/index/batch-call/LazyCall on nested event data and the momentum-file layouts are specified in TLA+ (spec/DataOps.tla, spec/DatFile.tla). TLC checks Merge(Split)=id, batch-wise = whole, Mask/Index exactness, Load(Save)=id on every tree of <=3 (thorough 4) dict/list/tuple/leaf nodes incl. empty containers, every N, every batch size 1..N+1, every boolean mask, every dat_order permutation and file grouping, together with an implementation-shaped step model of the batch generator. Every TLC case is executed on tf_pwa with event ids as array contents and compared exactly; recorded data_split calls (repo test + MAX_ITER boundary probes) are validated by TLC.",
        design_ref="DESIGN.md 3.2 DataOps, 5/C18; notes/C18.md",
        note="Trusted: TLC, numpy file I/O, the projection (nested structure -> nested lists of ids); bounded domain (nodes, N, leaf width 2); N >= 1; trees with at least one leaf; save_data/load_data judged on dict-rooted data only; ROOT I/O covered only by 3 flat-dict round trips.",
        technique="TLC-enumerated case tables + step-machine model of the batch generator, exact conformance replay (B3), TLC validation of recorded calls (B2)",
        engine="tlc-table",
    ),
    "C08": dict(
        category="model_checking",
        text="spec/FitSession.tla models a fitting session with the minimiser as an adversary (arbitrary evaluation points, each of which moves the model parameters) and the epilogue of every minimiser name transcribed from tf_pwa/fit.py (bound installation/removal, set_trans_var, early exit through except_result, result construction), repeated fits and save -> load into a fresh model. TLC checks ResultEqualsModel, MinIsNllOfResult, InsideBounds, EveryMethodReturns and SaveLoadIdentity over all sessions of up to two fits x 12 method names x 3 stop kinds x 3 evaluations, with and without declared bounds. Every (previous method, method, stop) used by the tier is realised as real ConfigLoader.fit calls on a small three-chain model with one of seven constraint sets (fixed, tied, two-/one-sided bounds, Gaussian constraint); after every return the clauses of C08 are evaluated on the real objects (result vs model, NLL at the result vs reported minimum, not above start, fixed unchanged, tied equal, inside bounds) and result / parameters are written to a file and loaded into a freshly built model.",
        design_ref="DESIGN.md 3.1 FitSession, 5/C08",
        note="Trusted: TLC; scipy/Minuit report the best point they evaluated (asserted per fit); early exit injected through a user callback raising LargeNumberError; NLL comparisons at relative 1e-8; quick tier runs BFGS/CG/L-BFGS-B/Newton-CG-p (+2 two-fit sessions), thorough all 12 names incl. iminuit; Hessian-based minimisers on a model with few free parameters (they always run to convergence). Bounds left installed by Newton-type fits are recorded as an observation, not judged.",
        technique="TLA+ fit-session model with adversarial minimiser model-checked by TLC; reachable sessions realised as real fits with observers (B1)",
        engine="tlc-replay",
    ),
    "C12": dict(
        category="model_checking",
        text="Every cell of spec/Tables.tla is one TLC state: the Wigner small-d weight row of every (2j<=8, m, n); every Clebsch-Gordan coefficient with j1,j2 <= 2 (quick) / <= 4 (thorough) via prime-exponent vectors; every CG orthonormality relation; the delta-index gather lists; Blatt-Weisskopf and Legendre rows. TLC checks on every cell the theorems that validate the transcription (d(0)=1, d(pi) antidiagonal, symmetries, exact unitarity of d(pi/2), CG symmetries/anchors/orthonormality, recurrences). The tables are compared entry by entry with small_d_weight, delta_D_index, cg_coef, get_cg_coef and cg_table.json (exact, exhaustive for the stated spin bounds). Unitarity, the group law, small-d at sampled angles incl. 0 and pi and SU2M Euler-angle extraction on rotation-boost-rotation products are sampled numerically (exploration part) with references assembled from the TLC weights.",
        design_ref="DESIGN.md 3.2 Tables, 5/C12; notes/C12.md",
        note="Trusted: TLC's 32-bit integer evaluation with overflow detection, the spec's reading of Wigner's and Racah's formulas (cross-validated inside TLC and against sympy); numpy for the sampled part. Spins above 4 not enumerated. get_cg_coef's shortcut outside the triangle is reported as an observation, not judged.",
        technique="TLC-evaluated exact tables with in-spec self-check theorems; entry-by-entry comparison (B3 exact); sampled numeric group-law / Euler-angle identities",
        engine="tlc-table",
    ),
    "C04": dict(
        category="exploration",
        text="spec/ClosedForm.tla (EXTENDS Tables, INSTANCE LSCoupling) has one TLC state per scenario: every non-empty subset of the three chains of A->123, every J in 0..4 per active chain, coupling triples from a Gaussian-integer lattice (1330 quick / 4095 thorough scenarios over all 215 model structures). TLC proves the (l,s) coupling is unique in both decays, derives the factor (-1)^J from the documented helicity-coupling formula with the exact CG table, multiplies the couplings exactly and emits the exact Legendre and Blatt-Weisskopf coefficient tables. The harness assembles the closed form of the property in numpy FROM THOSE TABLES (own kinematics, running-width Breit-Wigner written out from the documentation) and compares it absolutely (no fitted constant) with the density of a real ConfigLoader model on sampled Dalitz events.",
        design_ref="DESIGN.md 5/C04; notes/C04.md",
        note="Trusted: numpy kinematics of the reference, TLC tables; conventions derived from the documentation before comparing (c_k = total*g_ls*g_ls, barrier radius d=3.0, q/q0, p/p0). Tolerance 1e-8*ref + 1e-11*(sum|A_k|)^2 (cancellation term). Masses, widths and events are sampled.",
        technique="TLC-enumerated scenario space with exact tables from the spec; numpy closed form built from those tables vs the real model (B3 numeric)",
        engine="tlc-scenario",
    ),
    "C19": dict(
        category="model_checking",
        text="Every card of a finite grammar of decay cards (3-body with 1-3 resonance slots of 1-2 candidates, shared and empty slots; 4-body cascade / two decay modes / branching; vector, scalar and baryon schemes; J^P sets; one option site per card: p_break, l_list, float, m_min/m_max) is one TLC state of spec/DecayCard.tla. TLC proves that the loader-shaped and the declarative tree construction agree, every kept chain leads from the top to exactly the finals through declared decays, a chain is dropped iff some decay has an empty allowed (l,s) set (LSCoupling instantiated) and that the denotation does not depend on how the card is written. The emitted table is compared exactly with ConfigLoader(dict) for all cards, loaded twice in shuffled and interleaved passes in one process; names, free sets and bounds on a stratified subset; 13 alternative spellings (aliases, includes, candidate lists, key order, YAML file) and as_config() -> reload on a smaller one.",
        design_ref="DESIGN.md 3.2 DecayCard, 5/C19; notes/C19.md",
        note="Trusted: TLC; the card grammar bounds (quick 5208 cards, thorough 40560); export held to chains and J/P only. Observation outside the statement (not judged): functools.lru_cache keyed by particle names lets a second load with other spins reuse coupling tables.",
        technique="TLC enumeration of a finite decay-card grammar with declarative chain/selection/naming semantics; exhaustive table conformance of the real ConfigLoader (B3 exact)",
        engine="tlc-table",
    ),
    "C01": dict(
        category="exploration",
        text="spec/Symmetry.tla declares the discrete quantifier domain: decay structures (Topology forms for n = 3, 4; one to three chains incl. different topologies; spins; parity-conserving / -violating vertices; identical pairs; validity = non-empty LSCoupling!Allowed at every vertex) and, as a TLC state space, every word over {RotX90, RotZ60, RotGen, BoostZ, BoostGen, Parity, Swap(i,j)} up to length 2 (quick) / 3 (thorough) with Parity enabled only for n = 3 or all vertices parity conserving and Swap only for declared identical particles. The harness builds ConfigLoader(dict) per structure, applies each word to phase-space events with its own numpy Lorentz group and compares densities and invariant masses. Events, couplings and generic group elements are sampled; the structure product is covered by a hash-thinned slice.",
        design_ref="DESIGN.md 5/C01; notes/C01.md",
        note="Trusted: TLC; the harness's numpy transformations; tf_pwa.phasespace as event source. Tolerance 1e-6*(max+median density)+1e-12 (tf-pwa's alignment angle goes through acos near 1: noise ~1e-8). Spins of finals <= 1, resonances/parent <= 2, n <= 4. One known finding (identical particles with spinning finals).",
        technique="TLA+ scenario machine (Symmetry.tla) enumerated by TLC with the applicability conditions as enabling conditions; every scenario replayed numerically on the real code (B3 numeric)",
        engine="tlc-scenario",
    ),
    "C02": dict(
        category="exploration",
        text="spec/Symmetry.tla models the bookkeeping choices as a step machine over (decay structure, chain order, option vector {align_ref, random_z, center_mass, only_left_angle}, event frame). TLC visits every state of a slice of the structure product (>= 2 chains, a spinning final particle incl. spin 1/2), checks the transcription Ref(order, leaf) of aligned_angle_ref_rule1, the non-vacuity theorem (the reference moves under some permutation exactly for the alignment-sensitive structures) and writes the admissibility table. The harness builds one ConfigLoader per replayed state, sets the same parameters by name, evaluates the same events (rest frame and boosted laboratory frame) and compares with the declared order / default options; tf-pwa's own reference choice is compared with Ref exactly.",
        design_ref="DESIGN.md 5/C02; notes/C02.md",
        note="Trusted: TLC, the harness's independent boost/rotation. Tolerance 1e-6*(max+median)+1e-12. Admissibility calibrated by probe: align_ref=center_mass needs rest-frame events or center_mass=True; r_boost=False outside the property. Identical-particle structures excluded (known C01 finding).",
        technique="TLA+ bookkeeping machine (Symmetry.tla) enumerated by TLC; states replayed numerically, reference rule compared exactly (B3)",
        engine="tlc-scenario",
    ),
    "C11": dict(
        category="exploration",
        text="spec/Kinematics.tla takes every cascade shape for n = 3, 4, 5 final particles from Topology!CF(n) (3 + 15 + 105), derives the independent variables HelicityAngle.build_data consumes / find_variable returns (invariant VarCount: 3n-4) and a step machine over integer masses for the parent-first range rule (NeverStuck, Allowed, ParentFirst, RuleComplete). Per shape the harness builds the real DecayChain, compares the variable list exactly, samples masses with the specification's rule and angles and requires build_data -> cal_angle -> find_variable to return the inputs to 1e-9 (phi mod 2 pi). Dalitz and LorentzVector identities are sampled numeric probes attached to this check.",
        design_ref="DESIGN.md 5/C11; notes/C11.md",
        note="Trusted: TLC, numpy. The discrete part (all 123 shapes) is exhaustive; masses, angles, four-vectors and velocities (incl. |v| -> 0 and 0.999) are sampled; the vector identities have no discrete content and are flagged as sampled probes in the evidence.",
        technique="TLA+ spec (Kinematics.tla over Topology) model-checked by TLC; variable lists compared exactly, round trips sampled (B3)",
        engine="tlc-table",
    ),
    "C10": dict(
        category="exploration",
        text="spec/Sampler.tla and spec/PhspLattice.tla: TLC checks the refill loop of PhaseSpaceGenerator.generate and the nesting of ChainGenerator for every acceptance pattern (result length = N, a request is never empty, accepted refills make progress) and, on an integer mass lattice, that every factor of the unweighting weight is bounded by the matching factor of m_wtMax and that the importance factor lies in [0,1] (weight <= 1). The real generators are run on a seeded selection of TLC's scenario table (n = 2..6, massless/light/heavy daughters, three Q classes, every ordered nesting up to 5 leaves, decimal and dyadic masses) for N in {1, 7, 1000, 1e5}: exact counts, on-shell / momentum-sum / fixed-node-mass residuals <= 1e-9 m0, get_weight <= 1 and exact weight ratios on lattice chains, flatness by chi^2 against an independent quadrature of the recursive phase-space density; every generate() call is traced and validated by the trace specification (B2).",
        design_ref="DESIGN.md 5/C10; notes/C10.md",
        note="Continuous quantifier (masses, events) sampled; flatness statistical at alpha = 1e-12 per test; the phase-space oracle (harness/phsp_c10.py, numpy quadrature) is trusted after a self-test against an independent weighted generator. One known finding (cal_max_weight can shrink the weight bound below the true maximum).",
        technique="TLC loop model + exact mass-lattice weight table + TLC trace validation of recorded batches (B2) + numeric/statistical oracle (B3)",
        engine="tlc-scenario",
    ),
    "C20": dict(
        category="model_checking",
        text="The accept-reject samplers (multi_sampling/single_sampling2, interp_sample_f) are modelled in spec/Sampler.tla as a step machine over integer weights, rational random numbers and exact rational bounds; TLC checks on every state that each alive event carries an effective bound >= its weight, that N_gen bookkeeping is consistent and that the result is the first N events. Every trace recorded from the real functions (instrumented phsp/amp/f callables, controlled random numbers on k/16, or decision witnesses with the real generator) must be accepted by spec/TraceSampler.tla; corrupted traces are shown to be rejected. LinearInterp is held to TLC's exact (grid, x, u) pairs (spec/CdfInvert.tla) at 1e-9, AdaptiveBound and Hist1D to the postconditions TLC proves on enumerated integer data sets (spec/Bins.tla). That the accepted sample follows the density is tested statistically (exact binomial tests of weight-class fractions, chi^2 of a real model's Dalitz plot) - this distributional part is exploration.",
        design_ref="DESIGN.md 5/C20; notes/C20.md",
        note="Trusted: TLC; controlled random numbers injected through the instrumented callables; statistical tests at a fixed per-check false-alarm probability <= 1e-9; BWGenerator / InterpND checked by deterministic stratified inversion of their own CDF.",
        technique="TLC step machine + TLC trace validation of recorded sampler runs (B2) + exact tables (B3) + fixed-alpha statistical tests",
        engine="tlc-replay",
    ),
    "C09": dict(
        category="exploration",
        text="spec/ErrProp.tla is a step machine whose state is one value+-error expression tree and whose actions are the operators of NumberError (25 named actions incl. cal_err, apply, exp, log, pow with uncertain base or exponent); Rule transcribes err_num.py carrying the error as sign*sqrt(q) in exact rationals, Ref is forward-mode differentiation in exact rationals. TLC explores every tree up to depth 2 (thorough: plus a depth-3 family; 44 099 / 309 618 states) and proves Magnitude, ValueAgrees, NonNegative, TransLaw and the bound-congruence lemmas. Every emitted tree is evaluated with the real NumberError / cal_err against sqrt(Ref); error_trans / params_trans are fed TLC's exact gradients; trans_error_matrix on all 64 bound configurations; get_params_error (all methods, with and without bounds), cal_hesse_error and VarsManager.minimize(_error) against a Richardson finite-difference Hessian of the NLL; both fit-fraction error paths against the finite-difference gradient of the fraction itself for every resonance and interference term.",
        design_ref="DESIGN.md 5/C09; notes/C09.md",
        note="Trusted: TLC; an independent Fraction oracle in the harness matches TLC's values exactly on every row; finite differences with Richardson extrapolation on small fitted three-body models (positive-definite points only); reflected operators (2 + N) are not defined by the class and are counted as an assumption.",
        technique="TLA+ step machine over value+-error expression trees model-checked by TLC in exact rationals; every tree replayed on NumberError / ParamsTrans (B3); Hessian and fit-fraction errors against finite differences",
        engine="tlc-table",
    ),
    "C05": dict(
        category="model_checking",
        text="(a) spec/Session.tla models the id cache and the compiled graph of AbsPDF (which Python-level state a trace freezes: active chains, coordinate form, mask entries, mask_factor flags); TLC checks CompiledEqualsEager over all session histories and behaviours with density calls are replayed on a real model built with use_tf_function: True, where amp(data) must equal the eager amp.pdf(data). (c) spec/Einsum.tla: the contraction routine is decided exactly and exhaustively on the bounded grammar of programs the amplitude builder emits (chain shapes n=2..4, index sizes 1..3, aligned finals, daughter/decay order, broadcast operands): TLC proves an implementation-shaped model of einsum.py (all set-iteration orders of ordered_indices, all pairwise contraction paths) equal to the reference semantics and emits every program with its expected output; the real tf_pwa.einsum.einsum must return exactly that or raise. (b) spec/Strategies.tla: the strategy option space (4000 combinations, 760 applicable) is enumerated by TLC with the applicability predicate; a covering selection of applicable strategies is compared with plain eager evaluation on density (three parameter points, lazily batched data) and NLL + gradient (1e-8; XLA 1e-6).",
        design_ref="DESIGN.md 3.1 EvalCache, 3.2 Einsum, 5/C05; notes/C05.md",
        note="Trusted: TLC, numpy.einsum only as a cross-check of the specification, TensorFlow eager as the reference for strategies; set iteration order inside tf_pwa.einsum is driven by an order-controlled set class placed in the module namespace by the harness; opt_einsum's path is not modelled (TLC explores every pairwise path); strategy equality over events and parameter values is sampled.",
        technique="TLC step machines (Session.tla cache model, Einsum.tla) + exact replay of every program into the real routine (B3) + behaviours replayed on a compiled model (B1) + TLC-enumerated strategy table compared numerically",
        engine="tlc-table",
    ),
    "C06": dict(
        category="exploration",
        text="spec/Likelihood.tla contains the definition of the property (alpha = sum w / sum w^2, background with weight -w_bkg, MC integral with normalised weights, extended lambda term, cfit mixture with efficiency, cfit-extended terms, Gaussian constraint once, sum over simultaneous data sets) and, separately, the algorithm as a step machine transcribed from the code (get_weight_data, FCN pre-batching and MC normalisation, one action per processed data / MC batch, the combination for default / extended / cfit / cfit_extended / cfit_cached / simple, CombineFCN). TLC checks algorithm = definition for every batch size 1..N+1 in exact arithmetic (rationals + formal logarithms as prime-exponent vectors), partition into batches, MC normalisation and f -> lambda f invariance for non-extended kinds. The numpy transliteration of the definition is first held to TLC's exact values on the emitted scenarios, then a stratified sample of scenarios is replayed through ConfigLoader.get_fcn for 9 implementation kinds: fcn(params), nll_grad(params)[0], every batch size, rescaling, CombineFCN = sum of parts, processed batch sizes against TLC's partition table.",
        design_ref="DESIGN.md 5/C06; notes/C06.md",
        note="Trusted: TLC; the amplitude object (per-event densities of the oracle come from one unbatched call of the same amplitude); numpy. Assumptions: sum of weights != 0 and MC integral > 0; clip_log is the identity above its threshold; cached models only with floating couplings; inject_mc, MixLogLikehoodFCN, resolution_size > 1 not claimed.",
        technique="TLA+ step machine of the NLL evaluation checked by TLC in exact arithmetic against the declarative definition; TLC-emitted scenarios replayed on real FCN objects (B3 numeric)",
        engine="tlc-scenario",
    ),
    "C07": dict(
        category="exploration",
        text="spec/Jets.tla defines exact second-order jets over the rationals (+, *, /, ln, general chain rule; cross-checked by five lemmas) and transcribes every hand-written derivative assembly of the code (nll_grad_batch / nll_grad_hessian with the outer-product term / grad_hessp_batch, the cached_int and cached_amp variants, the cfit chain rule through I_sig and I_bg incl. the extended terms, the three bound transforms of VarsManager, the Gaussian-constraint terms of FCN / CombineFCN, SumVar's second-order reconstruction). TLC compares formula and jet on all small jets; TLC also enumerates the applicable scenarios (model kind x bound kinds x floating set x constraints x batch). On real FCN objects the gradient, Hessian and Hessian-vector product are compared with Richardson finite differences of the reported NLL along random directions in fit coordinates (through trans_fcn_grad / trans_f_grad_hess / trans_grad_hessp), together with the value and batch identities.",
        design_ref="DESIGN.md 5/C07; notes/C07.md",
        note="Trusted: TLC; TensorFlow's automatic differentiation of one batch; the closed-form bound maps. Interior parameter points; finite differences with three step sizes, two must agree to 1e-6 (else the point is discarded and counted), agreement 1e-5 relative / 1e-7 absolute. Four known findings (cfit-type models inherit the default model's grad_hessp formula).",
        technique="TLA+ rational 2-jet algebra (Jets.tla) checked by TLC against the assembly formulas transcribed from the code; TLC-enumerated scenarios differentiated numerically on real FCN objects (B3 numeric)",
        engine="tlc-scenario",
    ),
}

NOT_YET = "check not built yet in this round (planned in DESIGN.md 5); not claimed until its specification is bound to the code"
NA = {}


def main():
    checks = []
    for pid in ALL:
        if pid not in CLAIMS:
            continue
        c = CLAIMS[pid]
        checks.append(
            {
                "property_id": pid,
                "quick_cmd": "./check %s --tier quick" % pid,
                "thorough_cmd": "./check %s --tier thorough" % pid,
                "evidence_file": "evidence/%s.json" % pid,
                "replay_cmd_template": "./check %s --replay {path}" % pid,
                "engine": c["engine"],
                "level_claimed": {"category": c["category"], "text": c["text"], "design_ref": c["design_ref"]},
                "level_note": c["note"],
                "technique": c["technique"],
            }
        )
    na = []
    for pid in ALL:
        if pid in CLAIMS:
            continue
        na.append({"property_id": pid, "reason": NA.get(pid, NOT_YET)})
    m = {
        "version": 1,
        "setup_cmd": "./setup.sh",
        "hooks": {
            "guard": "TFPWA_VERIF",
            "enable": "no hooks are committed to /repo: tracing wrappers are installed from /verif/harness at import time when TFPWA_VERIF=1 (set by ./check); tf_pwa is imported from /repo's working tree (pure Python, no build)",
            "baseline_off_cmd": "cd /repo && /venv/bin/python -m pytest -ra -q -p no:cacheprovider --timeout=900 --continue-on-collection-errors",
            "source_commits": [],
            "add_only": True,
        },
        "engines": [
            {"name": "tlc-table", "path": "harness/tlc.py", "serves_properties": [p for p in CLAIMS if CLAIMS[p]["engine"] == "tlc-table"], "kind_free_text": "TLC evaluates a declarative/step specification on the whole bounded domain and writes tables as JSON; harness compares the implementation entry by entry"},
            {"name": "tlc-replay", "path": "harness/tlc.py", "serves_properties": [p for p in CLAIMS if CLAIMS[p]["engine"] == "tlc-replay"], "kind_free_text": "TLC explores a state machine; behaviours (state graph / simulation traces) are replayed on the real objects and recorded traces are validated by TLC"},
            {"name": "tlc-scenario", "path": "harness/tlc.py", "serves_properties": [p for p in CLAIMS if CLAIMS[p]["engine"] == "tlc-scenario"], "kind_free_text": "TLC enumerates the discrete scenario space and checks the exact algebraic skeleton; the continuous part is sampled numerically against the implementation"},
        ],
        "checks": checks,
        "not_applicable": na,
        "notes": "Single entry point ./check <ID> --tier quick|thorough. Exit 0 held / 1 VIOLATION / 2 machinery failure. Known findings: known_findings.json. See DESIGN.md.",
    }
    with open(os.path.join(ROOT, "MANIFEST.json"), "w") as f:
        json.dump(m, f, indent=1)
    print("claimed:", sorted(CLAIMS), "not claimed:", [x["property_id"] for x in na])


if __name__ == "__main__":
    main()
