"""Model part of check C09: fitted spin-0 three-body models.

* ConfigLoader.get_params_error (all methods) / applications.cal_hesse_error
  against sqrt(diag(H^-1)) of a finite-difference Hessian of the reported NLL
  at positive-definite points (the fitted minimum and displaced points), and
  through the bound transformation (method "3-point" with bounds installed).
* fit-fraction errors (applications.fit_fractions method "old" =
  fitfractions.cal_fitfractions + g V g, method "new" = FitFractions) against
  sqrt(g V g) with g the finite-difference gradient of the fraction itself,
  for every resonance and every interference term, V = fitted inverse Hessian
  and random covariance matrices.
* ConfigLoader.params_trans on TLC expression trees of the fitted parameters.
"""
import contextlib
import io
import json
import math
import os
import warnings

import numpy as np

from . import errprop_c09 as E
from .tlc import MachineryError

TOL_FD = 1e-5
# get_params_error(method="3-point") and correct_params differentiate numerically themselves with fixed
# steps (5e-4 on the gradient, 1e-3 on the NLL, no extrapolation): their truncation error is theirs
TOL_NUMERIC = 2e-3
# cal_hesse_correct(correct_params) uses a one-sided stencil f(x+2e), f(x-e), f(x-2e) with e = 1e-3 whose
# truncation error is first order in e (about e*f3/(9*f2), 3e-3 observed): approximate by construction
TOL_CORRECT = 2e-2

MASSES = {"A": 4.6, "B": 2.00698, "C": 2.01028, "D": 0.13957}


def _cfg(variant):
    res = {
        "R_BC": {"J": 1, "Par": -1, "m0": 4.16, "g0": 0.15},
        "R_BD": {"J": 1, "Par": -1, "m0": 2.43, "g0": 0.3},
        "R_CD": {"J": 0, "Par": 1, "m0": 2.42, "g0": 0.12},
    }
    if variant == 1:  # floating mass and width (with the configuration's own bounds)
        res["R_BD"].update({"float": "mg", "m_min": 2.2, "m_max": 2.7, "g_min": 0.05, "g_max": 0.8})
    if variant == 2:  # other spins, a floating width
        res["R_BC"]["J"], res["R_BC"]["Par"] = 0, 1
        res["R_CD"]["J"], res["R_CD"]["Par"] = 2, 1
        res["R_BC"].update({"float": "g", "g_min": 0.02, "g_max": 0.6})
    return {
        "data": {"dat_order": ["B", "C", "D"]},
        "decay": {"A": [["R_BC", "D"], ["R_BD", "C"], ["R_CD", "B"]], "R_BC": ["B", "C"], "R_BD": ["B", "D"], "R_CD": ["C", "D"]},
        "particle": {
            "$top": {"A": {"J": 0, "P": -1, "mass": MASSES["A"]}},
            "$finals": {k: {"J": 0, "P": -1, "mass": MASSES[k]} for k in "BCD"},
            **res,
        },
    }


TRUTH = [
    {"A->R_BD.CR_BD->B.D_total_0r": 1.5, "A->R_BD.CR_BD->B.D_total_0i": 1.1, "A->R_CD.BR_CD->C.D_total_0r": 0.35, "A->R_CD.BR_CD->C.D_total_0i": -0.45},
    {"A->R_BD.CR_BD->B.D_total_0r": 1.6, "A->R_BD.CR_BD->B.D_total_0i": -0.9, "A->R_CD.BR_CD->C.D_total_0r": 0.4, "A->R_CD.BR_CD->C.D_total_0i": 0.3},
    {"A->R_BD.CR_BD->B.D_total_0r": 0.8, "A->R_BD.CR_BD->B.D_total_0i": 1.9, "A->R_CD.BR_CD->C.D_total_0r": 1.2, "A->R_CD.BR_CD->C.D_total_0i": 0.4},
]


@contextlib.contextmanager
def _quiet():
    buf = io.StringIO()
    with contextlib.redirect_stdout(buf), warnings.catch_warnings(), np.errstate(all="ignore"):
        warnings.simplefilter("ignore")
        yield buf


def _close(a, b, rel, abs_=0.0):
    return math.isfinite(a) and math.isfinite(b) and abs(a - b) <= rel * max(abs(a), abs(b)) + abs_


def _build(variant, seed, ndata, nphsp):
    import tensorflow as tf

    from tf_pwa.config_loader import ConfigLoader
    from tf_pwa.data import data_mask, data_shape
    from tf_pwa.phasespace import PhaseSpaceGenerator

    with _quiet():
        c = ConfigLoader(_cfg(variant))
        amp = c.get_amplitude()
        gen = PhaseSpaceGenerator(MASSES["A"], [MASSES["B"], MASSES["C"], MASSES["D"]])

        def mk(n, s):
            tf.random.set_seed(s)
            np.random.seed(s % (2**32))
            p = [np.array(i) for i in gen.generate(n)]
            return c.data.cal_angle(p)

        phsp = mk(nphsp, seed + 1)
        c.set_params(dict(TRUTH[variant]))
        big = mk(ndata * 12, seed + 2)
        w = amp(big).numpy()
        r = np.random.RandomState((seed + 3) % (2**32))
        sel = r.uniform(0, w.max(), size=len(w)) < w
        idx = np.nonzero(sel)[0][:ndata]
        m = np.zeros(len(w), dtype=bool)
        m[idx] = True
        data = data_mask(big, m)
    return c, amp, data, phsp, int(data_shape(data))


def _rich3(d, h):
    """d(h): a central-difference estimate with O(h^2) error.  Three steps h, h/2, h/4;
    the Richardson values R1 (from h, h/2) and R2 (from h/2, h/4) must agree; -> (R2, |R1 - R2|)"""
    d1, d2, d3 = d(h), d(h / 2), d(h / 4)
    r1 = (4 * d2 - d1) / 3
    r2 = (4 * d3 - d2) / 3
    return r2, np.abs(r1 - r2)


def _fd_hessian(f, x0, h):
    """central second differences of the function values; -> (H, relative disagreement of the two extrapolations)"""
    n = len(x0)
    f0 = f(x0)

    def hess(hh):
        H = np.zeros((n, n))
        for i in range(n):
            e = np.zeros(n)
            e[i] = hh[i]
            H[i, i] = (f(x0 + e) - 2 * f0 + f(x0 - e)) / hh[i] ** 2
        for i in range(n):
            for j in range(i + 1, n):
                ei = np.zeros(n)
                ej = np.zeros(n)
                ei[i] = hh[i]
                ej[j] = hh[j]
                v = (f(x0 + ei + ej) - f(x0 + ei - ej) - f(x0 - ei + ej) + f(x0 - ei - ej)) / (4 * hh[i] * hh[j])
                H[i, j] = H[j, i] = v
        return H

    H, dis = _rich3(hess, h)
    return H, float(dis.max() / max(np.abs(H).max(), 1e-300))


def _fd_grad_vec(f, x0, h):
    """Jacobian of a vector-valued function; -> (J[n_out, n_par], disagreement of the two extrapolations)"""
    n = len(x0)

    def jac(hh):
        cols = []
        for i in range(n):
            e = np.zeros(n)
            e[i] = hh[i]
            cols.append((f(x0 + e) - f(x0 - e)) / (2 * hh[i]))
        return np.stack(cols, axis=1)

    return _rich3(jac, h)


def _cov(rng, n, scale):
    a = rng.normal(size=(n, n))
    m = a @ a.T + 0.2 * np.eye(n)
    s = scale * rng.uniform(0.3, 1.5, size=n) / np.sqrt(np.diag(m))
    return m * s[:, None] * s[None, :]


def _one_model(ctx, variant, rng, mg, quick, exact_rows):
    import tensorflow as tf

    from tf_pwa.applications import cal_hesse_error, fit_fractions

    tag = "model%d" % variant
    seed = ctx.seed + 1000 * variant
    c, amp, data, phsp, nd = _build(variant, seed, 1000 if quick else 1500, 2000 if quick else 3000)
    vm = amp.vm
    with _quiet():
        fr = c.fit(data=[data], phsp=[phsp], method="BFGS")
        fcn = c.get_fcn([[data], [phsp], None, None])
        names = list(vm.trainable_vars)
        n = len(names)
        # polish with Newton steps so that the gradient vanishes to rounding (bounds are not installed here)
        for it in range(6):
            nll, g, H = fcn.nll_grad_hessian({})
            g = np.array(g)
            H = np.array(H)
            if np.abs(g).max() < 1e-7:
                break
            x = np.array(vm.get_all_val()) - np.linalg.solve(H, g)
            vm.set_all(x.tolist())
        x0 = np.array(vm.get_all_val(), dtype=float)
        gmax = float(np.abs(np.array(fcn.nll_grad({})[1])).max())
    ctx.log("%s: %d events, %d free parameters %s, |grad|max=%.2e" % (tag, nd, n, names, gmax))
    if gmax > 1e-4:
        raise MachineryError("%s: minimisation did not converge (|grad|=%g)" % (tag, gmax))

    def f_nll(x):
        with _quiet():
            return float(fcn(dict(zip(names, [float(v) for v in x]))))

    # step sizes from the fitted scale of every parameter
    with _quiet():
        _, _, H_ad = fcn.nll_grad_hessian({})
    H_ad = np.array(H_ad)
    sig0 = 1.0 / np.sqrt(np.abs(np.diag(H_ad)))
    results = {"free_parameters": n, "events": nd}
    n_pts = 0
    n_skip = 0
    points = [("minimum", x0)]
    for k in range(0 if quick else 3):
        points.append(("displaced%d" % k, x0 + rng.normal(size=n) * sig0 * 0.7))
    params_at_min = dict(zip(names, [float(v) for v in x0]))
    inv_at_min = None
    for pname, xp in points:
        Hfd, dis = _fd_hessian(f_nll, xp, 0.1 * sig0)
        f_nll(x0)
        ev = np.linalg.eigvalsh((Hfd + Hfd.T) / 2)
        if dis > 1e-6 or ev.min() <= 1e-6 * ev.max():
            n_skip += 1
            ctx.log("%s %s: skipped (step disagreement %.1e, min eigenvalue %.3g)" % (tag, pname, dis, ev.min()))
            continue
        Vref = np.linalg.inv(Hfd)
        sref = np.sqrt(np.diag(Vref))
        n_pts += 1
        with _quiet():
            _, _, Hx = fcn.nll_grad_hessian(dict(zip(names, [float(v) for v in xp])))
            f_nll(x0)
        ctx.log("%s %s: FD Hessian step disagreement %.1e; vs autodiff Hessian %.1e (informational)" % (tag, pname, dis, np.abs(np.array(Hx) - Hfd).max() / np.abs(Hfd).max()))
        if pname == "minimum":
            inv_at_min = Vref
        pdict = dict(zip(names, [float(v) for v in xp]))
        methods = [
            ("default", dict()),
            ("hesse", dict(method="hesse")),
            ("3-point", dict(method="3-point")),
            ("correct_params", dict(method="correct", correct_params=[names[0]])),
        ]
        if not quick:
            methods.append(("no_force_pos", dict(force_pos=False)))
        for mname, kw in methods:
            if mname == "correct_params" and pname != "minimum":
                # cal_hesse_correct's numeric stencil is only meaningful at a stationary point (it picks up
                # 2 f'/(3 e) elsewhere); the property speaks about fit results, so it is held to it there only
                continue
            with _quiet():
                # the model holds OTHER values than the point handed over: the errors belong to `pdict`
                vm.set_all((x0 + 0.6 * sig0 * np.array([(-1.0) ** k for k in range(n)])).tolist())
                err = c.get_params_error(pdict, data=[data], phsp=[phsp], **kw)
                V = np.array(c.inv_he)
            ctx.count(1, distinct_key=(tag, pname, mname))
            tol = TOL_CORRECT if mname == "correct_params" else TOL_NUMERIC if mname == "3-point" else TOL_FD
            for i, nm in enumerate(names):
                mg.add("params_error:" + mname, float(err[nm]), sref[i])
                if not _close(float(err[nm]), sref[i], tol):
                    ctx.violation("%s:get_params_error:%s:%s" % (tag, mname, pname), {"parameter": nm, "got": float(err[nm]), "expected sqrt(diag(H^-1))": float(sref[i]),
                                                                                 "all_got": [float(err[k]) for k in names], "all_expected": sref.tolist()})
                    break
            sc = np.sqrt(np.outer(np.diag(Vref), np.diag(Vref)))
            if not np.allclose(V / sc, Vref / sc, rtol=0, atol=20 * tol):
                ctx.violation("%s:inv_he:%s:%s" % (tag, mname, pname), {"got": V.tolist(), "expected": Vref.tolist()})
        if pname == "minimum":
            # as in the work flow: the FitResult is handed over and receives the errors
            with _quiet():
                vm.set_all(x0.tolist())
                fr.params = dict(fcn.get_params())
                c.fit_params = fr
                err = c.get_params_error(fr, data=[data], phsp=[phsp])
            ctx.count(1, distinct_key=(tag, pname, "fit_result"))
            got = [float(fr.error.get(nm, float("nan"))) for nm in names]
            if not np.allclose(got, sref, rtol=TOL_FD):
                ctx.violation("%s:fit_result_error" % tag, {"got": got, "expected": sref.tolist()})
        with _quiet():
            vm.set_all(x0.tolist())
            he, inv = cal_hesse_error(fcn, pdict, check_posi_def=True, save_npy=False)
        ctx.count(1, distinct_key=(tag, pname, "cal_hesse_error"))
        if not np.allclose(he, sref, rtol=TOL_FD):
            ctx.violation("%s:cal_hesse_error:%s" % (tag, pname), {"got": list(map(float, he)), "expected": sref.tolist()})
        # the parameters were given as an argument: the model must be evaluated there
        with _quiet():
            vm.set_all(x0.tolist())
    if inv_at_min is None:
        raise MachineryError("%s: finite-difference Hessian at the minimum is not usable" % tag)
    results["hessian_points"] = n_pts
    results["hessian_points_skipped"] = n_skip

    # ---- bound transformations: 3-point method with bounds installed (V_y = y' V_x y' on a real model) ----
    sref = np.sqrt(np.diag(inv_at_min))
    kinds = ["both", "lower", "upper"]
    bcfgs = [("both", "none"), ("lower", "upper")] if quick else [(a, b) for a in kinds + ["none"] for b in kinds + ["none"] if (a, b) != ("none", "none")]
    n_b = 0
    for ka, kb in bcfgs:
        bd = {}
        for nm, k, s in zip(names[:2], (ka, kb), sref[:2]):
            v = params_at_min[nm]
            if k == "both":
                bd[nm] = (v - 3.1 * s, v + 4.7 * s)
            elif k == "lower":
                bd[nm] = (v - 2.3 * s, None)
            elif k == "upper":
                bd[nm] = (None, v + 1.9 * s)
        with _quiet():
            vm.set_all(x0.tolist())
            vm.set_bound(bd)
            try:
                err = c.get_params_error(params_at_min, data=[data], phsp=[phsp], method="3-point")
            finally:
                vm.remove_bound()
                vm.set_all(x0.tolist())
        n_b += 1
        ctx.count(1, distinct_key=(tag, "bounds", ka, kb))
        for i, nm in enumerate(names):
            mg.add("params_error:3-point_bounded", float(err[nm]), sref[i])
            if not _close(float(err[nm]), sref[i], TOL_NUMERIC):
                ctx.violation("%s:get_params_error:3-point:bounds=%s-%s" % (tag, ka, kb), {"parameter": nm, "bounds": {k: list(v) for k, v in bd.items()}, "got": float(err[nm]), "expected": float(sref[i])})
                break
    results["bound_configurations"] = n_b

    # ---- fit fractions ----
    res = [str(i) for i in amp.res]
    keys = []
    for i in range(len(res)):
        for j in range(i, -1, -1):
            keys.append(res[i] if i == j else (res[i], res[j]))
    w = np.array(phsp.get("weight", np.ones(len(amp(phsp).numpy()))))

    def fracs(x):
        """the fractions themselves, from the densities (definition, no library fraction code)"""
        with _quiet():
            vm.set_all([float(v) for v in x])
            old = amp.decay_group.chains_idx if hasattr(amp.decay_group, "chains_idx") else None
            try:
                tot = float(np.sum(w * amp(phsp).numpy()))
                part = {}
                for i in range(len(res)):
                    for j in range(i, -1, -1):
                        amp.set_used_res([res[i]] if i == j else [res[i], res[j]])
                        part[(i, j)] = float(np.sum(w * amp(phsp).numpy())) / tot
            finally:
                amp.set_used_res(list(amp.res))
            outv = []
            for i in range(len(res)):
                for j in range(i, -1, -1):
                    outv.append(part[(i, i)] if i == j else part[(i, j)] - part[(i, i)] - part[(j, j)])
        return np.array(outv)

    n_ff_skip = 0
    F0 = fracs(x0)
    J, dis = _fd_grad_vec(fracs, x0, 0.05 * sref)
    results["fit_fraction_fd_disagreement"] = float("%.3g" % (dis.max() / np.abs(J).max()))
    fracs(x0)
    covs = [("inv_he", inv_at_min)] + [("random%d" % k, _cov(rng, n, float(np.mean(sref)))) for k in range(1 if quick else 6)]
    n_ff = 0
    diag_idx = [k for k, key in enumerate(keys) if not isinstance(key, tuple)]

    def lookup(d, key):
        if key in d:
            return d[key]
        if isinstance(key, tuple) and (key[1], key[0]) in d:
            return d[(key[1], key[0])]
        return None

    for vname, V in covs:
        ref = np.sqrt(np.clip(np.einsum("ki,ij,kj->k", J, V, J), 0, None))
        jsum = J[diag_idx].sum(axis=0)
        ref_sum = math.sqrt(max(jsum @ V @ jsum, 0.0))
        # "new_twice": the FitFractions object integrates a second time (another batch size) before it is read
        paths = ["old", "new", "new_twice"] + (["config_old", "config_new"] if vname == "inv_he" else [])
        for method in paths:
            extra = {}
            with _quiet():
                vm.set_all(x0.tolist())
                if method.startswith("config_"):
                    c.inv_he = V
                    ret = c.cal_fitfractions(params_at_min, mcdata=phsp, batch=900, method=method[7:])
                elif method == "new_twice":
                    ret = fit_fractions(amp, phsp, V, params_at_min, batch=900, res=list(res), method="new")
                    with amp.temp_params(params_at_min):
                        ret.integral(phsp, batch=450)
                else:
                    ret = fit_fractions(amp, phsp, V, params_at_min, batch=900, res=list(res), method=method)
                if method.endswith("old"):
                    fr_, er_ = ret
                else:
                    fr_, er_ = ret.get_frac(sum_diag=True)
                    extra["sum_diag"] = (float(fr_["sum_diag"]), float(er_["sum_diag"]))
            for k, key in enumerate(keys):
                ctx.count(1, distinct_key=(tag, "ff", method, str(key), vname))
                n_ff += 1
                kk = "x".join(key) if isinstance(key, tuple) else key
                fv, ev = lookup(fr_, key), lookup(er_, key)
                if fv is None or ev is None:
                    ctx.violation("%s:fit_fraction_missing:%s:%s" % (tag, method, kk), {"keys": [str(x) for x in fr_]})
                    continue
                if not _close(float(fv), F0[k], 1e-8, 1e-12):
                    ctx.violation("%s:fit_fraction_value:%s:%s" % (tag, method, kk), {"got": float(fv), "expected": float(F0[k])})
                    continue
                # ill-conditioned finite-difference points are discarded (DESIGN 4)
                if dis[k].max() > 1e-6 * max(np.abs(J[k]).max(), 1e-9):
                    n_ff_skip += 1
                    continue
                mg.add("fit_fraction_error:" + method, float(ev), ref[k])
                if not _close(float(ev), ref[k], TOL_FD, 1e-9):
                    ctx.violation("%s:fit_fraction_error:%s:%s" % (tag, method, kk), {"covariance": vname, "got": float(ev), "expected sqrt(gVg)": float(ref[k]),
                                                                               "fd_gradient": J[k].tolist()})
            if "sum_diag" in extra:
                fv, ev = extra["sum_diag"]
                n_ff += 1
                if not _close(fv, float(F0[diag_idx].sum()), 1e-8) or not _close(ev, ref_sum, TOL_FD, 1e-9):
                    ctx.violation("%s:fit_fraction_error:%s:sum_diag" % (tag, method), {"covariance": vname, "got": [fv, ev], "expected": [float(F0[diag_idx].sum()), ref_sum]})
    results["fit_fraction_fd_discarded"] = n_ff_skip
    results["fit_fraction_comparisons"] = n_ff
    ctx.sample({"model": tag, "free": names, "sigma(H_fd^-1)": [float("%.6g" % v) for v in sref],
                "fit_fractions": {("x".join(k) if isinstance(k, tuple) else k): float("%.6g" % F0[i]) for i, k in enumerate(keys)}})

    # ---- ConfigLoader.params_trans on TLC trees of the fitted parameters ----
    c.inv_he = inv_at_min
    pool = [(t, g) for fam, (t, _, _, _, _, g) in exact_rows if fam == "rat" and 2 <= len(g) <= n and E.depth(t) == 2]
    import random as _r

    rs = _r.Random(ctx.seed + variant)
    n_pt = 0

    class TB(object):
        def __init__(self, xs):
            self.x = xs
            self.i = 0

        def leaf(self, P):
            v = self.x[self.i]
            self.i += 1
            return v

        def const(self, P):
            return float(E.frac(P, 0))

    class PD(E.DualBackend):
        def __init__(self, point):
            E.DualBackend.__init__(self, n, False)
            self.point = point

        def leaf(self, P):
            g = [0.0] * self.n
            g[self.i] = 1.0
            v = float(self.point[self.i])
            self.i += 1
            return E.Dual(v, g)

    for t, _ in rs.sample(pool, min(25 if quick else 200, len(pool))):
        k = E.n_leaves(t)
        perm = rs.sample(range(n), k)
        try:
            d = E.walk(t, PD([x0[i] for i in perm]))
        except ZeroDivisionError:
            continue
        gfull = np.zeros(n)
        for i, gi in zip(perm, d.g):
            gfull[i] += gi
        if not np.all(np.isfinite(gfull)) or np.abs(gfull).max() > 1e6:
            continue
        ref = math.sqrt(max(gfull @ inv_at_min @ gfull, 0.0))
        with _quiet():
            with c.params_trans() as pt:
                y = E.walk(t, TB([pt[names[i]] for i in perm]))
            got = float(pt.get_error(y))
        n_pt += 1
        ctx.count(1, distinct_key=(tag, "pt", json.dumps(t), tuple(perm)))
        if ref < 1e-9 * max(np.abs(gfull).max(), 1.0):
            continue
        mg.add("config.params_trans", got, ref)
        if not _close(got, ref, 1e-9, 1e-13):
            ctx.violation("%s:params_trans" % tag, {"expr": E.py_expr(t), "parameters": [names[i] for i in perm], "got": got, "expected": ref})
    results["params_trans_expressions"] = n_pt
    ctx.part(tag, **results)


def model_part(ctx, rng, mg, quick, exact_rows):
    cwd = os.getcwd()
    os.chdir(ctx.work)  # get_params_error writes error_matrix.npy into the working directory
    try:
        for variant in ([0] if quick else [0, 1, 2]):
            _one_model(ctx, variant, rng, mg, quick, exact_rows)
    finally:
        os.chdir(cwd)
