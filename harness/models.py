"""Small real tf-pwa models shared by the Session / FitSession bindings."""
import numpy as np


def toy_dict(spin0=True, extra=None, data=None, jr=(1, 0, 2)):
    """A -> (R_BC -> B C) D, (R_BD -> B D) C, (R_CD -> C D) B : three chains, one resonance each"""
    if spin0:
        top = {"J": 0, "P": -1, "mass": 4.6}
        fin = {"J": 0, "P": -1}
    else:
        top = {"J": 1, "P": -1, "spins": [-1, 1], "mass": 4.6}
        fin = {"J": 1, "P": -1}
    d = {
        "data": dict({"dat_order": ["B", "C", "D"]}, **(data or {})),
        "decay": {
            "A": [["R_BC", "D"], ["R_BD", "C"], ["R_CD", "B"]],
            "R_BC": ["B", "C"],
            "R_BD": ["B", "D"],
            "R_CD": ["C", "D"],
        },
        "particle": {
            "$top": {"A": top},
            "$finals": {
                "B": dict(fin, mass=2.00698),
                "C": dict(fin, mass=2.01028),
                "D": {"J": 0, "P": -1, "mass": 0.13957},
            },
            "R_BC": {"J": jr[0], "Par": (-1) ** jr[0], "m0": 4.16, "g0": 0.1},
            "R_BD": {"J": jr[1], "Par": (-1) ** jr[1], "m0": 2.43, "g0": 0.3},
            "R_CD": {"J": jr[2], "Par": (-1) ** jr[2], "m0": 2.42, "g0": 0.03},
        },
        "constrains": {"particle": None, "decay": None},
    }
    if extra:
        for k, v in extra.items():
            if isinstance(v, dict) and isinstance(d.get(k), dict):
                d[k].update(v)
            else:
                d[k] = v
    return d


def phsp_p4(n, seed, masses=(2.00698, 2.01028, 0.13957), m0=4.6):
    import tensorflow as tf
    from tf_pwa.phasespace import PhaseSpaceGenerator

    tf.random.set_seed(seed)
    np.random.seed(seed % (2**32))
    g = PhaseSpaceGenerator(m0, list(masses))
    p = g.generate(n)
    return [np.asarray(i) for i in p]


def make_config(d, vm=None):
    from tf_pwa.config_loader import ConfigLoader
    from tf_pwa.variable import VarsManager

    if vm is None:
        vm = VarsManager(name="", dtype="float64")
    return ConfigLoader(d, vm=vm)


def set_reproducible_params(config, seed):
    """fix every parameter by name from a seeded draw (keeps fixed ones)"""
    rng = np.random.RandomState(seed)
    amp = config.get_amplitude()
    vals = {}
    for n in sorted(amp.vm.trainable_vars):
        if n.endswith("_mass") or n.endswith("_width"):
            continue
        vals[n] = float(rng.uniform(0.3, 1.5)) if n.endswith("r") else float(rng.uniform(-2.5, 2.5))
    amp.set_params(vals)
    return vals
