"""C05 part (b): run one evaluation strategy (an option record enumerated by
spec/Strategies.tla) on a small real model and observe density / NLL / gradient.

Everything goes through the public configuration path: a decay card (dict), event
files on disk, ConfigLoader(dict) -> get_amplitude / get_all_data / get_fcn, the
strategy options in the `data:` section exactly as a user would write them.
"""
import contextlib
import io
import os

import numpy as np

MASS = {"A": 5.28, "B": 2.00698, "C": 1.86, "D": 0.13957}
FLOATED = "R_BC_mass"


def write_events(work, n_data, n_phsp, seed):
    """phase-space events of A -> B C D as .npy files in the library's row layout
    (event-major, one row per particle), weights, cfit background/efficiency values"""
    import tensorflow as tf
    from tf_pwa.phasespace import PhaseSpaceGenerator

    tf.random.set_seed(seed)
    np.random.seed(seed % (2**32))
    rng = np.random.RandomState(seed % (2**32))
    gen = PhaseSpaceGenerator(MASS["A"], [MASS["B"], MASS["C"], MASS["D"]])
    files = {}
    for name, n in (("data", n_data), ("phsp", n_phsp)):
        p = [np.asarray(x) for x in gen.generate(n)]
        # interior of phase space only (DESIGN 4): drop nothing, but check
        arr = np.stack(p, axis=1).reshape((-1, 4))
        f = os.path.join(work, "c05_%s.npy" % name)
        np.save(f, arr)
        files[name] = f
        for extra, lo, hi in (("weight", 0.5, 1.5), ("bg_value", 0.2, 1.0), ("eff_value", 0.5, 1.0)):
            fe = os.path.join(work, "c05_%s_%s.npy" % (name, extra))
            np.save(fe, rng.uniform(lo, hi, size=n))
            files["%s_%s" % (name, extra)] = fe
        # charge-conjugate events: a deterministic +-1 pattern (every third event, and one more, has charge -1)
        fc = os.path.join(work, "c05_%s_charge.npy" % name)
        np.save(fc, np.array([-1.0 if (i % 3 == 1 or i == 0) else 1.0 for i in range(n)]))
        files["%s_charge" % name] = fc
    return files


def card(opt, files):
    """decay card for one strategy; opt = record emitted by Strategies.tla"""
    data = {
        "dat_order": ["B", "C", "D"],
        "data": [files["data"]],
        "phsp": [files["phsp"]],
        "data_weight": [files["data_weight"]],
        "phsp_weight": [files["phsp_weight"]],
        # a non-default kinematic convention (r_boost stays True): the strategies that compute the angles themselves,
        # eagerly or inside a traced graph, must hand the same options on (the density does not depend on them, C02)
        "random_z": False,
    }
    for k in ("amp_model", "preprocessor"):
        if opt[k] != "default":
            data[k] = opt[k]
    for k in ("use_tf_function", "jit_compile", "no_id_cached", "lazy_call"):
        if opt[k]:
            data[k] = True
    nll = opt["nll"]
    if nll == "cached_int":
        data["cached_int"] = True
    elif nll == "cached_amp":
        data["cached_amp"] = True
    if nll in ("cfit", "cfit_cached"):
        data["model"] = "cfit"
        data["bg_frac"] = 0.15
        for k in ("data_bg_value", "phsp_bg_value", "data_eff_value", "phsp_eff_value"):
            data[k] = files[k]
        if nll == "cfit_cached":
            data["cached_amp"] = True
    charged = bool(opt.get("charged", False))
    if charged:
        # the sample carries charges (data_charge / phsp_charge -> charge_conjugation); with the default
        # cp_trans: True the library mirrors the momenta of the charge -1 events, with cp_trans: False it
        # swaps the helicity couplings H(l1,l2) -> H(-l1,-l2) in every decay instead
        data["data_charge"] = [files["data_charge"]]
        data["phsp_charge"] = [files["phsp_charge"]]
        if not opt.get("cp_trans", True):
            data["cp_trans"] = False
    # charged samples use a card with one parity-violating vertex, so that the helicity swap is visible
    top_bc = ["R_BC", "D", {"p_break": True}] if charged else ["R_BC", "D"]
    d = {
        "data": data,
        "decay": {
            "A": [top_bc, ["R_BD", "C"], ["R_CD", "B"]],
            "R_BC": ["B", "C"],
            "R_BD": ["B", "D"],
            "R_CD": ["C", "D"],
        },
        "particle": {
            # charged samples: only the helicities +-1 of the parent (as for a particle produced polarised along z);
            # otherwise mirroring the momenta of a three-body decay is a rotation and cp_trans would be invisible
            "$top": {"A": dict({"J": 1, "P": -1, "mass": MASS["A"]}, **({"spins": [-1, 1]} if charged else {}))},
            "$finals": {
                "B": {"J": 1, "P": -1, "mass": MASS["B"]},
                "C": {"J": 0, "P": -1, "mass": MASS["C"]},
                "D": {"J": 0, "P": -1, "mass": MASS["D"]},
            },
            "R_BC": {"J": 1, "Par": 1, "m0": 4.16, "g0": 0.1},
            "R_BD": {"J": 1, "Par": 1, "m0": 2.43, "g0": 0.3},
            "R_CD": {"J": 1, "Par": -1, "m0": 2.42, "g0": 0.03, "model": "BWR2"},
        },
        "constrains": {"particle": None, "decay": None},
    }
    if opt["float_shape"]:
        d["constrains"]["free_var"] = [FLOATED]
    return d


def param_points(amp, float_shape, seed):
    """three full parameter points by name (every name the model has, so that the
    randomly initialised but fixed ones agree between strategies); the floated
    line-shape parameter moves between the points"""
    rng = np.random.RandomState((seed + 17) % (2**32))
    allp = {k: float(v) for k, v in amp.get_params().items()}
    trainable = set(amp.vm.trainable_vars)
    pts = []
    for k in range(2):
        v = dict(allp)
        for n in sorted(allp):
            if n.endswith("_mass") or n.endswith("_width"):
                continue
            if n in trainable or k == 0:
                v[n] = float(rng.uniform(0.4, 1.6)) if n.endswith("r") else float(rng.uniform(-2.5, 2.5))
            else:
                v[n] = pts[0][n]
        if float_shape:
            v[FLOATED] = 4.16 if k == 0 else 4.19
        pts.append(v)
    return [pts[0], pts[1], pts[0]]


class Obs(dict):
    pass


def run_strategy(opt, files, points=None, seed=0, batch=50, want_nll=True, lazy_batch=17):
    """-> Obs(density=[arrays], nll=[floats], grad=[dict name->value], trainable=[names])
    density: amp(data) twice at each parameter point (first call registers the data id /
    traces the graph, the second takes the cached path); NLL and gradient through
    FCN.nll_grad at each point."""
    import tensorflow as tf  # noqa: F401
    from tf_pwa.config_loader import ConfigLoader
    from tf_pwa.data import LazyCall
    from tf_pwa.variable import VarsManager

    out = Obs(density=[], nll=[], grad=[], batched=[])  # + subset / after_subset when a chain subset was evaluated
    sink = io.StringIO()
    with contextlib.redirect_stdout(sink):
        config = ConfigLoader(card(opt, files), vm=VarsManager(name="", dtype="float64"))
        amp = config.get_amplitude()
        trainable = list(amp.vm.trainable_vars)
        out["trainable"] = sorted(trainable)
        if points is None:
            points = param_points(amp, opt["float_shape"], seed)
        out["points"] = points
        amp.set_params(points[0])
        data, phsp, bg, inmc = config.get_all_data()
        d0 = data[0]
        out["lazy"] = isinstance(d0, LazyCall)
        for pt in points:
            amp.set_params(pt)
            a = np.asarray(amp(d0))
            b = np.asarray(amp(d0))
            out["density"].append((a, b))
        dg = getattr(amp, "decay_group", None)
        if not out["lazy"] and dg is not None and len(dg.chains) > 1:
            # a partial chain selection (fit fractions, partial-wave plots): the strategy must evaluate the same partial sum
            amp.set_params(points[1])
            full = list(dg.chains_idx)
            try:
                subs = []
                for sub in ([0], full[1:], list(reversed(full[1:])), [full[-1], full[0]]):
                    amp.set_used_chains(sub)
                    subs.append(np.asarray(amp(d0)))
                out["subset"] = subs
            finally:
                amp.set_used_chains(full)
            out["after_subset"] = np.asarray(amp(d0))
        if out["lazy"]:
            # lazily batched: density of every batch the dataset yields, concatenated
            amp.set_params(points[1])
            parts = [np.asarray(amp(bt)) for bt in d0.batch(lazy_batch)]
            out["batched"] = np.concatenate(parts)
        if want_nll:
            fcn = config.get_fcn(batch=batch)
            for pt in points:
                amp.set_params(pt)
                nll, g = fcn.nll_grad({})
                out["nll"].append(float(nll))
                out["grad"].append(dict(zip(fcn.vm.trainable_vars, [float(x) for x in np.asarray(g)])))
    return out


def rel_err(a, b):
    a = np.asarray(a, dtype=float)
    b = np.asarray(b, dtype=float)
    if a.shape != b.shape:
        return float("inf")
    if not (np.all(np.isfinite(a)) and np.all(np.isfinite(b))):
        return float("inf")
    return float(np.max(np.abs(a - b) / (np.abs(b) + 1e-12 * max(1.0, float(np.max(np.abs(b)))))))


def compare(obs, ref, tol):
    """-> list of (what, error) exceeding the tolerance; gradients relative to the largest component"""
    bad = []
    worst = 0.0
    for k, ((a, b), (ra, _)) in enumerate(zip(obs["density"], ref["density"])):
        for tag, x in (("first", a), ("second", b)):
            e = rel_err(x, ra)
            worst = max(worst, e) if np.isfinite(e) else float("inf")
            if not e <= tol:
                bad.append(("density[point %d,%s call]" % (k, tag), e))
            if np.any(np.asarray(x) < 0):
                bad.append(("density[point %d] negative" % k, float(np.min(x))))
    if "subset" in obs and "subset" in ref:
        for k, (x, r) in enumerate(zip(obs["subset"], ref["subset"])):
            e = rel_err(x, r)
            worst = max(worst, e) if np.isfinite(e) else float("inf")
            if not e <= tol:
                bad.append(("density[chain subset %d]" % k, e))
        e = rel_err(obs["after_subset"], ref["density"][1][0])
        worst = max(worst, e) if np.isfinite(e) else float("inf")
        if not e <= tol:
            bad.append(("density[all chains, after a subset was selected]", e))
    if obs.get("lazy") and len(obs.get("batched", [])):
        e = rel_err(obs["batched"], ref["density"][1][0])
        worst = max(worst, e)
        if not e <= tol:
            bad.append(("density[lazy batches]", e))
    if obs["nll"] and ref["nll"]:
        if obs["trainable"] != ref["trainable"]:
            bad.append(("trainable parameter names differ", float("inf")))
        else:
            for k, (n1, n0) in enumerate(zip(obs["nll"], ref["nll"])):
                e = abs(n1 - n0) / max(abs(n0), 1e-12)
                worst = max(worst, e)
                if not e <= tol:
                    bad.append(("nll[point %d]" % k, e))
                g1 = np.array([obs["grad"][k][n] for n in obs["trainable"]])
                g0 = np.array([ref["grad"][k][n] for n in ref["trainable"]])
                e = float(np.max(np.abs(g1 - g0)) / max(float(np.max(np.abs(g0))), 1e-12))
                worst = max(worst, e)
                if not e <= tol:
                    bad.append(("grad[point %d]" % k, e))
    return bad, worst


def opt_id(opt):
    """short stable name of a strategy"""
    parts = []
    if (opt["amp_model"], opt["preprocessor"]) != ("default", "default"):
        parts.append("amp=%s,pre=%s" % (opt["amp_model"], opt["preprocessor"]))
    t = "".join(c for c, k in (("T", "use_tf_function"), ("J", "jit_compile"), ("N", "no_id_cached")) if opt[k])
    if t:
        parts.append("tf=" + t)
    if opt["lazy_call"]:
        parts.append("lazy")
    if opt["nll"] != "default":
        parts.append("nll=" + opt["nll"])
    if opt["float_shape"]:
        parts.append("floatshape")
    if opt.get("charged", False):
        parts.append("charged,cp_trans=%s" % ("T" if opt.get("cp_trans", True) else "F"))
    return ";".join(parts) or "default"
