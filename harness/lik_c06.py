"""Shared helpers for C06 / C07: small real likelihood objects and the numpy
transliteration of the definition in spec/Likelihood.tla.

Cross references (keep in step with the TLA+ module):
    def_group()   <->  DefGroup(s, k)          (RawW, SumW, SumW2, Alpha, Integral, Mix)
    def_constr()  <->  ConstrTerm(cs)
    def_nll()     <->  Def(s)
    tlc_value()   :   exact value printed by TLC (q + sum_p c_p ln p) -> float
The harness validates def_nll() against TLC's exact Def on the density tables of
the specification (validate_oracle) before it is used as an oracle for the code.
"""
import copy
import math
import os
from fractions import Fraction

import numpy as np

# --------------------------------------------------------------------------
# the definition, in numpy
# --------------------------------------------------------------------------
SPEC_KINDS = ("default", "extended", "cfit", "cfit_ext", "cfit_cached", "simple", "simple_pen")
CFIT_KINDS = ("cfit", "cfit_ext", "cfit_cached")


def def_group(kind, w, f_d, v, f_m, phi=None, eff_d=None, eff_m=None, b_d=None, b_m=None, fk_m=None, pen=None, variant=None):
    """DefGroup: one data set.

    w    weights of the data events followed by the background events (the latter = -w_bkg)
    f_d  |A|^2 at those events, v / f_m MC weights and |A|^2 at the MC events
    cfit: eff, b = efficiency and background function at data / MC events
    variant: None = the definition; "cached_noeff" / "data_noeff" = the two
             wrong evaluations the specification transcribes (used only to
             *identify* a known finding, never as the oracle)
    """
    w = np.asarray(w, dtype=float)
    f_d = np.asarray(f_d, dtype=float)
    v = np.asarray(v, dtype=float)
    f_m = np.asarray(f_m, dtype=float)
    sw = w.sum()
    alpha = sw / (w * w).sum()  # Alpha(g) = SumW / SumW2
    if kind in ("default", "simple", "extended", "simple_pen"):
        integral = (v * f_m).sum() / v.sum()  # IntAmp
        lnd = (w * np.log(f_d)).sum()
        if kind == "extended":
            return -alpha * (lnd - sw * integral)
        val = -alpha * (lnd - sw * np.log(integral))
        if kind == "simple_pen":  # Penalty(IntK, IntAmp): once per data set
            for fk, (value, sigma) in zip(fk_m, pen):
                ik = (v * np.asarray(fk, dtype=float)).sum() / v.sum()
                val = val + 0.5 * ((ik / integral - value) / sigma) ** 2
        return val
    eff_d = np.ones_like(f_d) if eff_d is None else np.asarray(eff_d, dtype=float)
    eff_m = np.ones_like(f_m) if eff_m is None else np.asarray(eff_m, dtype=float)
    b_d = np.ones_like(f_d) if b_d is None else np.asarray(b_d, dtype=float)
    b_m = np.ones_like(f_m) if b_m is None else np.asarray(b_m, dtype=float)
    s_d = eff_d * f_d  # SigD
    s_m = eff_m * f_m  # SigM
    if variant == "cached_noeff":
        s_m = f_m
    if variant == "data_noeff":
        s_d = f_d
    i_sig = (v * s_m).sum() / v.sum()  # IntSig
    i_bg = (v * b_m).sum() / v.sum()  # IntBg
    mix = (1 - phi) * s_d / i_sig + phi * b_d / i_bg  # Mix
    val = -(alpha * w * np.log(mix)).sum()
    if kind == "cfit_ext":
        nexp = i_sig / (1 - phi)
        val = val - alpha * sw * np.log(nexp) + nexp
    return val


def def_constr(constr):
    """ConstrTerm: sum (theta-mu)^2 / (2 sigma^2)"""
    return sum((th - mu) ** 2 / (2 * sg**2) for th, mu, sg in constr)


def def_nll(kind, groups, constr=(), variant=None):
    """Def: sum over the data sets plus the constraint term, once"""
    return sum(def_group(kind, variant=variant, **g) for g in groups) + def_constr(constr)


def term_scale(kind, groups, constr=()):
    """sum of the absolute values of the terms of the definition (for tolerances)"""
    tot = 0.0
    for g in groups:
        w = np.abs(np.asarray(g["w"], dtype=float))
        a = abs(np.sum(g["w"]) / np.sum(np.square(g["w"])))
        f = np.asarray(g["f_d"], dtype=float)
        tot += a * ((w * (np.abs(np.log(f)) + 1)).sum() + w.sum() * (1 + abs(math.log(abs(np.mean(g["f_m"])) + 1e-300))))
        tot += abs(np.mean(g["f_m"]))
    return tot + abs(def_constr(constr)) + 1.0


# --------------------------------------------------------------------------
# TLC output -> python
# --------------------------------------------------------------------------
def frac(q):
    return Fraction(int(q[0]), int(q[1]))


def tlc_value(q, lg):
    return float(frac(q)) + sum(float(Fraction(int(n), int(d))) * math.log(int(p)) for p, n, d in lg)


def core_groups_on_tables(core, tables):
    """the arguments of def_nll for a TLC scenario evaluated on the density tables of the spec"""
    out = []
    fs = core["fscale"]
    for k, g in enumerate(core["groups"]):
        nd, nb, nm = len(g["dw"]), g["nb"], len(g["mv"])
        w = [float(frac(x)) for x in g["dw"]] + [-float(frac(g["wb"]))] * nb
        v = [float(frac(x)) for x in g["mv"]] if g["mckey"] else [1.0] * nm
        gm = tables["GM"][((g["gm"] + (k + 1) - 2) % 3)]
        d = dict(w=w, f_d=[fs * x for x in tables["FD"][k][: nd + nb]], v=v, f_m=[fs * x for x in gm[:nm]])
        if core["kind"] == "simple_pen":
            d.update(fk_m=[[fs * x for x in tables["GK"][k][:nm]]], pen=[(float(frac(tables["pen"][0])), float(frac(tables["pen"][1])))])
        if core["kind"] in CFIT_KINDS:
            d.update(phi=float(frac(g["phi"])), eff_d=tables["ED"][k][: nd + nb], eff_m=tables["EM"][k][:nm], b_d=tables["BD"][k][: nd + nb], b_m=tables["BM"][k][:nm])
        out.append(d)
    constr = [(float(frac(c["th"])), float(frac(c["mu"])), float(frac(c["sg"]))) for c in core["constr"]]
    return out, constr


def validate_oracle(cores, tables):
    """numpy transliteration == exact TLC value on every emitted scenario; returns max abs deviation"""
    worst = 0.0
    for c in cores:
        groups, constr = core_groups_on_tables(c["core"], tables)
        got = def_nll(c["core"]["kind"], groups, constr)
        exp = tlc_value(c["q"], c["lg"])
        dev = abs(got - exp) / (1 + abs(exp))
        if not dev < 1e-11:
            return dev, c
        worst = max(worst, dev)
    return worst, None


# --------------------------------------------------------------------------
# cfg files for spec/Likelihood.tla
# --------------------------------------------------------------------------
LIK_INVARIANTS = ("TypeOK", "AlgEqDef", "NoRaise", "BlendOK", "MCNormalised", "Partition", "MixWeights", "ScaleInvariant")


def lik_cfg(path, *, max_data, max_bg, max_mc, ngroups=1, w="WQuick", v="VQuick", bkg="BkgQuick", phi="PhiQuick", kinds=SPEC_KINDS,
            paths=("grad", "value", "mix"), constr="NoConstr", gm=(1,), scales=(1,), ragged="sum", cached="eff", only_defects=False,
            emit_max=0, invariants=LIK_INVARIANTS):
    def sset(xs):
        return "{" + ", ".join('"%s"' % x if isinstance(x, str) else str(x) for x in xs) + "}"

    with open(path, "w") as f:
        f.write("CONSTANTS\n MaxData = %d\n MaxBg = %d\n MaxMC = %d\n NGroups = %d\n" % (max_data, max_bg, max_mc, ngroups))
        f.write(" WSet <- %s\n VSet <- %s\n BkgSet <- %s\n PhiSet <- %s\n ConstrSet <- %s\n" % (w, v, bkg, phi, constr))
        f.write(" Kinds = %s\n Paths = %s\n GMChoices = %s\n Scales = %s\n" % (sset(kinds), sset(paths), sset(gm), sset(scales)))
        f.write(' RaggedSw = "%s"\n CachedEff = "%s"\n OnlyDefects = %s\n EmitMax = %d\n' % (ragged, cached, "TRUE" if only_defects else "FALSE", emit_max))
        f.write("INIT Init\nNEXT Next\n")
        for i in invariants:
            f.write("INVARIANT %s\n" % i)
        f.write("POSTCONDITION Post\nCHECK_DEADLOCK FALSE\n")
    return path


# --------------------------------------------------------------------------
# real likelihood objects
# --------------------------------------------------------------------------
MASSES = {"A": 4.6, "B": 2.00698, "C": 2.01028, "D": 0.13957}

# implementation kinds -> (spec kind whose definition applies, entries of config["data"])
IMPL_KINDS = {
    "default": ("default", {}),
    "cached_int": ("default", {"cached_int": True}),
    "cached_amp": ("default", {"cached_amp": True}),
    "simple": ("simple", {"model": "simple"}),
    "extended": ("extended", {"extended": True}),
    "cfit": ("cfit", {"model": "cfit", "bg_frac": 0.5}),
    "cfit_cached": ("cfit_cached", {"model": "cfit", "bg_frac": 0.5, "cached_amp": True}),
    "cfit_ext": ("cfit_ext", {"model": "cfit", "bg_frac": 0.5, "extended": True}),
    "simple_cfit": ("cfit", {"model": "simple_cfit", "bg_frac": 0.5}),
    # MixLogLikehoodFCN (`using_mix_likelihood: True`): one merged data sum + per data set n_k int_f(I_k)
    "mix_default": ("default", {"using_mix_likelihood": True}),
    "mix_extended": ("extended", {"using_mix_likelihood": True, "extended": True}),
    # the other registered custom models of tf_pwa/model/custom.py
    "simple_clip": ("simple", {"model": "simple_clip"}),
    "constr_frac": ("simple_pen", {"model": "constr_frac", "constr_frac": {"R_BC": {"res": ["R_BC"], "value": 0.2, "sigma": 0.05}}}),
}
# registered custom models without a documented defining formula: held to batch independence,
# fcn() == nll_grad()[0] and CombineFCN = sum of parts only; value = (spec kind whose scenarios supply the samples, data options)
INVARIANT_ONLY = {
    "cfit_constr_frac": ("cfit", {"model": "cfit_constr_frac", "bg_frac": 0.5, "constr_frac": {"R_BC": {"res": ["R_BC"], "value": 0.2, "sigma": 0.05}}}),
    "simple_chi2": ("simple", {"model": "simple_chi2", "extended": True}),
}


def registered_custom_models():
    """names under which tf_pwa registers the likelihood models of tf_pwa/model/custom.py (data: {model: name})"""
    import tf_pwa.model.custom as custom  # noqa: F401  (registers)
    from tf_pwa.model.model import get_nll_model

    reg = None
    for c in get_nll_model.__closure__ or ():
        v = c.cell_contents
        if hasattr(v, "keys") and "default" in v:
            reg = v
    if reg is None:
        raise RuntimeError("cannot read the registry of likelihood models")
    return sorted(k for k in reg.keys() if getattr(reg[k], "__module__", "") == custom.__name__), sorted(reg.keys())
IMPLS_OF_SPEC = {}
for _k, (_s, _) in IMPL_KINDS.items():
    IMPLS_OF_SPEC.setdefault(_s, []).append(_k)


def base_config(data_opts=None, constrains=None, lineshape=False):
    """spin-0 three-body decay A -> B C D with three resonances"""
    cfg = {
        "data": {"dat_order": ["B", "C", "D"]},
        "decay": {
            "A": [["R_BC", "D"], ["R_BD", "C"], ["R_CD", "B"]],
            "R_BC": ["B", "C"],
            "R_BD": ["B", "D"],
            "R_CD": ["C", "D"],
        },
        "particle": {
            "$top": {"A": {"J": 0, "P": -1, "mass": MASSES["A"]}},
            "$finals": {
                "B": {"J": 0, "P": -1, "mass": MASSES["B"]},
                "C": {"J": 0, "P": -1, "mass": MASSES["C"]},
                "D": {"J": 0, "P": -1, "mass": MASSES["D"]},
            },
            "R_BC": {"J": 1, "Par": -1, "m0": 4.16, "g0": 0.1},
            "R_BD": {"J": 1, "Par": -1, "m0": 2.43, "g0": 0.3},
            "R_CD": {"J": 0, "Par": 1, "m0": 2.42, "g0": 0.03},
        },
    }
    cfg["data"].update(copy.deepcopy(data_opts or {}))
    if constrains:
        cfg["constrains"] = copy.deepcopy(constrains)
    return cfg


class Factory:
    """ConfigLoader objects (one per configuration) and event pools"""

    def __init__(self, seed, pool_size=48):
        self.seed = seed
        self.pool_size = pool_size
        self._cfg = {}
        self._p4 = None

    def p4(self):
        if self._p4 is None:
            import tensorflow as tf
            from tf_pwa.phasespace import PhaseSpaceGenerator

            tf.random.set_seed(self.seed)
            np.random.seed(self.seed % (2**32))
            gen = PhaseSpaceGenerator(MASSES["A"], [MASSES["B"], MASSES["C"], MASSES["D"]])
            p = [np.array(i) for i in gen.generate(4 * self.pool_size)]
            # interior of phase space: every pair mass away from its thresholds
            def m2(a, b):
                s = a + b
                return s[:, 0] ** 2 - (s[:, 1:] ** 2).sum(-1)

            ok = np.ones(len(p[0]), dtype=bool)
            names = ["B", "C", "D"]
            for i in range(3):
                for j in range(i + 1, 3):
                    m = np.sqrt(m2(p[i], p[j]))
                    lo = MASSES[names[i]] + MASSES[names[j]]
                    hi = MASSES["A"] - MASSES[names[3 - i - j]]
                    ok &= (m > lo + 1e-3 * MASSES["A"]) & (m < hi - 1e-3 * MASSES["A"])
            idx = np.where(ok)[0][: self.pool_size]
            assert len(idx) == self.pool_size
            self._p4 = [x[idx] for x in p]
        return self._p4

    def new_config(self, data_opts=None, constrains=None):
        """-> (fresh ConfigLoader, shared pool of events with angles, amplitude).

        A ConfigLoader caches its model objects (lru_cache on _get_model), so one configuration = one
        ConfigLoader; the event pool is computed once (its keys are particles / decays, which compare by name).
        """
        from tf_pwa.config_loader import ConfigLoader

        self.n_cfg = getattr(self, "n_cfg", 0) + 1
        np.random.seed((self.seed + 7919 * self.n_cfg) % (2**32))
        c = ConfigLoader(base_config(data_opts, constrains))
        amp = c.get_amplitude()
        if getattr(self, "_pool", None) is None:
            self._pool = c.data.cal_angle([np.array(x) for x in self.p4()])
        return c, self._pool, amp


def quiet(fn, *a, **kw):
    """call fn with tf_pwa's progress prints (time_print, "Using Model") suppressed"""
    import contextlib
    import io

    with contextlib.redirect_stdout(io.StringIO()):
        return fn(*a, **kw)


def take(pool, idx, **extra):
    """events idx of the pool as a new data dict (+ per-event arrays such as weight)"""
    import tensorflow as tf
    from tf_pwa.data import data_map

    idx = np.asarray(idx, dtype=np.int64)
    d = data_map(pool, lambda x: tf.gather(x, idx))
    for k, v in extra.items():
        if v is not None:
            d[k] = np.asarray(v, dtype=float)
    return d


def scale_totals(params, lam):
    """common rescaling of all amplitudes: every chain's `total` magnitude times lam (polar) """
    out = dict(params)
    names = [k for k in params if "_total_" in k and k.endswith("r")]
    for k in names:
        out[k] = params[k] * lam
    return out, names
