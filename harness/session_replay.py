"""B1 binding for spec/Session.tla: drive a real AmplitudeModel along behaviours
of the specification (nested override blocks, derived computations with
injected faults, density calls through the id cache / compiled graph)."""
import numpy as np

from . import models

PNAME = "R_BD_mass"
CFG_KEY = "verif_session_key"
RES = {1: "R_BC", 2: "R_BD", 3: "R_CD"}


def pval(v):
    return 2.40 + 0.03 * v


def four_body_dict():
    """A -> R1 R2 | R1 R3 | R4 E with R1 -> B C in every chain: the decay R1->B+C is one object shared
    by the three chains; R2, R3, R4 each occur in one chain only"""
    fin = {"J": 0, "P": -1}
    return {
        "data": {"dat_order": ["B", "C", "D", "E"]},
        "decay": {
            "A": [["R1", "R2"], ["R1", "R3"], ["R4", "E"]],
            "R1": ["B", "C"],
            "R2": ["D", "E"],
            "R3": ["D", "E"],
            "R4": ["R1", "D"],
        },
        "particle": {
            "$top": {"A": {"J": 0, "P": -1, "mass": 5.3}},
            "$finals": {"B": dict(fin, mass=0.5), "C": dict(fin, mass=0.14), "D": dict(fin, mass=0.5), "E": dict(fin, mass=0.14)},
            "R1": {"J": 1, "Par": -1, "m0": 0.9, "g0": 0.05},
            "R2": {"J": 1, "Par": -1, "m0": 1.0, "g0": 0.2},
            "R3": {"J": 1, "Par": -1, "m0": 0.9, "g0": 0.06},
            "R4": {"J": 1, "Par": -1, "m0": 2.43, "g0": 0.2},
        },
        "constrains": {"particle": None, "decay": None},
    }


class Injected(Exception):
    pass


class SessionReplayer:
    def __init__(self, use_tf_function, seed, n_events=6, fit_fraction_method="old", model="3body"):
        from tf_pwa.config import regist_config

        self.use_tf_function = use_tf_function
        self.model_name = model
        self.seed = seed
        self.ff_method = fit_fraction_method
        if model == "3body":
            d = models.toy_dict(data={"use_tf_function": True} if use_tf_function else None)
            self.pname, self.res = "R_BD_mass", dict(RES)
            phsp = {}
        else:
            d = four_body_dict()
            if use_tf_function:
                d["data"]["use_tf_function"] = True
            self.pname, self.res = "R4_mass", {1: "R2", 2: "R3", 3: "R4"}
            phsp = dict(masses=(0.5, 0.14, 0.5, 0.14), m0=5.3)
        self.config = models.make_config(d)
        self.amp = self.config.get_amplitude()
        self.dg = self.amp.decay_group
        self.vm = self.amp.vm
        models.set_reproducible_params(self.config, seed)
        self.p4 = models.phsp_p4(n_events, seed, **phsp)
        if len(self.amp.decay_group.chains) != 3:
            raise RuntimeError("session model does not have three chains")
        self.probe = self.config.data.cal_angle(self.p4)  # probe events for the eager density
        self.data = self.config.data.cal_angle(self.p4)  # the data set passed to amp(data): same id every time
        try:
            regist_config(CFG_KEY, 0)
        except Exception:
            pass  # registered by an earlier replayer in this process
        self.init_params = dict(self.amp.get_params())
        self.orig_sum_amp = None
        self.reset()

    # ------------------------------------------------------------------
    def reset(self):
        """back to the model's initial state (harness-level)"""
        from tf_pwa.config import set_config

        self.vm.mask_vars = {}
        self.vm.bnd_dic = {}
        self.vm.set_all(dict(self.init_params))
        self.vm.xy2rp_all()
        self.vm.set_all(dict(self.init_params))
        self.dg.set_used_chains([0, 1, 2])
        for c in self.dg:
            c.mask_factor = False
            for d in c:
                d.mask_factor = False
        set_config(CFG_KEY, 0)
        self.amp.f_data = []
        if self.use_tf_function:
            from tf_pwa.experimental.wrap_function import WrapFun

            # a fresh compiled-function cache, constructed with the library's own arguments
            old = self.amp.cached_fun
            kw = {"state": old.state} if hasattr(old, "state") else {}
            self.amp.cached_fun = WrapFun(old.f, jit_compile=getattr(old, "jit_compile", False), **kw)
        self.frames = []  # real counterparts of the model's stack
        self.uninstall_fault()

    # ------------------------------------------------------------------
    def snapshot(self):
        from tf_pwa.config import get_config

        params = {k: float(v) for k, v in self.amp.get_params().items()}
        phys = {k: float(self.vm.get(k, val_in_fit=False)) for k in self.vm.variables}
        mf = []
        for c in self.dg:
            mf.append(bool(getattr(c, "mask_factor", False)))
            for d in c:
                mf.append(bool(getattr(d, "mask_factor", False)))
        dens = np.asarray(self.amp.pdf(self.probe))
        return {
            "params": params,
            "phys": phys,
            "active": frozenset(i + 1 for i in self.dg.chains_idx),
            "not_full": bool(self.dg.not_full),
            "mask_factor": tuple(mf),
            "cfg": get_config(CFG_KEY),
            "mask": {k: float(v) for k, v in self.vm.mask_vars.items()},
            "dens": dens,
            "polar": {k: bool(v) for k, v in self.vm.complex_vars.items()},
        }

    @staticmethod
    def same_reading(a, b):
        """C17 observer: parameter values, active chains (and the flags that enter the density) and density"""
        out = []
        for k in a["phys"]:
            if abs(a["phys"][k] - b["phys"][k]) > 1e-12 * max(1.0, abs(a["phys"][k])):
                out.append("parameter %s: %r -> %r" % (k, a["phys"][k], b["phys"][k]))
        for k in a["params"]:
            if abs(a["params"][k] - b["params"][k]) > 1e-12 * max(1.0, abs(a["params"][k])):
                out.append("read value %s: %r -> %r" % (k, a["params"][k], b["params"][k]))
        if a["active"] != b["active"]:
            out.append("active chains: %s -> %s" % (sorted(a["active"]), sorted(b["active"])))
        if a["mask_factor"] != b["mask_factor"]:
            out.append("mask_factor flags changed")
        if a["cfg"] != b["cfg"]:
            out.append("config entry: %r -> %r" % (a["cfg"], b["cfg"]))
        if a["mask"] != b["mask"]:
            out.append("mask_vars: %r -> %r" % (a["mask"], b["mask"]))
        if a["dens"].shape != b["dens"].shape or not np.allclose(a["dens"], b["dens"], rtol=1e-10, atol=1e-300):
            out.append("density of probe events changed (max rel %.3g)" % float(np.max(np.abs(a["dens"] - b["dens"]) / np.abs(a["dens"]))))
        return out

    def compare(self, snap, st):
        """property-relevant projection impl vs model state"""
        m = st["m"]
        diffs = []
        if isinstance(m["p"], tuple):
            pass  # the model stored the optimiser coordinate X(p): the real value is y2x(p) of the bound
        elif abs(snap["phys"][self.pname] - pval(m["p"])) > 1e-9:
            diffs.append("p: impl %r model %r" % (snap["phys"][self.pname], pval(m["p"])))
        if snap["active"] != frozenset(m["sel"]):
            diffs.append("active: impl %s model %s" % (sorted(snap["active"]), sorted(set(m["sel"]))))
        mv = m["maskv"]
        if (mv == "None") != (self.pname not in snap["mask"]):
            diffs.append("mask: impl %s model %s" % (snap["mask"], mv))
        if any(snap["mask_factor"]) != bool(m["maskFactor"]) or (any(snap["mask_factor"]) and not all(snap["mask_factor"])):
            diffs.append("mask_factor: impl %s model %s" % (snap["mask_factor"], m["maskFactor"]))
        if snap["cfg"] != m["cfg"]:
            diffs.append("cfg: impl %r model %r" % (snap["cfg"], m["cfg"]))
        if (self.pname in self.vm.bnd_dic) != bool(m["bnd"]):
            diffs.append("bound: impl %s model %s" % (self.pname in self.vm.bnd_dic, m["bnd"]))
        return diffs

    # ------------------------------------------------------------------
    # fault injection: raise inside the k-th inner evaluation of a computation
    def install_fault(self, at):
        self.uninstall_fault()
        self.calls = 0
        orig = self.dg.sum_amp
        self.orig_sum_amp = orig

        def faulty(*a, **kw):
            self.calls += 1
            if at is not None and self.calls == at:
                raise Injected("fault at inner evaluation %d" % at)
            return orig(*a, **kw)

        self.dg.sum_amp = faulty

    def uninstall_fault(self):
        if self.orig_sum_amp is not None:
            try:
                del self.dg.sum_amp
            except AttributeError:
                pass
            self.orig_sum_amp = None

    # ------------------------------------------------------------------
    def enter(self, kind, arg):
        from tf_pwa.config import temp_config

        if kind == "temp_params_amp":
            cm = self.amp.temp_params({self.pname: pval(arg)})
        elif kind == "temp_params_vm":
            cm = self.vm.temp_params({self.pname: pval(arg)})
        elif kind == "mask_params":
            cm = self.amp.mask_params({self.pname: pval(arg)})
        elif kind == "temp_used_res":
            cm = self.amp.temp_used_res([self.res[i] for i in sorted(arg)])
        elif kind == "temp_total_gls_one":
            cm = self.amp.temp_total_gls_one()
        elif kind == "temp_config":
            cm = temp_config(CFG_KEY, arg)
        elif kind == "temp_var":
            from tf_pwa.experimental.factor_system import temp_var

            cm = temp_var(self.vm)
        else:
            raise ValueError(kind)
        cm.__enter__()
        self.frames.append(("cm", kind, cm))

    def run_computation(self, kind, arg, fault_at):
        """one atomic Python call; returns the exception it raised (or None)"""
        from tf_pwa.applications import fit_fractions
        from tf_pwa.fitfractions import cal_fitfractions

        self.install_fault(fault_at)
        try:
            if kind == "partial_weight":
                self.amp.partial_weight(self.probe)
            elif kind == "partial_weight_interference":
                self.amp.partial_weight_interference(self.probe)
            elif kind == "fit_fractions":
                res = [self.res[i] for i in arg[0]]
                fit_fractions(self.amp, self.probe, res=res, batch=1000, method="new" if arg[1] else "old")
            elif kind == "plot_weights":
                from tf_pwa.config_loader.plotter import PlotAllData

                res = [[self.res[i]] for i in (1, 2, 3)] + [[self.res[i] for i in (1, 2, 3)]]
                PlotAllData(self.amp, self.probe, self.probe, res=res)
            else:
                raise ValueError(kind)
        except Injected as e:
            return e
        finally:
            self.uninstall_fault()
        return None

    def unwind(self, exc):
        """propagate an exception through every open block, innermost first (what nested `with` does)"""
        while self.frames:
            tag, kind, obj = self.frames.pop()
            if tag == "cm":
                try:
                    obj.__exit__(type(exc), exc, None)
                except Injected:
                    pass
                except RuntimeError:
                    pass
            elif tag == "gen":
                obj.close()

    def exit_normal(self):
        tag, kind, obj = self.frames.pop()
        if tag == "cm":
            obj.__exit__(None, None, None)
        elif tag == "gen":
            try:
                next(obj)
                raise AssertionError("generator not exhausted")
            except StopIteration:
                pass

    def call_density(self):
        """amp(data) through the id cache / compiled graph, and the eager value for the same state"""
        got = np.asarray(self.amp(self.data))
        want = np.asarray(self.amp.pdf(self.data))
        return got, want
