"""Tracers and TLC trace validation shared by C20 (accept-reject samplers) and
C10 (n-body refill loop).  Binding B2: code -> spec.

Nothing in /repo is modified: the tracers are wrappers installed from here
(module attributes patched for the duration of one call and restored).

* ARRecorder.multi(...)   runs the real tf_pwa.generator.generator.multi_sampling
  with instrumented `phsp` / `amp` callables, a logging wrapper around
  single_sampling2 and tf_pwa.data.data_mask, and (controlled mode) a
  tf.random.uniform that draws from the rational grid k/UDEN so that the
  specification can recompute every accept / thin decision exactly.
* ARRecorder.interp(...)  the same for linear_interpolation.interp_sample_f
  (instrumented f / f_interp, numpy.random.random).
* TracedPSG               tracing subclass of PhaseSpaceGenerator (per batch:
  requested, accepted, max weight <= 1).
* validate(...)           TraceSampler.tla on a batch of traces, one JVM.
"""
import contextlib
import io
import json
import os
from fractions import Fraction

import numpy as np

from . import tlc

UDEN = 16
CHUNK = 250
PH_CAP = 4000000


def fix_coverage(r):
    """TLC labels an action reached through a wrapper definition as `<Name line .. of module M (l c l c)>`;
    tlc.run's pattern misses the parenthesised suffix.  Re-read the per-action counts from the output."""
    import re

    cov = {}
    for m in re.finditer(r"^<(\w+) line \d+, col \d+ to line \d+, col \d+ of module (\w+)(?: \([\d ]+\))?>: (\d+):(\d+)", r.stdout, re.M):
        cov[m.group(1)] = cov.get(m.group(1), 0) + int(m.group(4))
    r.coverage = cov
    return r


def tame_malloc():
    """With TF_ENABLE_ONEDNN_OPTS=0 (set by ./check) TensorFlow allocates its tensors with glibc malloc; glibc
    raises its mmap threshold to 32 MB after the first large free and then keeps freed 32 MB blocks of many
    threads in its arenas (measured: 0.4 GB/s growth, 49 GB, during 4e6-proposal refill batches).  Pinning the
    threshold makes every large tensor an mmap that is returned on free.  Harness process only."""
    try:
        import ctypes

        ctypes.CDLL("libc.so.6").mallopt(-3, 1 << 20)  # M_MMAP_THRESHOLD
    except Exception:  # pragma: no cover
        pass


def frac(x, what="bound"):
    """float -> [num, den] with a small denominator (exact for the products of
    integers with 1.01, 1.02, 1.05, 1.1 that occur); machinery failure otherwise"""
    x = float(x)
    f = Fraction(x).limit_denominator(10**7)
    if abs(float(f) - x) > 1e-12 * max(1.0, abs(x)):
        raise tlc.MachineryError("%s %r is not a small rational" % (what, x))
    if f.numerator >= 2**31 or f.denominator >= 2**31:
        raise tlc.MachineryError("%s %r does not fit TLC integers" % (what, x))
    return [f.numerator, f.denominator]


class ARRecorder:
    """records one trace of the AR machine from the real code"""

    def __init__(self, rng, max_w, unums, controlled=True, weight_probs=None):
        self.rng = rng
        self.max_w = max_w
        self.unums = list(unums)
        self.controlled = controlled
        self.weight_probs = weight_probs
        self.events = []
        self.batch_ws = []  # amplitudes of every batch, in call order
        self.batch_ims = []  # importance values [num, den] of every batch
        self.importance = False
        self._last_u = None
        self._in_single = 0
        self.nbatch = 0

    # ---- proposals ------------------------------------------------------
    def _weights(self, n):
        vals = np.arange(0, self.max_w + 1)
        ws = self.rng.choice(vals, size=n, p=self.weight_probs)
        return [int(w) for w in ws]

    IMPS = [[1, 2], [1, 1], [2, 1]]

    def _importances(self, ws):
        """importance values below and above 1, anti-correlated with the amplitude (large amplitude -> small
        importance more often), so that the largest effective weight amp / importance is not at the largest amplitude"""
        if not self.importance:
            return [[1, 1] for _ in ws]
        half = (self.max_w + 1) / 2.0
        out = []
        for w in ws:
            p = [0.5, 0.3, 0.2] if w >= half else [0.2, 0.3, 0.5]
            out.append(self.IMPS[int(self.rng.choice(3, p=p))])
        return out

    def _draw_u(self, n):
        ks = self.rng.choice(self.unums, size=n)
        self._last_u = [[int(k), UDEN] for k in ks]
        return np.asarray(ks, dtype="float64") / UDEN

    # ---- multi_sampling -------------------------------------------------
    def multi(self, N, max_N, bound0=None, bound_kind="tensor", force=True, importance=False):
        import tensorflow as tf
        import tf_pwa.data as D
        import tf_pwa.generator.generator as G

        rec = self
        rec.importance = bool(importance)

        def phsp(n):
            rec.nbatch += 1
            ws = rec._weights(n)
            ims = rec._importances(ws)
            rec.batch_ws.append(ws)
            rec.batch_ims.append(ims)
            return {
                "k": tf.constant([rec.nbatch] * n, dtype="int64"),
                "i": tf.constant(list(range(1, n + 1)), dtype="int64"),
                "w": tf.constant(ws, dtype="float64"),
                "g": tf.constant([a / b for a, b in ims], dtype="float64"),
            }

        def amp(data):
            return data["w"]

        def imp_f(data):
            return data["g"]

        orig_single, orig_mask, orig_uniform = G.single_sampling2, D.data_mask, tf.random.uniform

        def single(phsp_, amp_, n, max_weight=None, importance_f=None):
            rec._in_single += 1
            try:
                data, mw = orig_single(phsp_, amp_, n, max_weight, importance_f)
            finally:
                rec._in_single -= 1
            ws = rec.batch_ws[-1]
            acc = [int(x) for x in data["i"].numpy()]
            if rec.controlled:
                us = rec._last_u
            else:  # decision witnesses: 0 accepts any positive weight, 1 rejects any weight <= bound
                a = set(acc)
                us = [[0, 1] if (j + 1) in a else [1, 1] for j in range(len(ws))]
                # (a rejected event whose effective weight exceeds the bound makes the witness 1 inconsistent:
                #  the trace is then rejected, as it must be)
            rec.events.append(
                {
                    "a": "Batch",
                    "req": int(n),
                    "as": ws,
                    "ims": rec.batch_ims[-1],
                    "us": us,
                    "acc": acc,
                    "hasBin": max_weight is not None,
                    "bin": frac(max_weight) if max_weight is not None else [0, 1],
                    "local": frac(mw, "local bound"),
                }
            )
            return data, mw

        def mask(data, select):
            ret = orig_mask(data, select)
            if rec._in_single == 0 and isinstance(data, dict) and "k" in data:
                before = list(zip(data["k"].numpy().tolist(), data["i"].numpy().tolist()))
                kept = [[int(a), int(b)] for a, b in zip(ret["k"].numpy().tolist(), ret["i"].numpy().tolist())]
                if rec.controlled:
                    us = rec._last_u if rec._last_u is not None and len(rec._last_u) == len(before) else None
                else:
                    ks = set(map(tuple, kept))
                    us = [[0, 1] if tuple(b) in ks else [1, 1] for b in before]
                rec.events.append({"a": "Mask", "us": us, "kept": kept, "n_before": len(before)})
            return ret

        def uniform(shape, minval=0, maxval=None, dtype=tf.float32, seed=None, name=None):
            n = int(np.prod([int(s) for s in shape])) if len(shape) else 1
            u = rec._draw_u(n)
            return tf.reshape(tf.constant(u, dtype=dtype), [int(s) for s in shape])

        if bound0 is None:
            b_arg = None
        elif bound_kind == "tensor":
            b_arg = tf.constant(float(bound0), dtype="float64")
        else:
            b_arg = float(bound0)
        G.single_sampling2, D.data_mask = single, mask
        if self.controlled:
            tf.random.uniform = uniform
        try:
            ret, status = G.multi_sampling(phsp, amp, N, max_N=max_N, force=force, max_weight=b_arg, importance_f=imp_f if importance else None, display=False)
        finally:
            G.single_sampling2, D.data_mask = orig_single, orig_mask
            tf.random.uniform = orig_uniform
        ids = [[int(a), int(b)] for a, b in zip(ret["k"].numpy().tolist(), ret["i"].numpy().tolist())]
        # the last Mask record (force=True) is the truncation; the others are thinnings
        evs = list(self.events)
        if force:
            if not evs or evs[-1]["a"] != "Mask":
                raise tlc.MachineryError("tracer: truncation mask not observed")
            evs.pop()
        out = []
        for e in evs:
            if e["a"] == "Mask":
                if e["us"] is None:
                    raise tlc.MachineryError("tracer: random numbers of a thinning not captured")
                out.append({"a": "Thin", "us": e["us"], "kept": e["kept"]})
            else:
                out.append(e)
        out.append({"a": "End", "ids": ids, "bound": frac(status[1], "final bound")})
        fill_stored(out)
        return {
            "kind": "ar",
            "N": int(N),
            "hasB": bound0 is not None,
            "b0": [int(bound0), 1] if bound0 is not None else [0, 1],
            "ev": out,
            "exact": bool(self.controlled),
            "importance": bool(importance),
        }, ids

    # ---- interp_sample_f ------------------------------------------------
    def interp(self, N):
        import tf_pwa.generator.linear_interpolation as L

        rec = self
        events = []

        class FInterp:
            def generate(self, n):
                rec.nbatch += 1
                ws = rec._weights(n)
                rec.batch_ws.append(ws)
                rec.batch_ims.append([[1, 1] for _ in ws])
                return np.asarray([rec.nbatch * 1000000 + j for j in range(1, n + 1)], dtype="float64")

            def __call__(self, x):
                return np.ones_like(x)

        def f(x):
            return np.asarray(rec.batch_ws[-1], dtype="float64")

        orig_once, orig_random = L.interp_sample_once, np.random.random

        def once(f_, fi_, n, max_rnd):
            rec._in_single += 1
            try:
                x, mr = orig_once(f_, fi_, n, max_rnd)
            finally:
                rec._in_single -= 1
            ws = rec.batch_ws[-1]
            acc = [int(round(v)) % 1000000 for v in x]
            events.append(
                {
                    "a": "Batch",
                    "req": int(n),
                    "as": ws,
                    "ims": rec.batch_ims[-1],
                    "us": rec._last_u,
                    "acc": acc,
                    "hasBin": max_rnd is not None,
                    "bin": frac(max_rnd) if max_rnd is not None else [0, 1],
                    "local": frac(mr, "local bound"),
                }
            )
            return x, mr

        def random(n=None):
            u = rec._draw_u(int(n))
            if rec._in_single == 0:  # the thinning of interp_sample_f
                events.append({"a": "Thin", "us": rec._last_u, "nkept": None})
            return u

        class GT(L.GenTest):
            def set_gen(self, n_gen):
                if not events or events[-1]["a"] != "Thin":
                    raise tlc.MachineryError("tracer: set_gen without a thinning")
                events[-1]["nkept"] = int(n_gen)
                return L_GenTest.set_gen(self, n_gen)

        L_GenTest = L.GenTest
        L.interp_sample_once = once
        L.GenTest = GT
        np.random.random = random
        try:
            with contextlib.redirect_stdout(io.StringIO()):
                all_x, _, max_rnd = L.interp_sample_f(f, FInterp(), N)
        finally:
            L.interp_sample_once = orig_once
            L.GenTest = L_GenTest
            np.random.random = orig_random
        ids = [[int(round(v)) // 1000000, int(round(v)) % 1000000] for v in all_x]
        if any(e["a"] == "Thin" and e["nkept"] is None for e in events):
            raise tlc.MachineryError("tracer: thinning without set_gen")
        events.append({"a": "End", "ids": ids, "bound": frac(max_rnd, "final bound")})
        fill_stored(events)
        return {"kind": "ar", "N": int(N), "hasB": False, "b0": [0, 1], "ev": events, "exact": True}, ids


class TracedPSG:
    """mixin methods; use make_traced(gen) to swap the class of a PhaseSpaceGenerator"""


def make_traced(gen, log):
    """swap the class of a real PhaseSpaceGenerator instance for a tracing subclass"""
    from tf_pwa.phasespace import PhaseSpaceGenerator

    class _Traced(PhaseSpaceGenerator):
        def flatten_mass(self, ms, importances=True):
            w = self.get_weight(ms, importances=importances)
            ret = PhaseSpaceGenerator.flatten_mass(self, ms, importances=importances)
            wmax = float(np.max(w.numpy())) if int(w.shape[0]) > 0 else 0.0
            self._vlog.append({"req": int(ms[0].shape[0]), "acc": int(ret[0].shape[0]), "wmax": wmax})
            return ret

        def generate(self, n_iter, *a, **k):
            self._vlog = []
            ret = PhaseSpaceGenerator.generate(self, n_iter, *a, **k)
            length = int(ret[0].shape[0])
            evs = []
            if self.m_nt == 2:
                evs.append({"a": "Direct", "len": length})
            else:
                for j, b in enumerate(self._vlog):
                    evs.append({"a": "First" if j == 0 else "Refill", "req": b["req"], "acc": b["acc"], "wle1": bool(b["wmax"] <= 1.0 + 1e-12), "wmax": b["wmax"]})
                evs.append({"a": "Trunc", "len": length})
            log.append({"nt": int(self.m_nt), "N": int(n_iter), "ev": evs})
            return ret

    gen.__class__ = _Traced
    gen._vlog = []
    return gen


def fill_stored(events):
    """bound kept after a Batch (before a thinning) / after a Thin = the bound the next batch is called with,
    or the final status bound; a Batch followed by a Thin kept the bound it was called with"""
    for j, e in enumerate(events):
        if e["a"] not in ("Batch", "Thin"):
            continue
        nxt = events[j + 1]
        if e["a"] == "Batch" and nxt["a"] == "Thin":
            e["stored"] = list(e["bin"])
        elif nxt["a"] == "Batch":
            if not nxt["hasBin"]:
                raise tlc.MachineryError("tracer: a later batch was called without a bound")
            e["stored"] = list(nxt["bin"])
        elif nxt["a"] == "End":
            e["stored"] = list(nxt["bound"])
        else:
            raise tlc.MachineryError("tracer: unexpected record order")
    return events


def drift_of(trace, variant):
    """number of Batch / Thin records whose bounds differ from the constants of the implementation
    the specification was transcribed from (1.01, 1.1, 1.05 / 1.02, 1.01) -- informational"""
    F = Fraction
    n = 0
    has, bound = trace["hasB"], F(*trace["b0"]) if trace["hasB"] else None
    for e in trace["ev"]:
        if e["a"] == "Batch":
            wmax = max(F(a) / F(*g) for a, g in zip(e["as"], e["ims"]))
            if variant == "multi":
                local = wmax * F(101, 100) if (not has or bound < wmax) else bound
                stored = local * F(11, 10) if not has else bound
            else:
                local = wmax * F(51, 50) if not has else max(wmax * F(101, 100), bound)
                stored = local if not has else bound
            if F(*e["local"]) != local or F(*e["stored"]) != stored:
                n += 1
            has, bound, loc = True, F(*e["stored"]), F(*e["local"])
        elif e["a"] == "Thin":
            exp = loc * (F(21, 20) if variant == "multi" else 1)
            if F(*e["stored"]) != exp:
                n += 1
            bound = F(*e["stored"])
    return n


def phsp_trace(N, node_logs):
    """one "ph" trace from the per-node logs of one ChainGenerator.generate(N) / PhaseSpaceGenerator.generate(N)"""
    ev = []
    for nl in node_logs:
        for e in nl["ev"]:
            ev.append({k: v for k, v in e.items() if k != "wmax"})
    return {"kind": "ph", "N": int(N), "gens": [int(nl["nt"]) for nl in node_logs], "ev": ev}


# --------------------------------------------------------------------------
def write_cfg(path, variant):
    with open(path, "w") as f:
        f.write(
            'CONSTANTS\n Variant = "%s"\n NSet = {1}\n MaxW = 1\n ImpNums = {1}\n ImpDen = 1\n MaxLen = 1\n MaxBatches = 1000000\n UNums = {0}\n UDen = %d\n'
            " UserBounds = {}\n PhNSet = {1}\n PhCap = %d\n PhMaxRefill = 1\n PhMaxNodes = 1\n"
            "INIT TraceInit\nNEXT TraceNext\n"
            "INVARIANT ArTypeOK\nINVARIANT BoundGeWeight\nINVARIANT Proportional\nINVARIANT ThinIsProbability\n"
            "INVARIANT CountConsistent\nINVARIANT LoopExit\nINVARIANT ResultLength\nINVARIANT ResultIsPrefix\nINVARIANT Ordered\n"
            "INVARIANT PhCount\nINVARIANT PhLenN\nINVARIANT PhDone\n"
            "POSTCONDITION TracePost\nCHECK_DEADLOCK FALSE\n" % (variant, UDEN, PH_CAP)
        )
    return path


def _locate(traces, consumed_transitions):
    """(trace index, record index) of the first record that was not consumed"""
    left = consumed_transitions
    for t, tr in enumerate(traces):
        n = len(tr["ev"])
        if left < n:
            return t, left
        if left == n:
            return t, n  # all records consumed but NextTrace refused: machine not terminated
        left -= n + 1
    return len(traces), 0


def validate(ctx, traces, variant, label, max_rejects=20):
    """Run TraceSampler on the traces.  Returns (n_accepted, rejected) where
    rejected = [(trace, record_index, reason)].  A rejected trace is removed
    and the rest re-validated (one more JVM) so that one bad trace does not
    hide the others."""
    cfg = write_cfg(os.path.join(ctx.work, "trace_%s.cfg" % variant), variant)
    rest = list(traces)
    todo = []
    rejected = []
    accepted = 0
    rounds = 0
    while todo or rest:
        if not todo:  # at most CHUNK traces per JVM (TotalStates is a recursive sum over the traces)
            todo, rest = rest[:CHUNK], rest[CHUNK:]
        rounds += 1
        inp = os.path.join(ctx.work, "traces_%s_%s_%d.json" % (label, variant, rounds))
        with open(inp, "w") as f:
            json.dump({"traces": todo}, f)
        r = tlc.run("TraceSampler", cfg, work=ctx.work, workers=1, env={"IN_FILE": inp}, timeout=1500)
        if r.out is None and not r.violation:
            raise tlc.MachineryError("TraceSampler wrote no verdict (%s)" % label)
        fix_coverage(r)
        ctx.tlc(r, "TraceSampler %s %s round %d" % (label, variant, rounds))
        if r.violation:
            # an invariant of the specification failed on a state reached by a recorded trace
            t, k = _locate(todo, max(r.distinct - 2, 0))
            rejected.append((todo[t], k, "invariant %s" % r.violation))
            accepted += t
            todo = todo[t + 1 :]
        elif r.out["consumed"]:
            if r.out["traces"] != len(todo):
                raise tlc.MachineryError("TraceSampler consumed %s traces, %d given" % (r.out["traces"], len(todo)))
            accepted += len(todo)
            todo = []
        else:
            t, k = _locate(todo, r.out["diameter"] - 1)
            if t >= len(todo):
                raise tlc.MachineryError("TraceSampler: inconsistent diameter %s" % r.out)
            rejected.append((todo[t], k, "record not matched by any action"))
            accepted += t
            todo = todo[t + 1 :]
        if len(rejected) >= max_rejects:
            break
    return accepted, rejected
