"""Interpret behaviours of spec/Session.tla on a real AmplitudeModel."""
import os

import numpy as np

from . import tlc
from .params_replay import fmt_step
from .session_replay import Injected, SessionReplayer, pval

# constants of the specification that mirror the code (flip together with the code)
CODE = {"Finally": True, "ExactRestore": True, "RawSave": True, "KeyedGraph": True}

ATOMIC = {"StartPartialWeight": "partial_weight", "StartInterference": "partial_weight_interference", "StartFitFractions": "fit_fractions", "StartPlotWeights": "plot_weights"}
ENTER = {
    "EnterTempParamsAmp": "temp_params_amp",
    "EnterTempParamsVM": "temp_params_vm",
    "EnterMask": "mask_params",
    "EnterTempUsedRes": "temp_used_res",
    "EnterGlsOne": "temp_total_gls_one",
    "EnterTempConfig": "temp_config",
    "EnterTempVar": "temp_var",
}


def cfg_text(K, PV, depth, max_stack, invs, code=None, view=True):
    code = code or CODE
    b = lambda x: "TRUE" if x else "FALSE"
    s = (
        "CONSTANTS\n K = %d\n PV = {%s}\n MaxDepth = %d\n MaxStack = %d\n Finally = %s\n ExactRestore = %s\n RawSave = %s\n KeyedGraph = %s\n None = None\n"
        "INIT Init\nNEXT Next\nCHECK_DEADLOCK FALSE\n" % (K, ",".join(map(str, PV)), depth, max_stack, b(code["Finally"]), b(code["ExactRestore"]), b(code["RawSave"]), b(code.get("KeyedGraph", True)))
    )
    if view:
        s += "VIEW View\n"
    s += "".join("INVARIANT %s\n" % i for i in invs)
    return s


def run_tlc(ctx, label, depth, max_stack, invs, PV=(1, 2), code=None, **kw):
    p = os.path.join(ctx.work, "session_%s.cfg" % label)
    with open(p, "w") as f:
        f.write(cfg_text(3, PV, depth, max_stack, invs, code, view=kw.pop("view", True)))
    return tlc.run("Session", p, work=ctx.work, workers=16, timeout=3000, expect_violation=True, **kw)


def history(path, upto):
    return ";".join(fmt_step(a, g) for a, g, _ in path[1 : upto + 1])


class Outcome:
    def __init__(self):
        self.fails = []  # (observer, step index, message)
        self.calls = 0
        self.compiled_calls = 0
        self.steps = 0
        self.truncated = False


def execute(rep, path, check_calls=True):
    """run one behaviour on the real model; returns Outcome"""
    out = Outcome()
    rep.reset()
    base = rep.snapshot()
    i = 1
    n = len(path)

    def at_top(idx, st):
        snap = rep.snapshot()
        for msg in rep.same_reading(base, snap):
            out.fails.append(("Transparent", idx, msg))
        for msg in rep.compare(snap, st):
            out.fails.append(("Projection", idx, msg))

    while i < n:
        action, args, st = path[i]
        out.steps += 1
        try:
            if action == "UserSetParam":
                rep.amp.set_params({rep.pname: pval(args[0])})
            elif action == "InnerSetParam":
                rep.amp.set_params({rep.pname: pval(args[0])})
            elif action == "UserSetChains":
                rep.amp.set_used_chains([k - 1 for k in args[0]])
            elif action == "UserSetRes":
                rep.amp.set_used_res([rep.res[k] for k in sorted(args[0])])
            elif action == "UserSetBound":
                if args[0]:
                    rep.vm.set_bound({rep.pname: (2.0, 3.0)})
                else:
                    rep.vm.remove_bound()
            elif action == "UserCoord":
                if args[0]:
                    rep.vm.xy2rp_all()
                else:
                    rep.vm.rp2xy_all()
            elif action in ENTER:
                rep.enter(ENTER[action], args[0] if args else None)
            elif action == "StartFactorIteration":
                rep.frames.append(("gen", "factor_iteration", rep.amp.factor_iteration(deep=1)))
            elif action in ATOMIC:
                kind = ATOMIC[action]
                # look ahead: the steps of this computation are consecutive
                j = i + 1
                k = 0
                while j < n and path[j][0] == "CompStep":
                    j += 1
                    k += 1
                if j >= n:
                    out.truncated = True  # behaviour cut inside a computation by the depth bound
                    rep.unwind(Injected("truncated"))
                    return out
                end = path[j][0]
                if end == "ExitNormal":
                    exc = rep.run_computation(kind, args if args else None, None)
                    if exc is not None:
                        raise AssertionError("unexpected fault")
                elif end == "Raise":
                    fault_at = k + 1 if kind in ("fit_fractions", "plot_weights") else k
                    exc = rep.run_computation(kind, args if args else None, fault_at)
                    if exc is None:
                        out.fails.append(("Machinery", j, "fault %d was never reached in %s" % (fault_at, kind)))
                        return out
                    rep.unwind(exc)
                else:
                    raise AssertionError("computation followed by %s" % end)
                out.steps += j - i
                i = j
                action, args, st = path[i]
            elif action == "CompStep":
                tag, kind, gen = rep.frames[-1]
                assert tag == "gen", "CompStep outside a generator"
                next(gen)
            elif action == "ExitNormal":
                rep.exit_normal()
            elif action == "Raise":
                rep.unwind(Injected("raised inside the innermost block"))
            elif action == "Abandon":
                tag, kind, gen = rep.frames.pop()
                gen.close()
            elif action == "Call":
                got, want = rep.call_density()
                out.calls += 1
                if rep.use_tf_function and getattr(rep.amp.cached_fun, "cached_f", None):
                    out.compiled_calls += 1
                if check_calls and (got.shape != want.shape or not np.allclose(got, want, rtol=1e-8, atol=1e-300)):
                    out.fails.append(("CompiledEqualsEager", i, "amp(data) differs from eager pdf(data): max rel %.3g" % float(np.max(np.abs(got - want) / np.abs(want)))))
            else:
                raise AssertionError("unknown action %s" % action)
        except Injected:
            raise
        except AssertionError:
            raise
        except Exception as e:  # the library raised on its own
            out.fails.append(("Exception", i, "%s raised %r" % (fmt_step(action, args), e)))
            rep.unwind(Injected("cleanup"))
            return out
        if action.startswith("User"):
            base = rep.snapshot()
            for msg in rep.compare(base, st):
                out.fails.append(("Projection", i, msg))
        elif len(st["stack"]) == 0 and action != "Call":
            at_top(i, st)
        if out.fails:
            break
        i += 1
    # leave the model clean
    rep.unwind(Injected("cleanup"))
    return out


def signature(path, idx):
    """root-cause signature of a failure: the kinds of frames open before the failing step + the action"""
    prev = path[idx - 1][2] if idx >= 1 else path[0][2]
    kinds = tuple(f["kind"] for f in prev["stack"])
    return kinds + (path[idx][0],)
