"""Shared helpers of the C01 / C02 checks (spec/Symmetry.tla scenarios -> real tf_pwa objects).

* structure record (JSON written by TLC)  ->  ConfigLoader dict
* seeded parameter draw by name
* phase-space events from tf_pwa.phasespace
* an INDEPENDENT numpy implementation of rotations, boosts, space inversion
  and momentum exchange (nothing from tf_pwa.angle is used here)
"""
import itertools
import math

import numpy as np

LEAF = ["B", "C", "D", "E"]
TOP = "A"
BASE_MASS = [0.94, 0.50, 0.14, 0.77]
Q_VALUE = 2.0
MODEL_TAGS = ["default", "BW", "BWR2"]  # BWR (running width), constant-width BW, BWR2


def spin(j2):
    return j2 // 2 if j2 % 2 == 0 else j2 / 2.0


def fz(form):
    return frozenset(frozenset(g) for g in form)


def kids(n, form, T):
    """the two daughters' leaf sets of grouping T (same rule as Symmetry!Kids)"""
    groups = set(form) | {frozenset([i]) for i in range(1, n + 1)}
    sub = [S for S in groups if S < T]
    ks = [S for S in sub if not any(S < S2 for S2 in sub)]
    ks.sort(key=lambda S: min(S))
    assert len(ks) == 2 and ks[0] | ks[1] == T, (form, T, ks)
    return ks


def final_masses(s):
    m = list(BASE_MASS[: s["n"]])
    for grp in s["ident"]:
        g = sorted(grp)
        for j in g[1:]:
            m[j - 1] = m[g[0] - 1]
    return m


def top_mass(s):
    return sum(final_masses(s)) + Q_VALUE


def res_name(k, T, tag=""):
    return "R%d_%s%s" % (k, "".join(LEAF[i - 1] for i in sorted(T)), tag)


def leaf_names(n, tag=""):
    return [x + tag for x in LEAF[:n]]


def group_name(n, k, T, tag=""):
    if len(T) == n:
        return TOP + tag
    if len(T) == 1:
        return LEAF[min(T) - 1] + tag
    return res_name(k, T, tag)


def build_config(s, order=None, options=None, tag=""):
    """ConfigLoader dict for a structure; `order` permutes the chain list (1-based
    indices into s['chains']); resonance names depend on the chain's index in the
    structure, never on its position, so that parameters keep their names.

    `tag` is appended to EVERY particle name: tf_pwa caches coupling tables per
    particle / decay *name* (functools caches keyed on objects that compare by
    name), so two different structures built in one process must not share names."""
    top = TOP + tag
    n = s["n"]
    mf = final_masses(s)
    m0 = top_mass(s)
    q = m0 - sum(mf)
    nch = len(s["chains"])
    order = list(order) if order is not None else list(range(1, nch + 1))
    full = frozenset(range(1, n + 1))
    decay = {top: []}
    particle = {
        "$top": {top: {"J": spin(s["top"][0]), "P": s["top"][1], "mass": m0}},
        "$finals": {LEAF[i] + tag: {"J": spin(s["fin"][i][0]), "P": s["fin"][i][1], "mass": mf[i]} for i in range(n)},
    }
    for k in order:
        ch = s["chains"][k - 1]
        form = fz(ch["form"])
        resqn = {frozenset(T): (j2, p) for T, j2, p in ch["res"]}
        frac = 0.25 + 0.1 * ((k - 1) % 3)
        for T in sorted(form, key=lambda S: (-len(S), sorted(S))):
            k1, k2 = kids(n, form, T)
            entry = [group_name(n, k, k1, tag), group_name(n, k, k2, tag)]
            brk = s["pb"] == "all" or (s["pb"] == "top" and T == full)
            if brk:
                entry.append({"p_break": True})
            if T == full:
                decay[top].append(entry)
            else:
                decay[res_name(k, T, tag)] = entry
                j2, p = resqn[T]
                mass = sum(mf[i - 1] for i in T) + (frac + (0.25 if len(T) == 3 else 0.0)) * q
                particle[res_name(k, T, tag)] = {
                    "J": spin(j2),
                    "P": p,
                    "mass": round(mass, 6),
                    "width": round(0.12 + 0.05 * k + 0.02 * len(T), 6),
                    "model": MODEL_TAGS[s.get("model", 0) % len(MODEL_TAGS)],
                }
    data = {"dat_order": leaf_names(n, tag)}
    if s["ident"]:
        data["identical_particles"] = [[LEAF[i - 1] + tag for i in sorted(pr)] for pr in s["ident"]]
    if options:
        data.update(options)
    return {"data": data, "decay": decay, "particle": particle}


def describe(s):
    return {
        "n": s["n"],
        "top(2J,P)": s["top"],
        "finals(2J,P)": s["fin"],
        "chains": [
            {"form": sorted(sorted(g) for g in c["form"]), "res(leaves,2J,P)": [[sorted(T), j2, p] for T, j2, p in c["res"]]}
            for c in s["chains"]
        ],
        "p_break": s["pb"],
        "identical": [sorted(p) for p in s["ident"]],
        "model": MODEL_TAGS[s.get("model", 0) % len(MODEL_TAGS)],
    }


def skey(s):
    """short stable identifier of a structure"""
    ch = ";".join(
        "%s:%s" % ("|".join("".join(map(str, sorted(g))) for g in sorted(map(sorted, c["form"])) if len(g) < s["n"]),
                   ",".join("%d%s" % (j2, "+" if p > 0 else "-") for T, j2, p in sorted((sorted(T), j2, p) for T, j2, p in c["res"])))
        for c in s["chains"]
    )
    return "n%d/top%d%s/fin%s/%s/pb=%s/id=%s/m%d" % (
        s["n"],
        s["top"][0],
        "+" if s["top"][1] > 0 else "-",
        "".join(str(f[0]) for f in s["fin"]),
        ch,
        s["pb"],
        ".".join("".join(map(str, sorted(p))) for p in sorted(map(sorted, s["ident"]))) or "-",
        s.get("model", 0),
    )


def draw_params(names_values, rng):
    """seeded values by name: magnitudes in [0.5, 2], phases in (-pi, pi); masses and widths kept"""
    out = {}
    for name in sorted(names_values):
        if name.endswith("_mass") or name.endswith("_width"):
            continue
        if name.endswith("r"):
            out[name] = float(rng.uniform(0.5, 2.0))
        elif name.endswith("i"):
            out[name] = float(rng.uniform(-math.pi, math.pi))
    return out


def phsp_events(s, nev, seed):
    """rest-frame events from the library's own generator: list of (nev, 4) arrays per leaf"""
    import tensorflow as tf

    from tf_pwa.phasespace import PhaseSpaceGenerator

    np.random.seed(seed % (2**32))
    tf.random.set_seed(seed)
    mf = final_masses(s)
    m0 = top_mass(s)
    out = None
    need = nev
    for _ in range(20):
        p = [np.asarray(x, dtype=np.float64) for x in PhaseSpaceGenerator(m0, mf).generate(max(need * 2, 16))]
        # interior of phase space: every momentum well away from rest (DESIGN 4)
        ok = np.ones(len(p[0]), dtype=bool)
        for x in p:
            ok &= np.linalg.norm(x[:, 1:], axis=-1) > 1e-3 * m0
            ok &= np.all(np.isfinite(x), axis=-1)
        p = [x[ok] for x in p]
        out = p if out is None else [np.concatenate([a, b]) for a, b in zip(out, p)]
        if len(out[0]) >= nev:
            break
        need = nev - len(out[0])
    return [x[:nev] for x in out]


# ---------------------------------------------------------------------------
# independent Lorentz-group implementation (numpy only)
# ---------------------------------------------------------------------------
def rot_axis(axis, angle):
    axis = np.asarray(axis, dtype=np.float64)
    axis = axis / np.linalg.norm(axis)
    K = np.array([[0, -axis[2], axis[1]], [axis[2], 0, -axis[0]], [-axis[1], axis[0], 0]])
    return np.eye(3) + math.sin(angle) * K + (1 - math.cos(angle)) * (K @ K)


def lorentz_rot(R):
    L = np.eye(4)
    L[1:, 1:] = R
    return L


def lorentz_boost(beta):
    beta = np.asarray(beta, dtype=np.float64)
    b2 = float(beta @ beta)
    g = 1.0 / math.sqrt(1.0 - b2)
    L = np.eye(4)
    L[0, 0] = g
    L[0, 1:] = g * beta
    L[1:, 0] = g * beta
    if b2 > 0:
        L[1:, 1:] += (g - 1.0) / b2 * np.outer(beta, beta)
    return L


PARITY = np.diag([1.0, -1.0, -1.0, -1.0])


def generator_matrix(g, rng):
    """4x4 Lorentz matrix of a generator name (generic ones drawn from rng); None for Swap"""
    name = g[0]
    if name == "RotX90":
        return lorentz_rot(rot_axis([1, 0, 0], math.pi / 2))
    if name == "RotZ60":
        return lorentz_rot(rot_axis([0, 0, 1], math.pi / 3))
    if name == "RotGen":
        ax = rng.normal(size=3)
        return lorentz_rot(rot_axis(ax, rng.uniform(0.2, 2 * math.pi - 0.2)))
    if name == "BoostZ":
        b = rng.uniform(0.05, 0.9) * (1 if rng.random() < 0.5 else -1)
        return lorentz_boost([0, 0, b])
    if name == "BoostGen":
        ax = rng.normal(size=3)
        ax /= np.linalg.norm(ax)
        return lorentz_boost(ax * rng.uniform(0.05, 0.9))
    if name == "Parity":
        return PARITY.copy()
    if name == "Swap":
        return None
    raise ValueError(g)


def apply_word(p, word, rng):
    """p: list of (N,4) arrays per leaf (E,px,py,pz); returns transformed copy and a description"""
    p = [x.copy() for x in p]
    desc = []
    for g in word:
        L = generator_matrix(g, rng)
        if L is None:
            i, j = g[1] - 1, g[2] - 1
            p[i], p[j] = p[j], p[i]
            desc.append("Swap(%d,%d)" % (g[1], g[2]))
        else:
            p = [x @ L.T for x in p]
            desc.append(g[0])
    return p, desc


def words_upto(enabled, maxlen):
    gens = [tuple(g) for g in enabled]
    gens.sort()
    out = [()]
    for k in range(1, maxlen + 1):
        out += list(itertools.product(gens, repeat=k))
    return out


def minkowski_mass(p):
    return np.sqrt(np.abs(p[:, 0] ** 2 - np.sum(p[:, 1:] ** 2, axis=-1)))
