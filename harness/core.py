"""Check context: evidence, violations, known findings, exit codes."""
import json
import os
import shutil
import sys
import time
import traceback

ROOT = os.environ.get("VERIF_ROOT", os.path.dirname(os.path.dirname(os.path.abspath(__file__))))
LEVELS = ("exploration", "fault_enumeration", "model_checking", "proof", "translation_validation", "other")


def load_findings():
    """known_findings.json plus one optional file per property under known_findings.d/"""
    out = {"findings": [], "fixed": []}
    paths = [os.path.join(ROOT, "known_findings.json")]
    d = os.path.join(ROOT, "known_findings.d")
    if os.path.isdir(d):
        paths += [os.path.join(d, f) for f in sorted(os.listdir(d)) if f.endswith(".json")]
    for p in paths:
        if os.path.exists(p):
            with open(p) as f:
                j = json.load(f)
            out["findings"] += j.get("findings", [])
            out["fixed"] += j.get("fixed", [])
    return out


class Ctx:
    def __init__(self, pid, tier, seed, level):
        assert level in LEVELS
        self.pid, self.tier, self.seed, self.level = pid, tier, seed, level
        self.t0 = time.time()
        self.work = os.path.join(os.environ.get("VERIF_TMP", os.path.join(ROOT, ".work")), "%s_%s_%d" % (pid, tier, os.getpid()))
        os.makedirs(self.work, exist_ok=True)
        self.cov = {
            "evaluations": 0,
            "distinct_nontrivial": 0,
            "rule": "",
            "samples": [],
            "states": 0,
            "transitions": 0,
            "traces_validated_against_impl": 0,
            "exhaustive": False,
            "tlc_runs": [],
            "parts": {},
        }
        self.assumptions = []
        self.violations = []  # (key, detail, replay)
        self.known = []  # (key, what)
        self._known = [f for f in load_findings().get("findings", []) if f.get("property") == pid]
        self._seen_keys = set()
        self.notes = []
        self._distinct = set()
        self.flush_hooks = []  # called when the wall-clock guard stops the check: report what is collected

    # -- bookkeeping -------------------------------------------------------
    def log(self, *a):
        print("[%s %6.1fs]" % (self.pid, time.time() - self.t0), *a, flush=True)

    def assume(self, text):
        if text not in self.assumptions:
            self.assumptions.append(text)

    def sample(self, s, limit=8):
        if len(self.cov["samples"]) < limit:
            self.cov["samples"].append(s)

    def count(self, n=1, distinct_key=None, nontrivial=True):
        self.cov["evaluations"] += n
        if distinct_key is not None and nontrivial:
            h = hash(distinct_key)
            if h not in self._distinct:
                self._distinct.add(h)
                self.cov["distinct_nontrivial"] += 1

    def part(self, name, **kw):
        d = self.cov["parts"].setdefault(name, {})
        for k, v in kw.items():
            if isinstance(v, (int, float)) and not isinstance(v, bool) and isinstance(d.get(k), (int, float)):
                d[k] += v
            else:
                d[k] = v
        return d

    def tlc(self, res, label, vacuity_actions=None):
        """record a TLC run; enforce non-vacuity on named actions"""
        st = res.stats()
        st["run"] = label
        cov = {k: v for k, v in res.coverage.items()}
        st["action_counts"] = cov
        self.cov["tlc_runs"].append(st)
        self.cov["states"] += res.distinct
        self.cov["transitions"] += max(res.generated - 0, 0)
        if vacuity_actions:
            from .tlc import MachineryError

            missing = [a for a in vacuity_actions if cov.get(a, 0) == 0]
            if missing:
                raise MachineryError("vacuous TLC run %s: actions never taken: %s" % (label, missing))

    # -- verdicts ----------------------------------------------------------
    def violation(self, key, detail):
        """key: stable identifier of the specific failing input / history"""
        if key in self._seen_keys:
            return
        self._seen_keys.add(key)
        for f in self._known:
            if f.get("key") == key:
                self.known.append((key, f.get("what", "")))
                return
        rdir = os.path.join(ROOT, "replays", self.pid)
        os.makedirs(rdir, exist_ok=True)
        safe = "".join(c if c.isalnum() or c in "-_." else "_" for c in key)[:100]
        path = os.path.join(rdir, "%s.json" % safe)
        if getattr(self, "replaying", False) and os.path.exists(path):
            # a replay must not overwrite the file it is replaying
            self.violations.append((key, detail, path))
            self.log("violation:", key, json.dumps(detail, default=str)[:400])
            return
        with open(path, "w") as f:
            json.dump({"property": self.pid, "key": key, "tier": self.tier, "seed": self.seed, "detail": detail}, f, indent=1, default=str)
        self.violations.append((key, detail, path))
        self.log("violation:", key, json.dumps(detail, default=str)[:400])

    def finish(self):
        ev = {
            "property_id": self.pid,
            "tier": self.tier,
            "seed": self.seed,
            "level": self.level,
            "coverage": self.cov,
            "assumptions": self.assumptions,
            "wall_s": round(time.time() - self.t0, 2),
            "violations": len(self.violations),
            "known_findings_hit": [k for k, _ in self.known],
            "violation_keys": [k for k, _, _ in self.violations],
            "notes": self.notes,
        }
        if self.cov["distinct_nontrivial"] < 2 and self.cov["evaluations"] >= 2 and not self._distinct:
            pass
        os.makedirs(os.path.join(ROOT, "evidence"), exist_ok=True)
        with open(os.path.join(ROOT, "evidence", "%s.json" % self.pid), "w") as f:
            json.dump(ev, f, indent=1, default=str)
        shutil.rmtree(self.work, ignore_errors=True)
        for key, what in self.known:
            print("KNOWN-FINDING: property=%s %s :: %s" % (self.pid, key, what), flush=True)
        for key, _, path in self.violations:
            print("VIOLATION property=%s replay=%s" % (self.pid, path), flush=True)
        self.log("done: evaluations=%d distinct=%d states=%d violations=%d known=%d wall=%.1fs" % (
            self.cov["evaluations"], self.cov["distinct_nontrivial"], self.cov["states"], len(self.violations), len(self.known), time.time() - self.t0))
        return 1 if self.violations else 0
