"""Run TLC and read what it produces.

* run(): model-check / simulate a module with a cfg, collect statistics,
  per-action coverage, JSON output written by the spec (IOEnv.OUT_FILE),
  invariant violations.
* parse_value(): parser for TLA+ values as TLC prints them (states in dumps,
  simulate traces, dot labels).
* parse_dot(): labelled state graph written by -dump dot,actionlabels.
* parse_sim_trace(): one behaviour file written by -simulate file=...
"""
import json
import os
import re
import shutil
import subprocess
import time

ROOT = os.environ.get("VERIF_ROOT", os.path.dirname(os.path.dirname(os.path.abspath(__file__))))
SPEC = os.path.join(ROOT, "spec")
JAR = "/opt/veriftools/tla/tla2tools.jar:/opt/veriftools/tla/CommunityModules-deps.jar"


class MachineryError(Exception):
    """TLC crashed / the spec does not parse: exit code 2, never a violation."""


class FD(dict):
    """hashable dict (TLA+ records / functions)"""

    def __hash__(self):
        return hash(frozenset(self.items()))


# --------------------------------------------------------------------------
# value parser
# --------------------------------------------------------------------------
_tok = re.compile(
    r"\s*(<<|>>|\|->|:>|@@|\.\.|[\[\]{}(),]|-?\d+|\"(?:[^\"\\]|\\.)*\"|[A-Za-z_][A-Za-z0-9_!]*)"
)


def _tokens(s):
    pos = 0
    out = []
    n = len(s)
    while pos < n:
        m = _tok.match(s, pos)
        if not m:
            if s[pos:].strip() == "":
                break
            raise ValueError("cannot tokenise TLA+ value at %r" % s[pos : pos + 40])
        out.append(m.group(1))
        pos = m.end()
    return out


class _P:
    def __init__(self, toks):
        self.t = toks
        self.i = 0

    def peek(self):
        return self.t[self.i] if self.i < len(self.t) else None

    def eat(self, x=None):
        v = self.t[self.i]
        if x is not None and v != x:
            raise ValueError("expected %s got %s at %d" % (x, v, self.i))
        self.i += 1
        return v

    def value(self):
        v = self.atom()
        # interval a..b
        if self.peek() == "..":
            self.eat()
            hi = self.atom()
            return frozenset(range(v, hi + 1))
        return v

    def atom(self):
        t = self.eat()
        if t == "<<":
            out = []
            while self.peek() != ">>":
                out.append(self.value())
                if self.peek() == ",":
                    self.eat()
            self.eat(">>")
            return tuple(out)
        if t == "{":
            out = []
            while self.peek() != "}":
                out.append(self.value())
                if self.peek() == ",":
                    self.eat()
            self.eat("}")
            return frozenset(out)
        if t == "[":
            d = FD()
            while self.peek() != "]":
                k = self.eat()
                self.eat("|->")
                d[k] = self.value()
                if self.peek() == ",":
                    self.eat()
            self.eat("]")
            return d
        if t == "(":
            d = FD()
            while True:
                k = self.value()
                self.eat(":>")
                d[k] = self.value()
                if self.peek() == "@@":
                    self.eat()
                    continue
                break
            self.eat(")")
            return d
        if t == "TRUE":
            return True
        if t == "FALSE":
            return False
        if t[0] == '"':
            return json.loads(t)
        if re.fullmatch(r"-?\d+", t):
            return int(t)
        return t  # model value / identifier


def parse_value(s):
    p = _P(_tokens(s))
    v = p.value()
    if p.peek() is not None:
        raise ValueError("trailing tokens in TLA+ value: %r" % p.t[p.i : p.i + 5])
    return v


def parse_state(text):
    """'/\\ a = 1 /\\ b = <<..>>' (possibly multi-line) -> dict"""
    parts = re.split(r"(?:^|\n)\s*/\\ ", "\n" + text.strip())
    st = {}
    for part in parts:
        part = part.strip()
        if not part:
            continue
        m = re.match(r"([A-Za-z_][A-Za-z0-9_]*)\s*=\s*(.*)\Z", part, re.S)
        if not m:
            raise ValueError("cannot parse state conjunct %r" % part[:80])
        st[m.group(1)] = parse_value(m.group(2))
    return st


def parse_action_label(lbl):
    """'SetSame("c","a")' -> ('SetSame', ('c','a')); 'Init' -> ('Init', ())"""
    lbl = lbl.strip()
    m = re.match(r"([A-Za-z_][A-Za-z0-9_]*)\s*(?:\((.*)\))?\s*\Z", lbl, re.S)
    if not m:
        raise ValueError("bad action label %r" % lbl)
    name, args = m.group(1), m.group(2)
    if args is None or args.strip() == "":
        return name, ()
    v = parse_value("<<" + args + ">>")
    return name, v


# --------------------------------------------------------------------------
# running TLC
# --------------------------------------------------------------------------
class Result:
    def __init__(self):
        self.stdout = ""
        self.generated = 0
        self.distinct = 0
        self.depth = 0
        self.coverage = {}
        self.violation = None  # name of violated invariant / property
        self.trace = []  # counterexample states [(label, state)]
        self.wall = 0.0
        self.out = None  # JSON written by the spec
        self.returncode = 0
        self.cmd = ""

    def stats(self):
        return {
            "states_generated": self.generated,
            "distinct_states": self.distinct,
            "depth": self.depth,
            "wall_s": round(self.wall, 2),
        }


def _java_cmd(extra_java=()):
    return ["java", "-XX:+UseParallelGC", "-Xmx8g"] + list(extra_java) + ["-cp", JAR, "tlc2.TLC"]


def run(
    module,
    cfg=None,
    *,
    work,
    workers=8,
    coverage=True,
    simulate=None,
    depth=None,
    seed=None,
    dump_dot=None,
    dump_states=None,
    env=None,
    timeout=3600,
    deadlock=None,
    expect_violation=False,
    extra=(),
    dfs=False,
    spec_dir=None,
    extra_files=None,
):
    """Run TLC on spec/<module>.tla with spec/<cfg>.cfg.

    The module directory is copied to a scratch directory so that TLC's
    droppings never land in /verif/spec.
    """
    spec_dir = spec_dir or SPEC
    cfg = cfg or module
    os.makedirs(work, exist_ok=True)
    run_dir = os.path.join(work, "tlc_%s_%s_%d" % (module, os.path.basename(cfg), int(time.time() * 1000) % 10**9))
    os.makedirs(run_dir, exist_ok=True)
    for f in os.listdir(spec_dir):
        if f.endswith(".tla"):
            shutil.copy(os.path.join(spec_dir, f), run_dir)
    for fn, content in (extra_files or {}).items():
        with open(os.path.join(run_dir, fn), "w") as f:
            f.write(content)
    cfg_src = cfg if os.path.isabs(cfg) else os.path.join(spec_dir, cfg if cfg.endswith(".cfg") else cfg + ".cfg")
    shutil.copy(cfg_src, os.path.join(run_dir, "run.cfg"))
    out_file = os.path.join(run_dir, "out.json")
    e = dict(os.environ)
    e["OUT_FILE"] = out_file
    if env:
        e.update({k: str(v) for k, v in env.items()})
    # TLC creates an (empty) tlc-* directory in java.io.tmpdir on every start: keep it inside the scratch directory
    # of the run instead of /tmp
    os.makedirs(os.path.join(run_dir, "tmp"), exist_ok=True)
    jopts = ["-Djava.io.tmpdir=" + os.path.join(run_dir, "tmp")]
    if dfs:
        jopts.append("-Dtlc2.tool.queue.IStateQueue=StateDeque")
    cmd = _java_cmd(jopts) + [
        "-workers",
        str(workers),
        "-metadir",
        os.path.join(run_dir, "meta"),
        "-noGenerateSpecTE",
        "-config",
        "run.cfg",
    ]
    if coverage:
        cmd += ["-coverage", "1"]
    if deadlock is False:
        cmd += ["-deadlock"]
    if simulate:
        cmd += ["-simulate", simulate]
        if depth:
            cmd += ["-depth", str(depth)]
    if seed is not None:
        cmd += ["-seed", str(seed)]
    if dump_dot:
        cmd += ["-dump", "dot,actionlabels", dump_dot]
    if dump_states:
        cmd += ["-dump", dump_states]
    cmd += list(extra)
    cmd += [module + ".tla"]
    t0 = time.time()
    try:
        pr = subprocess.run(cmd, cwd=run_dir, env=e, capture_output=True, text=True, timeout=timeout)
    except subprocess.TimeoutExpired as ex:
        if simulate:
            r = Result()
            r.stdout = (ex.stdout or b"").decode() if isinstance(ex.stdout, bytes) else (ex.stdout or "")
            r.wall = time.time() - t0
            r.cmd = " ".join(cmd)
            return r
        raise MachineryError("TLC timed out after %ss: %s" % (timeout, " ".join(cmd)))
    r = Result()
    r.cmd = " ".join(cmd)
    r.stdout = pr.stdout + pr.stderr
    r.returncode = pr.returncode
    r.wall = time.time() - t0
    r.run_dir = run_dir
    m = re.search(r"(\d+) states generated, (\d+) distinct states found", r.stdout)
    if m:
        r.generated, r.distinct = int(m.group(1)), int(m.group(2))
    m = re.search(r"depth of the complete state graph search is (\d+)", r.stdout)
    if m:
        r.depth = int(m.group(1))
    # per-action coverage: "<Name line a, col b to line c, col d of module M>: x:y"
    for m in re.finditer(r"^<(\w+) line \d+, col \d+ to line \d+, col \d+ of module (\w+)>: (\d+):(\d+)", r.stdout, re.M):
        name = m.group(1)
        r.coverage[name] = r.coverage.get(name, 0) + int(m.group(4))
    m = re.search(r"Invariant (\S+) is violated", r.stdout)
    if m:
        r.violation = m.group(1)
    m = re.search(r"Action property (\S+) is violated|Temporal properties were violated|property (\S+) is violated", r.stdout)
    if m and not r.violation:
        r.violation = m.group(1) or m.group(2) or "temporal"
    if r.violation:
        r.trace = _parse_error_trace(r.stdout)
    if os.path.exists(out_file):
        try:
            with open(out_file) as f:
                r.out = json.load(f)
        except Exception as ex:  # pragma: no cover
            raise MachineryError("cannot read TLC JSON output: %s" % ex)
    bad = ("Parsing or semantic analysis failed" in r.stdout) or ("TLC threw an unexpected exception" in r.stdout) or (
        "Error: " in r.stdout and not r.violation and "Deadlock reached" not in r.stdout
    )
    if bad and not (expect_violation and r.violation):
        lines = [l for l in r.stdout.splitlines() if not re.match(r"(Parsing file|Semantic processing|Linting of|\s*\|*line \d+, col|<\w+ line \d+)", l)]
        first = next((i for i, l in enumerate(lines) if "Error" in l or "rror:" in l), max(0, len(lines) - 40))
        tail = "\n".join(lines[first : first + 40])
        raise MachineryError("TLC failed on %s/%s:\n%s" % (module, cfg, tail))
    if not simulate and not r.violation and "Model checking completed" not in r.stdout:
        tail = "\n".join(r.stdout.splitlines()[-15:])
        raise MachineryError("TLC did not complete on %s/%s (killed?):\n%s" % (module, cfg, tail))
    return r


def _parse_error_trace(out):
    """[(label, args, state)] from TLC's printed counterexample"""
    tr = []
    blocks = re.split(r"^State (\d+): ", out, flags=re.M)
    # blocks = [pre, num, body, num, body ...]
    for k in range(1, len(blocks) - 1, 2):
        body = blocks[k + 1]
        first, _, rest = body.partition("\n")
        lbl = first.strip()
        if lbl.startswith("<") and lbl.endswith(">"):
            lbl = lbl[1:-1]
        lbl = re.sub(r"\s*line \d+, col \d+ to line \d+, col \d+ of module \w+\s*$", "", lbl).strip()
        lines = []
        for ln in rest.split("\n"):
            if ln.startswith("/\\ ") or ln.startswith("  ") or (lines and ln.strip() and not re.match(r"^\d+ states generated|^Error|^The |^Finished|^State ", ln)):
                if ln.strip() == "":
                    break
                lines.append(ln)
            elif ln.strip() == "" and lines:
                break
        try:
            st = parse_state("\n".join(lines))
        except Exception:
            continue
        if lbl.lower().startswith("initial predicate"):
            name, args = "Init", ()
        elif lbl.lower().startswith("stuttering"):
            continue
        else:
            name, args = parse_action_label(lbl)
        tr.append((name, args, st))
    return tr


def sany(module, spec_dir=None):
    spec_dir = spec_dir or SPEC
    pr = subprocess.run(
        ["java", "-cp", JAR, "tla2sany.SANY", module + ".tla"], cwd=spec_dir, capture_output=True, text=True
    )
    ok = pr.returncode == 0 and "*** Errors" not in pr.stdout and "Fatal" not in pr.stdout
    return ok, pr.stdout + pr.stderr


# --------------------------------------------------------------------------
# state-graph dump (dot) and simulate traces
# --------------------------------------------------------------------------
def parse_dot(path):
    """-> (nodes {id: state dict}, edges [(src, dst, (action, args))], init ids)"""
    nodes, edges, inits = {}, [], []
    edge_re = re.compile(r'^(-?\d+) -> (-?\d+) \[label="(.*)",color=')
    with open(path) as f:
        for line in f:
            line = line.rstrip("\n")
            m = edge_re.match(line)
            if m:
                lbl = m.group(3).replace('\\"', '"').replace("\\\\", "\\")
                edges.append((m.group(1), m.group(2), parse_action_label(lbl)))
                continue
            m = re.match(r'^(-?\d+) \[label="(.*?)"(?:,tooltip=".*")?(,style = filled)?\];?\s*$', line)
            if m:
                txt = m.group(2).replace("\\n", "\n").replace('\\"', '"').replace("\\\\", "\\")
                nodes[m.group(1)] = parse_state(txt)
                if m.group(3):
                    inits.append(m.group(1))
    return nodes, edges, inits


def parse_sim_trace(path):
    """One behaviour written by `-simulate file=...`: list of (action, args, state)."""
    txt = open(path).read()
    out = []
    # blocks look like:  \* <Action line .. of module M>  (or with params) \n STATE_n == \n /\ ...
    for m in re.finditer(r"\\\* (.*?)\n(?:STATE_\d+|_?\w+) ==\s*\n((?:.*\n)*?)\n", txt + "\n\n"):
        lbl = m.group(1).strip()
        lbl = re.sub(r"^<|>$", "", lbl)
        lbl = re.sub(r"\s*line \d+, col \d+ to line \d+, col \d+ of module \w+", "", lbl).strip()
        if lbl.lower().startswith("initial predicate") or lbl == "":
            name, args = "Init", ()
        else:
            name, args = parse_action_label(lbl)
        out.append((name, args, parse_state(m.group(2))))
    return out


def parse_dump(path):
    """states written by `-dump <file>` (TLC appends .dump): list of state dicts"""
    if not os.path.exists(path) and os.path.exists(path + ".dump"):
        path = path + ".dump"
    txt = open(path).read()
    out = []
    for blk in re.split(r"^State \d+:\s*$", txt, flags=re.M):
        blk = blk.strip()
        if blk:
            out.append(parse_state(blk))
    return out


# --------------------------------------------------------------------------
# JSON round trip of parsed TLA+ values (replay files)
# --------------------------------------------------------------------------
def to_jsonable(v):
    if isinstance(v, bool) or v is None or isinstance(v, (int, float, str)):
        return v
    if isinstance(v, tuple):
        return {"__tuple__": [to_jsonable(x) for x in v]}
    if isinstance(v, (set, frozenset)):
        return {"__set__": sorted((to_jsonable(x) for x in v), key=repr)}
    if isinstance(v, dict):
        return {"__dict__": [[to_jsonable(k), to_jsonable(x)] for k, x in v.items()]}
    if isinstance(v, list):
        return [to_jsonable(x) for x in v]
    return str(v)


def from_jsonable(v):
    if isinstance(v, list):
        return [from_jsonable(x) for x in v]
    if isinstance(v, dict):
        if "__tuple__" in v:
            return tuple(from_jsonable(x) for x in v["__tuple__"])
        if "__set__" in v:
            return frozenset(from_jsonable(x) for x in v["__set__"])
        if "__dict__" in v:
            d = FD()
            for k, x in v["__dict__"]:
                d[from_jsonable(k)] = from_jsonable(x)
            return d
        return {k: from_jsonable(x) for k, x in v.items()}
    return v
