"""Numeric oracles for C10: Lorentz-invariant phase space by quadrature.

All formulas are written from the definition of n-body phase space
    dPhi_n(M; m_1..m_n) ~ dM_k^2  dPhi_k(M_k; m_1..m_k)  dPhi_{n-k+1}(M; M_k, m_{k+1}..m_n)
    dPhi_2(M; a, b)     ~ q(M, a, b) / M
independently of tf_pwa (numpy only).  Square-root end-point behaviour is
removed by the substitution  mu = lo + (hi - lo) (1 - cos(pi t)) / 2.
"""
import numpy as np

_GL = {}


def gl(n):
    if n not in _GL:
        x, w = np.polynomial.legendre.leggauss(n)
        _GL[n] = ((x + 1) / 2, w / 2)  # on [0, 1]
    return _GL[n]


def q(M, a, b):
    """break-up momentum of M -> a b (0 below threshold)"""
    M = np.asarray(M, dtype=float)
    lam = (M * M - (a + b) ** 2) * (M * M - (a - b) ** 2)
    with np.errstate(divide="ignore", invalid="ignore"):
        r = np.sqrt(np.where(lam > 0, lam, 0.0)) / (2 * M)
    return np.where(M > 0, r, 0.0)


def R(M, masses, G=32):
    """phase-space volume (up to a constant) of M -> masses, vectorised over M; `masses` may contain
    arrays broadcastable against M in the first position only when len(masses) == 2"""
    M = np.asarray(M, dtype=float)
    if len(masses) == 2:
        with np.errstate(divide="ignore", invalid="ignore"):
            return np.where(M > 0, q(M, masses[0], masses[1]) / M, 0.0)
    last = masses[-1]
    rest = masses[:-1]
    lo = float(np.sum(rest))
    hi = M - last
    t, w = gl(G)
    s = (1 - np.cos(np.pi * t)) / 2
    ds = (np.pi / 2) * np.sin(np.pi * t)
    width = np.where(hi > lo, hi - lo, 0.0)
    mu = lo + width[..., None] * s
    inner = R(mu.reshape(-1), rest, G).reshape(mu.shape)
    with np.errstate(divide="ignore", invalid="ignore"):
        f = 2 * mu * inner * np.where(M[..., None] > 0, q(M[..., None], mu, last) / M[..., None], 0.0)
    return np.sum(f * ds * w, axis=-1) * width


def R_first_variable(M0, M, rest, G=32):
    """phase space of M0 -> (M, rest...) as a function of the array M (M is one of the daughters):
    put M last:  R(M0; rest, M) = int dmu 2 mu R(mu; rest) q(M0, mu, M) / M0"""
    M = np.asarray(M, dtype=float)
    if len(rest) == 1:
        return q(M0, M, rest[0]) / M0
    lo = float(np.sum(rest))
    hi = M0 - M
    t, w = gl(G)
    s = (1 - np.cos(np.pi * t)) / 2
    ds = (np.pi / 2) * np.sin(np.pi * t)
    width = np.where(hi > lo, hi - lo, 0.0)
    mu = lo + width[..., None] * s
    inner = R(mu.reshape(-1), list(rest), G).reshape(mu.shape)
    f = 2 * mu * inner * q(M0, mu, M[..., None]) / M0
    return np.sum(f * ds * w, axis=-1) * width


def spectrum_density(M0, sub, rest, M, G=32):
    """density (unnormalised) of the invariant mass M of the particles `sub` in M0 -> sub + rest"""
    M = np.asarray(M, dtype=float)
    a = R(M, list(sub), G) if len(sub) >= 2 else np.ones_like(M)
    b = R_first_variable(M0, M, list(rest), G)
    return 2 * M * a * b


def spectrum_bins(M0, sub, rest, nbins=40, G=32, gpb=10):
    """bin edges (in M) uniform in the substitution variable and their probabilities"""
    lo = float(np.sum(sub))
    hi = M0 - float(np.sum(rest))
    te = np.linspace(0, 1, nbins + 1)
    edges = lo + (hi - lo) * (1 - np.cos(np.pi * te)) / 2
    t, w = gl(gpb)
    tt = te[:-1, None] + (te[1:] - te[:-1])[:, None] * t
    M = lo + (hi - lo) * (1 - np.cos(np.pi * tt)) / 2
    dM = (hi - lo) * (np.pi / 2) * np.sin(np.pi * tt)
    f = spectrum_density(M0, sub, rest, M.reshape(-1), G).reshape(M.shape)
    prob = np.sum(f * dM * w, axis=1) * (te[1:] - te[:-1])
    return edges, prob / prob.sum()


def dalitz_uniform(M0, m1, m2, m3, s12, s23, ngrid=4001):
    """Rosenblatt transform of a flat Dalitz plot onto the unit square.
    u2 = (s23 - lo(s12)) / (hi(s12) - lo(s12));  u1 = F(s12), F the marginal cumulative function
    (density ~ hi - lo = 4 q12 q3 ... computed by quadrature with the cosine substitution)."""
    s12 = np.asarray(s12, dtype=float)
    s23 = np.asarray(s23, dtype=float)
    m12 = np.sqrt(s12)

    def lim(m12):
        e2 = (m12**2 - m1**2 + m2**2) / (2 * m12)
        e3 = (M0**2 - m12**2 - m3**2) / (2 * m12)
        p2 = np.sqrt(np.maximum(e2**2 - m2**2, 0))
        p3 = np.sqrt(np.maximum(e3**2 - m3**2, 0))
        return (e2 + e3) ** 2 - (p2 + p3) ** 2, (e2 + e3) ** 2 - (p2 - p3) ** 2

    lo, hi = lim(m12)
    with np.errstate(divide="ignore", invalid="ignore"):
        u2 = (s23 - lo) / (hi - lo)
    # marginal in m12: density ~ 2 m12 * q(m12; m1, m2)/m12 * q(M0; m12, m3)/M0
    a, b = m1 + m2, M0 - m3
    te = np.linspace(0, 1, ngrid)
    t, w = gl(8)
    tt = te[:-1, None] + (te[1:] - te[:-1])[:, None] * t
    mm = a + (b - a) * (1 - np.cos(np.pi * tt)) / 2
    dm = (b - a) * (np.pi / 2) * np.sin(np.pi * tt)
    f = 2 * mm * (q(mm, m1, m2) / mm) * (q(M0, mm, m3) / M0)
    seg = np.sum(f * dm * w, axis=1) * (te[1:] - te[:-1])
    cum = np.concatenate([[0.0], np.cumsum(seg)])
    cum /= cum[-1]
    # invert the substitution for the data and interpolate the cumulative function (smooth in t)
    x = np.clip((m12 - a) / (b - a), 0, 1)
    tdat = np.arccos(np.clip(1 - 2 * x, -1, 1)) / np.pi
    # cubic-accurate interpolation: integrate the remainder inside the cell with Gauss-Legendre
    k = np.clip((tdat * (ngrid - 1)).astype(int), 0, ngrid - 2)
    t0 = te[k]
    tq = t0[:, None] + (tdat - t0)[:, None] * t
    mq = a + (b - a) * (1 - np.cos(np.pi * tq)) / 2
    dq = (b - a) * (np.pi / 2) * np.sin(np.pi * tq)
    fq = 2 * mq * (q(mq, m1, m2) / mq) * (q(M0, mq, m3) / M0)
    part = np.sum(fq * dq * w, axis=1) * (tdat - t0)
    total = np.sum(seg)
    u1 = cum[k] + part / total
    return u1, u2


def reference_weighted(rng, M0, masses, n):
    """independent weighted n-body mass generator (sorted uniforms): returns the intermediate masses
    M_k of the first k particles (k = 2..n-1) and the weights prod q"""
    masses = np.asarray(masses, dtype=float)
    nb = len(masses)
    Q = M0 - masses.sum()
    r = np.sort(rng.random((n, nb - 2)), axis=1)
    csum = np.cumsum(masses)
    Mk = np.concatenate([np.full((n, 1), masses[0]), csum[1:-1] + r * Q, np.full((n, 1), M0)], axis=1)  # M_1 .. M_n
    wgt = np.ones(n)
    for k in range(1, nb):
        wgt *= q(Mk[:, k], Mk[:, k - 1], masses[k])
    return Mk[:, 1:-1], wgt


def inv_mass2(p):
    p = np.asarray(p)
    return p[..., 0] ** 2 - np.sum(p[..., 1:] ** 2, axis=-1)
