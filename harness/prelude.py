"""Environment prelude for every check process.

* numpy.Inf shim: tf_pwa/fit_improve.py uses np.Inf (removed in NumPy 2), which
  makes tf_pwa.fit / applications / config_loader fail to import in the pinned
  environment.  This is an environment shim of the harness, not a change to
  /repo (DESIGN 1).
* /repo's *current working tree* is what gets imported (pure Python, no build).
"""
import os
import sys
import random

REPO = os.environ.get("REPO_ROOT", "/repo")
if REPO not in sys.path:
    sys.path.insert(0, REPO)
os.environ.setdefault("TF_CPP_MIN_LOG_LEVEL", "3")
os.environ.setdefault("CUDA_VISIBLE_DEVICES", "")

import numpy as np  # noqa: E402

if not hasattr(np, "Inf"):
    np.Inf = np.inf  # noqa: NPY201


def seed_all(seed):
    random.seed(seed)
    np.random.seed(seed % (2**32))
    try:
        import tensorflow as tf

        tf.random.set_seed(seed)
    except Exception:  # pragma: no cover
        pass


def import_tf_quiet():
    import logging
    import warnings

    warnings.filterwarnings("ignore")
    logging.getLogger("tensorflow").setLevel(logging.ERROR)
    import tensorflow as tf

    try:
        tf.get_logger().setLevel("ERROR")
    except Exception:
        pass
    return tf
