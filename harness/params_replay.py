"""B1 binding for spec/Params.tla: drive a real tf_pwa VarsManager along
behaviours of the specification, compare the property-relevant projection
after every step and evaluate the observers of C16 on the real object
(independently of the specification state)."""
import math
import warnings

import numpy as np

HALF_PI = math.pi / 2
LO, HI = 0, 3
BOUND_FUNC = "x+1"
TOL = 1e-9


class Ambiguous(Exception):
    """the phase of a complex parameter of modulus zero is not determined (atan2(0, -0.0) = pi):
    the behaviour is not followed further (neither a violation nor a machinery failure)"""


class Drift(Exception):
    """the real object cannot be put on the model's lattice (machinery, not violation)"""


class Replayer:
    def __init__(self, real_seq, cplx_seq):
        self.reals = list(real_seq)
        self.cplx = list(cplx_seq)
        self.names = list(self.reals)
        for z in self.cplx:
            self.names += [z + "r", z + "i"]
        self.comp_head = {}
        for z in self.cplx:
            self.comp_head[z + "r"] = z
            self.comp_head[z + "i"] = z
        self.vm = None
        self.mask_cm = None

    # ---- construction -----------------------------------------------------
    def build(self, st0):
        from tf_pwa.variable import VarsManager

        vm = VarsManager(name="", dtype="float64")
        pol0 = dict(st0["polar"]) if st0["polar"] else {}
        for n in self.reals:
            vm.add_real_var(n, value=float(st0["store"][n]))
        for z in self.cplx:
            vm.add_complex_var(z, polar=bool(pol0[z]))
        self.vm = vm
        self.mask_cm = None
        # creation leaves random values in complex components: put them on the lattice
        self.sync_values(st0)
        return vm

    def is_phase(self, name, polar):
        return name in self.comp_head and name.endswith("i") and bool(polar[self.comp_head[name]])

    def to_float(self, name, v, polar):
        return v * HALF_PI if self.is_phase(name, polar) else float(v)

    def sync_values(self, st):
        """write the model's cell values into the real variables (not a library call)"""
        pol = dict(st["polar"]) if st["polar"] else {}
        for n in self.names:
            c = st["cell"][n]
            self.vm.variables[n].assign(self.to_float(n, st["store"][c], pol))

    # ---- save / restore of the real object (harness-level, not library calls) ----
    def save(self):
        vm = self.vm
        objs = {id(v): v for v in vm.variables.values()}
        return {
            "variables": dict(vm.variables),
            "values": {k: (v, float(v.numpy()), getattr(v, "_trainable", True)) for k, v in objs.items()},
            "trainable_vars": list(vm.trainable_vars),
            "complex_vars": dict(vm.complex_vars),
            "same_list": [list(g) for g in vm.same_list],
            "bnd_dic": dict(vm.bnd_dic),
            "mask_vars": dict(vm.mask_vars),
            "init_val": dict(vm.init_val),
            "polar": vm.polar,
            "mask_args": getattr(self, "mask_args", None) if self.mask_cm is not None else None,
        }

    def restore(self, sv):
        vm = self.vm
        vm.variables = dict(sv["variables"])
        for k, (v, x, tr) in sv["values"].items():
            v.assign(x)
            try:
                v._trainable = tr
            except Exception:
                pass
        vm.trainable_vars = list(sv["trainable_vars"])
        vm.complex_vars = dict(sv["complex_vars"])
        vm.same_list = [list(g) for g in sv["same_list"]]
        vm.bnd_dic = dict(sv["bnd_dic"])
        vm.init_val = dict(sv["init_val"])
        vm.polar = sv["polar"]
        if sv["mask_args"] is not None:
            # a generator-based context manager can be left only once: re-enter it
            vm.mask_vars = {}
            self.mask_args = dict(sv["mask_args"])
            self.mask_cm = vm.mask_params(dict(self.mask_args))
            self.mask_cm.__enter__()
        else:
            vm.mask_vars = dict(sv["mask_vars"])
            self.mask_cm = None

    # ---- projection -------------------------------------------------------
    def snapshot(self):
        vm = self.vm
        with warnings.catch_warnings():
            warnings.simplefilter("ignore")
            vals = {n: float(vm.get(n, val_in_fit=False)) for n in self.names}
            reads = {k: float(v) for k, v in vm.get_all_dic().items()}
            free = list(vm.trainable_vars)
            polar = {z: vm.complex_vars[z] for z in self.cplx}
            # tie classes observed by perturbation through the public API
            classes = []
            seen = set()
            for n in self.names:
                if n in seen:
                    continue
                old = vals[n]
                probe = old + 0.123456
                vm.variables[n].assign(probe)
                cls = [m for m in self.names if abs(float(vm.get(m, val_in_fit=False)) - probe) < 1e-12 and (m == n or abs(vals[m] - probe) > 1e-12)]
                vm.variables[n].assign(old)
                classes.append(frozenset(cls))
                seen |= set(cls)
            cvals = {}
            for z in self.cplx:
                a, b = vals[z + "r"], vals[z + "i"]
                cvals[z] = complex(a * math.cos(b), a * math.sin(b)) if polar[z] else complex(a, b)
            # what the amplitude code reads: ONE shaped complex tf_pwa Variable whose components are the complex
            # parameters of this model (a facade over the same manager: no variable is created)
            varcall = {}
            if self.cplx:
                from tf_pwa.variable import Variable

                fac = Variable.__new__(Variable)
                fac.vm, fac.name, fac.shape, fac.cplx, fac.cp_effect = vm, "facade", [len(self.cplx)], True, False
                fac.all_name_list = [z + c for z in self.cplx for c in "ri"]
                got = [complex(x) for x in fac().numpy().reshape(-1)]
                varcall = dict(zip(self.cplx, got))
            return {
                "vals": vals,
                "reads": reads,
                "free": free,
                "polar": polar,
                "classes": frozenset(classes),
                "cls_of": {m: c for c in classes for m in c},
                "cvals": cvals,
                "varcall": varcall,
                "bnd": set(vm.bnd_dic),
                "mask": dict(vm.mask_vars),
                "same": [list(g) for g in vm.same_list],
            }

    def lattice(self, snap):
        out = {}
        for n, x in snap["vals"].items():
            if n in self.comp_head and n.endswith("i") and snap["polar"][self.comp_head[n]]:
                k = x / HALF_PI
                kr = round(k)
                if abs(k - kr) > 1e-6:
                    out[n] = None
                else:
                    out[n] = ("phase", kr % 4)
            else:
                kr = round(x)
                out[n] = ("val", kr) if abs(x - kr) < 1e-6 else None
        return out

    @staticmethod
    def model_lattice(st, names, comp_head):
        pol = dict(st["polar"]) if st["polar"] else {}
        out = {}
        for n in names:
            v = st["store"][st["cell"][n]]
            if n in comp_head and n.endswith("i") and pol[comp_head[n]]:
                out[n] = ("phase", v % 4)
            else:
                out[n] = ("val", v)
        return out

    def compare(self, snap, st):
        """property-relevant projection: impl vs model; returns list of differences"""
        diffs = []
        ml = self.model_lattice(st, self.names, self.comp_head)
        il = self.lattice(snap)
        for n in self.names:
            if il[n] != ml[n]:
                if n in self.comp_head and n.endswith("i") and il[n] is not None and il[n][0] == "phase":
                    z = self.comp_head[n]
                    if abs(snap["vals"][z + "r"]) < 1e-12 and ml[z + "r"] == ("val", 0):
                        raise Ambiguous("phase of %s at zero modulus" % z)
                diffs.append("value of %s: impl %s model %s" % (n, il[n], ml[n]))
        if set(snap["free"]) != set(st["free"]) or len(snap["free"]) != len(st["free"]):
            diffs.append("free names: impl %s model %s" % (sorted(snap["free"]), sorted(st["free"])))
        mcls = {}
        for n in self.names:
            mcls.setdefault(st["cell"][n], set()).add(n)
        if frozenset(frozenset(c) for c in mcls.values()) != snap["classes"]:
            diffs.append("tie classes: impl %s model %s" % (sorted(map(sorted, snap["classes"])), sorted(map(sorted, mcls.values()))))
        pol = dict(st["polar"]) if st["polar"] else {}
        for z in self.cplx:
            if bool(snap["polar"][z]) != bool(pol[z]):
                diffs.append("polar flag of %s: impl %s model %s" % (z, snap["polar"][z], pol[z]))
        mb = {n for n in self.names if st["bnd"][n]}
        if mb != snap["bnd"]:
            diffs.append("bound names: impl %s model %s" % (sorted(snap["bnd"]), sorted(mb)))
        mm = {n: v for n, v in st["mask"].items() if v != "None"}
        if set(mm) != set(snap["mask"]):
            diffs.append("mask names: impl %s model %s" % (sorted(snap["mask"]), sorted(mm)))
        return diffs

    # ---- one step ---------------------------------------------------------
    def apply(self, action, args, pre):
        vm = self.vm
        pol = dict(pre["polar"]) if pre["polar"] else {}
        f = lambda n, v: self.to_float(n, v, pol)
        with warnings.catch_warnings():
            warnings.simplefilter("ignore")
            if action == "SetFix":
                n, v = args
                vm.set_fix(n, value=f(n, v))
            elif action == "SetFixCurrent":
                vm.set_fix(args[0])
            elif action == "Unfix":
                vm.set_fix(args[0], unfix=True)
            elif action == "SetSame":
                vm.set_same(list(args[0]), cplx=bool(args[1]))
            elif action == "SetShareR":
                vm.set_share_r(list(args[0]))
            elif action == "SetBound":
                vm.set_bound({args[0]: (LO, HI)}, func=BOUND_FUNC)
            elif action == "RemoveBound":
                vm.remove_bound()
            elif action == "Set":
                n, v, infit = args
                vm.set(n, f(n, v), val_in_fit=bool(infit))
            elif action == "WriteBack":
                vm.set_all(vm.get_all_dic())
            elif action == "SetAllListAt":
                i, v, infit = args
                name = pre["free"][i - 1]
                xs = [float(x) for x in vm.get_all_val(bool(infit))]
                xs[vm.trainable_vars.index(name)] = f(name, v)
                vm.set_all(xs, val_in_fit=bool(infit))
            elif action == "SetTransVarAt":
                i, v = args
                name = pre["free"][i - 1]
                xs = [float(x) for x in vm.get_all_val(True)]
                xs[vm.trainable_vars.index(name)] = f(name, v)
                vm.set_trans_var(xs)
            elif action == "Refresh":
                vm.refresh_vars()
            elif action == "Rp2xy":
                vm.rp2xy(args[0])
            elif action == "Xy2rp":
                vm.xy2rp(args[0])
            elif action == "Rp2xyAll":
                vm.rp2xy_all()
            elif action == "Xy2rpAll":
                vm.xy2rp_all()
            elif action == "StdPolar":
                vm.std_polar(args[0])
            elif action == "StdPolarAll":
                vm.std_polar_all()
            elif action == "StandardComplex":
                vm.standard_complex()
            elif action == "MaskEnter":
                n, v = args
                self.mask_args = {n: f(n, v)}
                self.mask_cm = vm.mask_params(dict(self.mask_args))
                self.mask_cm.__enter__()
            elif action == "MaskExit":
                self.mask_cm.__exit__(None, None, None)
                self.mask_cm = None
            else:
                raise Drift("unknown action %s" % action)

    # ---- observers of C16 on the real object ------------------------------
    def observe(self, action, args, before, after, pre_model):
        """returns list of (observer, message)"""
        out = []
        names = self.names

        def fixed(snap, n):
            return not any(m in snap["free"] for m in snap["cls_of"][n])

        coord = action in ("Rp2xy", "Xy2rp", "Rp2xyAll", "Xy2rpAll", "StdPolar", "StdPolarAll", "StandardComplex")
        tie = action in ("SetSame", "SetShareR")
        masked = bool(before["mask"])
        # O1 a fixed parameter changes only when explicitly assigned
        assigned = set()
        if action in ("Set", "SetFix"):
            assigned = set(before["cls_of"][args[0]])
        for n in names:
            if fixed(before, n) and fixed(after, n) and abs(before["vals"][n] - after["vals"][n]) > TOL:
                if n in assigned or tie or (coord and n in self.comp_head) or (action == "WriteBack" and masked):
                    continue
                out.append(("FixedOnlyExplicit", "%s: %r -> %r" % (n, before["vals"][n], after["vals"][n])))
        # O2 tied parameters read the same value
        for g in after["same"]:
            mem = []
            for x in g:
                mem.append([x + "r", x + "i"] if x in self.cplx else [x])
            width = len(mem[0])
            for k in range(width):
                col = [m[k] for m in mem if len(m) > k and m[k] in after["vals"]]
                vals = [after["vals"][m] for m in col]
                if vals and max(vals) - min(vals) > TOL:
                    out.append(("TiedEqual", "group %s reads %s" % (g, dict(zip(col, vals)))))
        # O3 tied parameters count once among the free parameters
        cells = [after["cls_of"][n] for n in after["free"]]
        if len(set(cells)) != len(cells) or len(set(after["free"])) != len(after["free"]):
            out.append(("TiedCountOnce", "free list %s has two names of one tie class" % after["free"]))
        if action == "SetSame" and not args[1]:
            a, b = args[0][0], args[0][1]
            if not fixed(before, a) and not fixed(before, b) and (fixed(after, a) or fixed(after, b)):
                out.append(("TieKeepsFree", "tie of free %s, %s left one of them uncounted/fixed" % (a, b)))
            # every name of the merged group follows
        # O4 reading everything and writing it back changes nothing
        if action == "WriteBack" and not masked:
            for n in names:
                if abs(before["vals"][n] - after["vals"][n]) > TOL or abs(before["reads"][n] - after["reads"][n]) > TOL:
                    out.append(("ReadWriteIdentity", "%s: %r -> %r" % (n, before["vals"][n], after["vals"][n])))
        # O5' the value a (shaped) complex Variable hands to the amplitude is the complex value of each component in
        #     that component's own coordinate form (mask-aware reads)
        for z in self.cplx:
            a, b = after["reads"][z + "r"], after["reads"][z + "i"]
            want = complex(a * math.cos(b), a * math.sin(b)) if after["polar"][z] else complex(a, b)
            got = after.get("varcall", {}).get(z)
            if got is not None and abs(got - want) > 1e-9 * max(1.0, abs(want)):
                out.append(("ComplexPreserved", "Variable() gives %r for component %s whose stored complex value is %r" % (got, z, want)))
        # O5 coordinate changes preserve the complex value
        if coord:
            for z in self.cplx:
                if abs(before["cvals"][z] - after["cvals"][z]) > 1e-9 * max(1.0, abs(before["cvals"][z])):
                    out.append(("ComplexPreserved", "%s: %r -> %r" % (z, before["cvals"][z], after["cvals"][z])))
        # O6 standard form
        std = []
        if action == "StdPolar":
            std = [args[0]]
        elif action == "StdPolarAll":
            std = list(self.cplx)
        for z in std:
            shared = any((z + "r") in g or (z + "i") in g for g in before["same"])
            if not before["polar"][z] and shared:
                continue  # a Cartesian parameter with a tied component cannot be standardised
            if action == "StdPolarAll" and shared:
                continue  # parameters with a tied radius / phase cannot all be standard at once
            r, p = after["vals"][z + "r"], after["vals"][z + "i"]
            if not after["polar"][z] or r < -1e-12 or p < -math.pi - 1e-12 or not (p < math.pi):
                out.append(("StandardForm", "%s: polar=%s r=%r phi=%r" % (z, after["polar"][z], r, p)))
        # O7 refresh touches trainable names only and honours initial values
        if action == "Refresh":
            for n in names:
                if fixed(before, n) and abs(before["vals"][n] - after["vals"][n]) > TOL:
                    out.append(("FixedOnlyExplicit", "refresh changed fixed %s" % n))
        return out


def fmt_step(action, args):
    def f(a):
        if isinstance(a, tuple):
            return "[" + ",".join(f(x) for x in a) + "]"
        if isinstance(a, bool):
            return "T" if a else "F"
        return str(a)

    return "%s(%s)" % (action, ",".join(f(a) for a in args))


def run_path(rep, path, on_fail, cleanup=True):
    """path: [(action, args, state)] starting with ('Init', (), st0).
    on_fail(kind, observer, step_index, message); returns False when the walk must stop"""
    st0 = path[0][2]
    rep.build(st0)
    snap = rep.snapshot()
    d = rep.compare(snap, st0)
    if d:
        raise Drift("initial state cannot be reproduced: %s" % d)
    pre = st0
    for i in range(1, len(path)):
        action, args, st = path[i]
        before = snap
        try:
            rep.apply(action, args, pre)
        except Drift:
            raise
        except Exception as e:
            on_fail("exception", "Exception", i, "%s raised %r" % (fmt_step(action, args), e))
            return False
        if action == "Refresh":
            mid = rep.snapshot()
            for ob, msg in rep.observe(action, args, before, mid, pre):
                on_fail("observer", ob, i, msg)
            rep.sync_values(st)
            snap = rep.snapshot()
            pre = st
            continue
        snap = rep.snapshot()
        fails = rep.observe(action, args, before, snap, pre)
        for ob, msg in fails:
            on_fail("observer", ob, i, msg)
        try:
            diffs = rep.compare(snap, st)
        except Ambiguous:
            rep.ambiguous = getattr(rep, "ambiguous", 0) + 1
            return False
        if diffs:
            on_fail("projection", "Projection", i, "; ".join(diffs[:3]))
            return False
        if fails:
            return False
        pre = st
    if cleanup and rep.mask_cm is not None:
        try:
            rep.mask_cm.__exit__(None, None, None)
        except Exception:
            pass
        rep.mask_cm = None
    return True
