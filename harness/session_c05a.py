"""C05 part (a): the id cache / compiled graph of AbsPDF inside spec/Session.tla.

Invariant CompiledEqualsEager (split per frozen field: CompiledActive,
CompiledPolar, CompiledMask, CompiledMaskFactor): whenever amp(data) would take
the compiled path, the graph was traced in the Python-level state that is
current now.  TLC checks it over all session histories; counterexamples and
graph/simulated behaviours containing density calls are replayed on a real
model built with use_tf_function: True, where amp(data) must equal the eager
amp.pdf(data) after every step.
"""
import glob
import os
import random
import time

import numpy as np

from . import tlc
from . import session_driver as sd
from .session_replay import SessionReplayer

FIELDS = {"CompiledActive": "active", "CompiledPolar": "polar", "CompiledMask": "maskv", "CompiledMaskFactor": "maskFactor"}


def stale_fields(st):
    """which frozen fields differ between a traced graph and the current model state"""
    g = st.get("graph")
    if not g:
        return []
    m = st["m"]
    cur = {"active": frozenset(m["sel"]), "polar": m["polar"], "maskv": m["maskv"], "maskFactor": m["maskFactor"]}
    out = set()
    for snap in g:
        out |= {k for k in cur if snap[k] != cur[k]}
    return sorted(out)


def run(ctx):
    quick = ctx.tier == "quick"
    rng = random.Random(ctx.seed + 5)
    rep = SessionReplayer(True, ctx.seed % 1000 + 11)
    found = {}

    def record(path, o):
        for ob, idx, msg in o.fails:
            if ob == "Machinery":
                raise tlc.MachineryError(msg)
            if ob != "CompiledEqualsEager":
                continue
            st_before = path[idx - 1][2]
            fields = stale_fields(st_before) or ["unexplained"]
            key = "compiled_graph:stale=" + "+".join(fields)
            h = sd.history(path, idx)
            cur = found.get(key)
            if cur is None or (len(h.split(";")), h) < (len(cur["history"].split(";")), cur["history"]):
                found[key] = {"observer": ob, "history": h, "message": msg, "stale_fields": fields}

    # 1. the invariant on the model, one run per frozen field
    depth = 6 if quick else 7
    n_cex = 0
    for inv, field in FIELDS.items():
        r = sd.run_tlc(ctx, "c05a_%s" % inv, depth, 2, [inv], coverage=(inv == "CompiledActive"))
        ctx.tlc(r, "Session %s depth %d" % (inv, depth), vacuity_actions=["Call"] if (inv == "CompiledActive" and not r.violation) else None)
        if r.violation:
            n_cex += 1
            # extend the counterexample by the density call that takes the compiled path
            path = list(r.trace) + [("Call", (), r.trace[-1][2])]
            o = sd.execute(rep, path)
            ctx.log("model violates %s: %s -> real code: %s" % (inv, sd.history(path, len(path) - 1), o.fails[:1]))
            if not any(ob == "CompiledEqualsEager" for ob, _, _ in o.fails):
                raise tlc.MachineryError("counterexample of %s does not reproduce on the real model (use_tf_function): %s" % (inv, sd.history(path, len(path) - 1)))
            record(path, o)
            ctx.count(1, distinct_key=("c05a_cex", inv))
    ctx.part("c05a_model", invariants=len(FIELDS), design_level_counterexamples=n_cex)

    # 2. behaviours with at least two density calls from the exhaustive graph (shortest prefixes)
    from .checks.c17 import bfs_paths

    dot = os.path.join(ctx.work, "session_c05a.dot")
    gdepth = 4 if quick else 5
    r = sd.run_tlc(ctx, "c05a_graph", gdepth, 1, [], dump_dot=dot)
    ctx.tlc(r, "Session graph (calls) depth %d" % gdepth)
    nodes, edges, inits = tlc.parse_dot(dot)
    os.remove(dot)
    out, order, path_to = bfs_paths(nodes, edges, inits)
    cand = []
    for u in order:
        if not nodes[u]["seen"]:
            continue
        for v, lab in out.get(u, []):
            if lab[0] == "Call":
                cand.append((u, v, lab))
    total = len(cand)
    budget = 40 if quick else 600
    if len(cand) > budget:
        # stratified: group the density calls by which frozen fields an earlier trace differs in
        # (the situations in which a stale graph could be reused) so that each kind is replayed
        groups = {}
        for e in cand:
            st = nodes[e[0]]
            key = (tuple(stale_fields(st)), bool(st["m"]["notFull"]), tuple(f["kind"] for f in st["stack"]))
            groups.setdefault(key, []).append(e)
        keys = sorted(groups, key=lambda k: (-len(k[0]), repr(k)))
        for k in keys:
            rng.shuffle(groups[k])
        picked = []
        while len(picked) < budget and any(groups[k] for k in keys):
            for k in keys:
                if groups[k] and len(picked) < budget:
                    picked.append(groups[k].pop())
        cand = picked
    t0 = time.time()
    ncalls = 0
    ncompiled = 0
    for u, v, lab in cand:
        path = path_to(u) + [(lab[0], lab[1], nodes[v])]
        # make sure the data set is registered and traced before the history under test: prefix two calls
        o = sd.execute(rep, path)
        record(path, o)
        ncalls += o.calls
        ncompiled += o.compiled_calls
    ctx.part("c05a_graph_walk", states=len(nodes), call_edges=total, replayed=len(cand), density_calls=ncalls, calls_with_traced_graph=ncompiled, wall_s=round(time.time() - t0, 1))
    ctx.count(len(cand), distinct_key="c05a_graph")

    # 3. simulated behaviours
    simdir = os.path.join(ctx.work, "sim_c05a")
    os.makedirs(simdir, exist_ok=True)
    p = os.path.join(ctx.work, "session_sim_c05a.cfg")
    with open(p, "w") as f:
        f.write(sd.cfg_text(3, (1, 2), 16, 2, [], view=False))
    nsim = 25 if quick else 400
    tlc.run("Session", p, work=ctx.work, workers=1, timeout=900, simulate="file=%s/tr,num=%d" % (simdir, nsim), depth=17, seed=(ctx.seed + 3) % 100000, coverage=False)
    k = 0
    for fn in sorted(glob.glob(simdir + "/tr*")):
        path = tlc.parse_sim_trace(fn)
        if sum(1 for a, _, _ in path if a == "Call") < 2:
            continue
        o = sd.execute(rep, path)
        record(path, o)
        k += 1
        ncalls += o.calls
    ctx.part("c05a_simulated", behaviours=k, density_calls=ncalls)
    ctx.count(k, distinct_key="c05a_sim")
    if ncompiled == 0:
        raise tlc.MachineryError("no replayed density call reached the compiled path")
    for key, d in sorted(found.items()):
        ctx.violation(key, d)
    ctx.sample({"c05a_behaviour": sd.history(path_to(cand[0][0]), len(path_to(cand[0][0])) - 1) + ";Call()"} if cand else {})
    ctx.assume("part (a): compiled graph observed through amp(data) vs amp.pdf(data) on 6 probe events, model built with use_tf_function: True")
