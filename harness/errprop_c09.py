"""Helpers of check C09: expression trees of spec/ErrProp.tla in Python.

A tree is the JSON image of the TLA+ node <<tag, left, right, param>>
(lists; absent children are []).  One generic walker evaluates a tree over a
"backend": the real NumberError, exact dual numbers over Fractions (an
independent re-implementation of the TLC oracle, compared with it entry by
entry), float dual numbers (reference for transcendental trees), plain floats
(finite differences) and TensorFlow tensors (params_trans).
"""
import math
from fractions import Fraction

import numpy as np


# ---------------------------------------------------------------------------
# the functions handed to cal_err (same as in spec/ErrProp.tla)
def f1(x):
    return x * 3.0 + x * x * 2.0 + 1.0


def f1_exact(x):
    return x * 3 + x * x * 2 + 1


def f1_grad(x):
    return [3.0 + 4.0 * x]


def g2(x, y):
    return x + y + (x - y) * (x + y)


def g2_grad(x, y):
    return [1.0 + 2.0 * x, 1.0 - 2.0 * y]


def frac(p, i=0):
    return Fraction(int(p[i]), int(p[i + 1]))


def n_leaves(t):
    if not t:
        return 0
    if t[0] == "U":
        return 1
    return n_leaves(t[1]) + n_leaves(t[2])


def leaf_list(t):
    if not t:
        return []
    if t[0] == "U":
        return [t[3]]
    return leaf_list(t[1]) + leaf_list(t[2])


def depth(t):
    if not t:
        return -1
    if t[0] == "U":
        return 0
    return 1 + max(depth(t[1]), depth(t[2]))


def subtrees(t):
    """post-order list of all proper and improper subtrees"""
    if not t:
        return []
    if t[0] == "U":
        return [t]
    return subtrees(t[1]) + subtrees(t[2]) + [t]


TRANS_TAGS = ("exp", "log", "powh", "powu", "rpow", "sqrtfd", "sin")
REFL = {"radd": "+", "rsub": "-", "rmul": "*", "rdiv": "/"}


def is_transcendental(t):
    if not t:
        return False
    return t[0] in TRANS_TAGS or is_transcendental(t[1]) or is_transcendental(t[2])


# ---------------------------------------------------------------------------
# generic walker
def walk(t, B):
    tag, L, R, P = t
    if tag == "U":
        return B.leaf(P)
    if tag == "neg":
        return -walk(L, B)
    if tag in ("add", "sub", "mul", "div"):
        a = walk(L, B)
        b = walk(R, B)
        if tag == "add":
            return a + b
        if tag == "sub":
            return a - b
        if tag == "mul":
            return a * b
        return a / b
    if tag in ("addc", "subc", "mulc", "divc"):
        a = walk(L, B)
        c = B.const(P)
        if tag == "addc":
            return a + c
        if tag == "subc":
            return a - c
        if tag == "mulc":
            return a * c
        return a / c
    if tag in REFL:
        b = walk(R, B)
        c = B.const(P)
        if tag == "radd":
            return c + b
        if tag == "rsub":
            return c - b
        if tag == "rmul":
            return c * b
        return c / b
    if tag == "powc":
        return walk(L, B) ** int(P[0])
    if tag == "apply":
        return B.apply_pow(walk(L, B), int(P[0]))
    if tag == "cal1":
        return B.cal(1, [walk(L, B)])
    if tag == "cal2":
        a = walk(L, B)
        b = walk(R, B)
        return B.cal(2, [a, b])
    if tag == "cal2c":
        return B.cal(2, [walk(L, B), B.const(P)])
    if tag == "cal2l":
        return B.cal(2, [B.const(P), walk(R, B)])
    if tag == "exp":
        return B.exp(walk(L, B))
    if tag == "log":
        return B.log(walk(L, B))
    if tag == "powh":
        return B.powreal(walk(L, B), int(P[0]) / int(P[1]))
    if tag == "powu":
        a = walk(L, B)
        b = walk(R, B)
        return a**b
    if tag == "rpow":
        b = walk(R, B)
        return B.const(P) ** b
    if tag == "sqrtfd":
        return B.sqrt(walk(L, B))
    if tag == "sin":
        return B.sin(walk(L, B))
    raise ValueError("unknown tag %r" % (tag,))


# ---------------------------------------------------------------------------
# dual numbers (value, gradient with respect to every leaf)
class Dual(object):
    __slots__ = ("v", "g")

    def __init__(self, v, g):
        self.v = v
        self.g = g

    def _lift(self, o):
        if isinstance(o, Dual):
            return o
        return Dual(o, [0] * len(self.g))

    def __neg__(self):
        return Dual(-self.v, [-x for x in self.g])

    def __add__(self, o):
        o = self._lift(o)
        return Dual(self.v + o.v, [x + y for x, y in zip(self.g, o.g)])

    __radd__ = __add__

    def __sub__(self, o):
        o = self._lift(o)
        return Dual(self.v - o.v, [x - y for x, y in zip(self.g, o.g)])

    def __rsub__(self, o):
        return self._lift(o) - self

    def __mul__(self, o):
        o = self._lift(o)
        return Dual(self.v * o.v, [x * o.v + self.v * y for x, y in zip(self.g, o.g)])

    __rmul__ = __mul__

    def __truediv__(self, o):
        o = self._lift(o)
        d = o.v * o.v
        return Dual(self.v / o.v, [(x * o.v - self.v * y) / d for x, y in zip(self.g, o.g)])

    def __rtruediv__(self, o):
        return self._lift(o) / self

    def __pow__(self, o):
        if isinstance(o, int):
            if o >= 0:
                k = self.v ** (o - 1) if o >= 1 else 0
                return Dual(self.v**o, [o * k * x for x in self.g])
            inv = Dual(1, [0] * len(self.g)) / self
            return inv ** (-o)
        if isinstance(o, Dual):  # a^b = exp(b ln a), float only
            val = self.v**o.v
            la = math.log(self.v)
            return Dual(val, [val * (o.v / self.v * x + la * y) for x, y in zip(self.g, o.g)])
        val = self.v**o  # real exponent
        return Dual(val, [o * self.v ** (o - 1) * x for x in self.g])

    def __rpow__(self, c):  # c ** self
        val = c**self.v
        lc = math.log(c)
        return Dual(val, [val * lc * x for x in self.g])


class DualBackend(object):
    """exact=True: Fractions (rational trees only); exact=False: floats"""

    def __init__(self, n, exact):
        self.n = n
        self.exact = exact
        self.i = 0

    def leaf(self, P):
        v = frac(P, 0)
        g = [0] * self.n
        g[self.i] = 1
        self.i += 1
        if not self.exact:
            v = float(v)
            g = [float(x) for x in g]
        return Dual(v, g)

    def const(self, P):
        c = frac(P, 0)
        return c if self.exact else float(c)

    def apply_pow(self, a, n):
        return a**n

    def cal(self, which, args):
        if which == 1:
            x = args[0]
            return x * 3 + x * x * 2 + 1
        x, y = args
        return x + y + (x - y) * (x + y)

    def exp(self, a):
        v = math.exp(a.v)
        return Dual(v, [v * x for x in a.g])

    def log(self, a):
        return Dual(math.log(a.v), [x / a.v for x in a.g])

    def powreal(self, a, e):
        return a**e

    def sqrt(self, a):
        v = math.sqrt(a.v)
        return Dual(v, [x / (2 * v) for x in a.g])

    def sin(self, a):
        return Dual(math.sin(a.v), [math.cos(a.v) * x for x in a.g])


def exact_ref(t):
    """(value, Ref = sum g_k^2 sigma_k^2, gradient) as Fractions"""
    n = n_leaves(t)
    d = walk(t, DualBackend(n, True))
    ls = leaf_list(t)
    ref = sum((g * g * frac(p, 2) ** 2 for g, p in zip(d.g, ls)), Fraction(0))
    return d.v, ref, d.g


def float_ref(t):
    """(value, sigma, gradient) in floats via dual numbers"""
    n = n_leaves(t)
    d = walk(t, DualBackend(n, False))
    ls = leaf_list(t)
    var = sum(g * g * float(frac(p, 2)) ** 2 for g, p in zip(d.g, ls))
    return d.v, math.sqrt(var), d.g


class FloatBackend(object):
    """plain floats; leaves read from a vector (finite differences)"""

    def __init__(self, x):
        self.x = x
        self.i = 0

    def leaf(self, P):
        v = self.x[self.i]
        self.i += 1
        return v

    def const(self, P):
        return float(frac(P, 0))

    def apply_pow(self, a, n):
        return a**n

    def cal(self, which, args):
        return f1(*args) if which == 1 else g2(*args)

    def exp(self, a):
        return math.exp(a)

    def log(self, a):
        return math.log(a)

    def powreal(self, a, e):
        return a**e

    def sqrt(self, a):
        return math.sqrt(a)

    def sin(self, a):
        return math.sin(a)


def richardson_grad(f, x0, rel_step=2e-4):
    """central differences with steps h and h/2, Richardson-extrapolated;
    returns (gradient, disagreement of the two step sizes)"""
    x0 = np.asarray(x0, dtype=float)
    g = np.zeros(len(x0))
    dis = np.zeros(len(x0))
    for i in range(len(x0)):
        h = rel_step * max(abs(x0[i]), 0.1)

        def cd(hh):
            xp = x0.copy()
            xm = x0.copy()
            xp[i] += hh
            xm[i] -= hh
            return (f(xp) - f(xm)) / (2 * hh)

        d1 = cd(h)
        d2 = cd(h / 2)
        g[i] = (4 * d2 - d1) / 3
        dis[i] = abs(d1 - d2)
    return g, dis


def fd_ref(t):
    """numeric first-order reference: (sigma, gradient, max step disagreement)"""
    ls = leaf_list(t)
    x0 = [float(frac(p, 0)) for p in ls]

    def f(x):
        v = walk(t, FloatBackend(x))
        if isinstance(v, complex):
            raise ValueError("complex")
        return v

    g, dis = richardson_grad(f, x0)
    var = sum(gi * gi * float(frac(p, 2)) ** 2 for gi, p in zip(g, ls))
    return math.sqrt(var), g, float(dis.max()) if len(dis) else 0.0


# ---------------------------------------------------------------------------
class NEBackend(object):
    """the real tf_pwa.err_num.NumberError / cal_err"""

    def __init__(self, NumberError, cal_err, fd=False, int_consts=False):
        self.NE = NumberError
        self.cal_err = cal_err
        self.fd = fd  # numeric gradients inside cal_err / apply
        self.int_consts = int_consts

    def leaf(self, P):
        return self.NE(float(frac(P, 0)), float(frac(P, 2)))

    def const(self, P):
        c = frac(P, 0)
        if self.int_consts and c.denominator == 1:
            return int(c)
        return float(c)

    def apply_pow(self, a, n):
        if self.fd:
            return a.apply(lambda x: x**n)
        return a.apply(lambda x: x**n, lambda x: n * x ** (n - 1))

    def cal(self, which, args):
        if which == 1:
            return self.cal_err(f1, *args, grad=None if self.fd else f1_grad)
        return self.cal_err(g2, *args, grad=None if self.fd else g2_grad)

    def exp(self, a):
        return a.exp()

    def log(self, a):
        return a.log()

    def powreal(self, a, e):
        return a**e

    def sqrt(self, a):
        return a.apply(math.sqrt)

    def sin(self, a):
        return a.apply(math.sin, math.cos)


def py_expr(t):
    """a python expression that rebuilds the tree with NumberError (for repros)"""
    tag, L, R, P = t

    def c(p):
        f = frac(p, 0)
        return repr(float(f)) if f.denominator != 1 else "%d.0" % f.numerator if f >= 0 else "(%d.0)" % f.numerator

    if tag == "U":
        return "NumberError(%r, %r)" % (float(frac(P, 0)), float(frac(P, 2)))
    if tag == "neg":
        return "(-%s)" % py_expr(L)
    sym = {"add": "+", "sub": "-", "mul": "*", "div": "/", "addc": "+", "subc": "-", "mulc": "*", "divc": "/"}
    if tag in ("add", "sub", "mul", "div"):
        return "(%s %s %s)" % (py_expr(L), sym[tag], py_expr(R))
    if tag in ("addc", "subc", "mulc", "divc"):
        return "(%s %s %s)" % (py_expr(L), sym[tag], c(P))
    if tag in REFL:
        return "(%s %s %s)" % (c(P), REFL[tag], py_expr(R))
    if tag == "powc":
        return "(%s ** %d)" % (py_expr(L), int(P[0]))
    if tag == "apply":
        n = int(P[0])
        return "%s.apply(lambda x: x**%d, lambda x: %d*x**%d)" % (py_expr(L), n, n, n - 1)
    if tag == "cal1":
        return "cal_err(f1, %s, grad=f1_grad)" % py_expr(L)
    if tag == "cal2":
        return "cal_err(g2, %s, %s, grad=g2_grad)" % (py_expr(L), py_expr(R))
    if tag == "cal2c":
        return "cal_err(g2, %s, %s, grad=g2_grad)" % (py_expr(L), c(P))
    if tag == "cal2l":
        return "cal_err(g2, %s, %s, grad=g2_grad)" % (c(P), py_expr(R))
    if tag == "exp":
        return "%s.exp()" % py_expr(L)
    if tag == "log":
        return "%s.log()" % py_expr(L)
    if tag == "powh":
        return "(%s ** %r)" % (py_expr(L), int(P[0]) / int(P[1]))
    if tag == "powu":
        return "(%s ** %s)" % (py_expr(L), py_expr(R))
    if tag == "rpow":
        return "(%s ** %s)" % (c(P), py_expr(R))
    if tag == "sqrtfd":
        return "%s.apply(math.sqrt)" % py_expr(L)
    if tag == "sin":
        return "%s.apply(math.sin, math.cos)" % py_expr(L)
    return "?"


def to_list(v):
    """TLC value parsed by harness.tlc.parse_value -> JSON-like lists"""
    if isinstance(v, tuple):
        return [to_list(x) for x in v]
    return v


# operator / operand class of a node, for violation keys
def node_class(t):
    tag, L, R, P = t
    if tag == "mulc":
        return "mul:%s_constant" % ("negative" if frac(P, 0) < 0 else "positive")
    if tag == "divc":
        return "truediv:%s_constant" % ("negative" if frac(P, 0) < 0 else "positive")
    if tag == "div":
        if is_transcendental(R):
            v = float_ref(R)[0]
        else:
            v = exact_ref(R)[0]
        return "truediv:%s_divisor" % ("negative" if v < 0 else "positive")
    if tag == "mul":
        return "mul:uncertain"
    if tag in ("add", "sub"):
        return "%s:uncertain" % tag
    if tag in ("addc", "subc"):
        return "%s:constant" % tag[:3]
    if tag == "neg":
        return "neg"
    if tag == "powc":
        return "pow:integer_exponent"
    if tag == "powh":
        return "pow:half_integer_exponent"
    if tag == "powu":
        return "pow:uncertain_exponent"
    if tag == "rpow":
        return "rpow:uncertain_exponent"
    if tag == "apply":
        return "apply:with_grad"
    if tag == "sqrtfd":
        return "apply:numeric_grad"
    if tag == "sin":
        return "apply:with_grad_sin"
    if tag in ("cal1", "cal2", "cal2c", "cal2l"):
        return "cal_err:%s" % tag
    if tag in REFL:
        return "%s:reflected" % tag
    return tag
