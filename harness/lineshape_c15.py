"""C15 helpers: generic evaluator of the expression trees of spec/LineShape.tla, exact-value
decoding, and the bindings from a formula name to the tf_pwa objects that claim that formula.

Everything model-specific about the FORMULAS lives in the TLA+ trees.  What is here is
 * ev(): one line per operator of the tree language (numpy, principal branches),
 * how to CALL each implementation (argument order, how a particle of a given model is built).
"""
import math
from fractions import Fraction

import numpy as np

# --------------------------------------------------------------------------
# exact values written by TLC (limbs, little endian)
# --------------------------------------------------------------------------


def nat(limbs, base):
    v = 0
    for x in reversed(limbs):
        v = v * base + x
    return v


def zint(z, base):
    return z[0] * nat(z[1], base)


def cval(c, base):
    """TLC complex rational -> (Fraction re, Fraction im) or None (no exact value)"""
    if not c["ok"]:
        return None
    den = nat(c["den"], base)
    return Fraction(zint(c["re"], base), den), Fraction(zint(c["im"], base), den)


def rat(r):
    return Fraction(r[0], r[1])


# --------------------------------------------------------------------------
# the generic evaluator: one line per operator
# --------------------------------------------------------------------------


def make_ev(bwtab):
    """bwtab[L] = integer coefficients of |theta_L(i w)|^2 in z = w^2, leading coefficient first (from TLC)"""
    csqrt = lambda x: np.sqrt(np.asarray(x, dtype=complex))  # principal branch
    clog = lambda x: np.log(np.asarray(x, dtype=complex))
    ops = {
        "const": lambda t, e: t["num"] / t["den"],
        "var": lambda t, e: e[t["name"]],
        "I": lambda t, e: 1j,
        "pi": lambda t, e: e.get("pi", math.pi),
        "add": lambda t, e: ev(t["a"], e) + ev(t["b"], e),
        "sub": lambda t, e: ev(t["a"], e) - ev(t["b"], e),
        "mul": lambda t, e: ev(t["a"], e) * ev(t["b"], e),
        "div": lambda t, e: ev(t["a"], e) / ev(t["b"], e),
        "neg": lambda t, e: -ev(t["a"], e),
        "powi": lambda t, e: ev(t["a"], e) ** t["n"],
        "sqrt": lambda t, e: csqrt(ev(t["a"], e)),
        "exp": lambda t, e: np.exp(ev(t["a"], e)),
        "log": lambda t, e: clog(ev(t["a"], e)),
        "tanh": lambda t, e: np.tanh(ev(t["a"], e)),
        "cos": lambda t, e: np.cos(ev(t["a"], e)),
        "sin": lambda t, e: np.sin(ev(t["a"], e)),
        "absr": lambda t, e: np.abs(np.real(ev(t["a"], e))),
        "abs2": lambda t, e: np.abs(ev(t["a"], e)) ** 2,
        "bwpoly": lambda t, e: np.polyval(bwtab[t["L"]], ev(t["a"], e)),
        "ifge0": lambda t, e: np.where(np.real(ev(t["c"], e)) >= 0, ev(t["a"], e), ev(t["b"], e)),
    }

    def ev(t, e):
        return ops[t["op"]](t, e)

    return ev


def bind_env(ev, base, derived, above_only, above):
    """base variables -> environment with the derived variables of the spec bound in order.
    `above`: boolean (array) - the point lies above threshold; variables in above_only are NaN elsewhere."""
    # scalars as numpy float64: tf.cast(<python float>, float64) goes through float32 inside TensorFlow
    env = {k: (np.float64(v) if isinstance(v, (float, int)) else v) for k, v in base.items()}
    for name, tree in derived:
        with np.errstate(all="ignore"):
            v = ev(tree, env)
        if name in above_only:
            v = np.where(above, np.real(v), np.nan)
        elif np.all(np.abs(np.imag(v)) == 0):
            v = np.real(v)
        env[name] = v
    return env


def close(got, ref, rel=1e-8, ab=1e-12):
    got = np.asarray(got, dtype=complex)
    ref = np.asarray(ref, dtype=complex)
    with np.errstate(all="ignore"):
        return np.abs(got - ref) <= rel * np.abs(ref) + ab


def relerr(got, ref):
    got = np.asarray(got, dtype=complex)
    ref = np.asarray(ref, dtype=complex)
    with np.errstate(all="ignore"):
        return np.abs(got - ref) / (np.abs(ref) + 1e-300)


# --------------------------------------------------------------------------
# building particles the way the library does (get_particle / get_decay, cf. tf_pwa/tests/test_formula.py)
# --------------------------------------------------------------------------


def build_particle(model, L, m0, g0, m1, m2, two_ls=False, parent=None, **extra):
    """R -> b c with the requested orbital momenta.
    one (l,s):  R(J=L, P=(-1)^L) -> 0- 0-            l = L
    two (l,s):  R(J=L+1, P=(-1)^L) -> 1- 0-          l = L, L+2 (s = 1)
    parent = (M, m3): additionally A(0-) -> R + d(0-), needed by BWR_below"""
    from tf_pwa.amp import get_decay, get_particle
    from tf_pwa.amp.core import variable_scope

    with variable_scope() as vm:
        if two_ls:
            r = get_particle("R", J=L + 1, P=(-1) ** L, model=model, mass=m0, width=g0, **extra)
            b = get_particle("b", J=1, P=-1, mass=m1)
        else:
            r = get_particle("R", J=L, P=(-1) ** L, model=model, mass=m0, width=g0, **extra)
            b = get_particle("b", J=0, P=-1, mass=m1)
        c = get_particle("c", J=0, P=-1, mass=m2)
        dec = get_decay(r, [b, c])
        top = None
        if parent is not None:
            a = get_particle("A", J=0, P=-1, mass=parent[0])
            dd = get_particle("dd", J=0, P=-1, mass=parent[1])
            top = get_decay(a, [r, dd], p_break=True)
            for x in (a, dd):
                x.init_params()
        for x in (r, b, c, dec):
            x.init_params()
        if top is not None:
            top.init_params()
    return r, dec, vm


def arr(x):
    return np.asarray(x)


def tfc(x):
    import tensorflow as tf

    return tf.constant(np.asarray(x, dtype=np.float64))


def broadcast(x, like):
    return np.broadcast_to(np.asarray(x, dtype=np.float64), np.shape(like)).copy()
