"""C11 -- kinematic transformations are mutually inverse.

Spec: spec/Kinematics.tla.  For every cascade shape with 3, 4, 5 final particles
(3 + 15 + 105 = Topology!CF(n)) TLC derives the list of independent variables
(one mass per inner resonance, one (cos theta, phi) pair per decay, taken for
the first daughter) and the range rule by which masses are chosen parent-first,
and checks on an exact integer analogue that the rule never gets stuck, only
produces kinematically allowed decays, and produces all of them.

Binding B3: per shape a real DecayChain is built; (discrete, exact) the variable
list of HelicityAngle.find_variable / build_data equals the specification's;
(numeric, sampled) masses drawn with the specification's range rule and angles
-> build_data -> cal_angle -> find_variable returns the inputs.
Attached sampled numeric probes without discrete content (flagged as such in the
evidence): Dalitz.generate_p reproduces its variables; four-vector identities of
tf_pwa.angle.LorentzVector incl. |v| -> 0 and |v| = 0.999.
"""
import math
import os

import numpy as np

from .. import tlc

LEVEL = "exploration"
TOL = 1e-9
LEAF_MASS = [0.94, 0.50, 0.14, 0.77, 0.28]
Q_VALUE = 2.4


def _cfg(ctx, n, q):
    p = os.path.join(ctx.work, "kin_%d.cfg" % n)
    with open(p, "w") as f:
        f.write(
            "CONSTANTS N = %d\n Q = %d\nINIT Init\nNEXT Next\nINVARIANT TypeOK\nINVARIANT NeverStuck\nINVARIANT Allowed\n"
            "INVARIANT VarCount\nINVARIANT ParentFirst\nPOSTCONDITION Post\nCHECK_DEADLOCK FALSE\n" % (n, q)
        )
    return p


def fs(x):
    return frozenset(x)


def shape_key(form):
    return "|".join("".join(map(str, sorted(g))) for g in sorted(map(sorted, form), key=lambda g: (len(g), g)))


def build_chain(n, shape, tag, mirror=False):
    """real DecayChain following the specification's tree (first daughter first, TopDown order);
    mirror=True: the same particles and decays written the other way round (daughters swapped in every
    decay, decays listed bottom-up) -- the same physical chain, another bookkeeping order"""
    from tf_pwa.amp import DecayChain, get_decay, get_particle

    full = fs(range(1, n + 1))
    mleaf = LEAF_MASS[:n]
    m0 = sum(mleaf) + Q_VALUE
    part = {full: get_particle("A%s" % tag, mass=m0)}
    for i in range(1, n + 1):
        part[fs([i])] = get_particle("f%d%s" % (i, tag), mass=mleaf[i - 1])
    tree = {fs(T): (fs(k1), fs(k2)) for T, k1, k2 in shape["tree"]}
    for T in tree:
        if T != full:
            part[T] = get_particle("R%s%s" % ("".join(map(str, sorted(T))), tag))
    if mirror:
        decays = [get_decay(part[fs(T)], [part[tree[fs(T)][1]], part[tree[fs(T)][0]]]) for T in reversed(shape["order"])]
    else:
        decays = [get_decay(part[fs(T)], [part[tree[fs(T)][0]], part[tree[fs(T)][1]]]) for T in shape["order"]]
    return DecayChain(decays), part, tree, m0


def round_trip(ha, part, ms, ct, ph, scale=1.0, random_z=False):
    """masses (times a unit scale) and angles -> build_data -> cal_angle_from_momentum(random_z) -> find_variable"""
    import tensorflow as tf

    from tf_pwa.cal_angle import DecayGroup, cal_angle_from_momentum

    ms_in = {part[T]: tf.convert_to_tensor(v * scale, tf.float64) for T, v in ms.items()}
    p4 = ha.build_data(ms_in, [tf.convert_to_tensor(c) for c in ct], [tf.convert_to_tensor(x) for x in ph])
    data = cal_angle_from_momentum(p4, DecayGroup([ha.decay_chain]), random_z=random_z)
    ms2, ct2, ph2 = ha.find_variable(data)
    return {k: np.asarray(v) for k, v in ms2.items()}, [np.asarray(c) for c in ct2], [np.asarray(x) for x in ph2]


def rt_errors(inv, ms, ct, ph, got, scale=1.0):
    """worst error (units of TOL) per variable kind between inputs and a round-trip result"""
    ms2, ct2, ph2 = got
    out = {"mass": 0.0, "costheta": 0.0, "phi": 0.0}
    for k, v in ms2.items():
        T = inv[k]
        out["mass"] = max(out["mass"], float(np.max(np.abs(v / scale - ms[T]) / (TOL * np.abs(ms[T])))))
    for j in range(len(ct)):
        out["costheta"] = max(out["costheta"], float(np.max(np.abs(ct2[j] - ct[j]) / TOL)))
        dphi = (ph2[j] - ph[j] + math.pi) % (2 * math.pi) - math.pi
        out["phi"] = max(out["phi"], float(np.max(np.abs(dphi) / TOL)))
    return {k: (v if np.isfinite(v) else float("inf")) for k, v in out.items()}


def sample_masses(n, shape, tree, m0, size, rng, edge=None):
    """the specification's range rule over the reals: parent first,
    Lower(T) = sum of leaf masses, Upper(T) = m(parent) - (m(sibling) if chosen else Lower(sibling))"""
    full = fs(range(1, n + 1))
    lower = lambda S: sum(LEAF_MASS[i - 1] for i in S)
    rel = {fs(T): (fs(P), fs(Sb)) for T, P, Sb in shape["range"]}
    m = {full: np.full(size, m0)}
    for i in range(1, n + 1):
        m[fs([i])] = np.full(size, LEAF_MASS[i - 1])
    for T in [fs(t) for t in shape["order"]]:
        if T == full:
            continue
        P, Sb = rel[T]
        assert P in m, "specification order is not parent-first"
        lo = lower(T)
        hi = m[P] - (m[Sb] if Sb in m else lower(Sb))
        if np.any(hi < lo):
            raise tlc.MachineryError("range rule stuck in the harness although TLC proved NeverStuck")
        if edge is None:
            u = rng.uniform(0.02, 0.98, size)
        else:
            u = np.where(rng.random(size) < 0.5, edge, 1 - edge)
        m[T] = lo + u * (hi - lo)
    return m


def run(ctx):
    from ..prelude import import_tf_quiet

    quick = ctx.tier == "quick"
    nev = 64 if quick else 4096
    q = 3 if quick else 4
    rng = np.random.default_rng(ctx.seed % (2**32))
    shapes = {}
    for n in (3, 4, 5):
        r = tlc.run("Kinematics", _cfg(ctx, n, q), work=ctx.work, workers=16, timeout=1500)
        if r.violation:
            raise tlc.MachineryError("Kinematics spec violates its own invariant %s at N=%d" % (r.violation, n))
        if r.out is None:
            raise tlc.MachineryError("Kinematics N=%d wrote no table (RuleComplete false?):\n%s" % (n, r.stdout[-1500:]))
        ctx.tlc(r, "Kinematics N=%d Q=%d" % (n, q), vacuity_actions=["Next"])
        dfact = {3: 3, 4: 15, 5: 105}[n]
        if len(r.out["shapes"]) != dfact or r.out["nvars"] != 3 * n - 4:
            raise tlc.MachineryError("Kinematics N=%d: %d shapes" % (n, len(r.out["shapes"])))
        shapes[n] = sorted(r.out["shapes"], key=lambda s: shape_key(s["form"]))
    ctx.cov["exhaustive"] = True  # the discrete part: every shape for n = 3, 4, 5
    import_tf_quiet()
    import tensorflow as tf

    from tf_pwa.data_trans.helicity_angle import HelicityAngle

    n_shapes = n_disc = n_units = n_mirror = 0
    worst_units = worst_mirror = 0.0
    extra_step = {3: 1, 4: 3, 5: 26} if quick else {3: 1, 4: 1, 5: 1}
    worst = {"mass": 0.0, "costheta": 0.0, "phi": 0.0}
    for n in (3, 4, 5):
        full = fs(range(1, n + 1))
        for si, sh in enumerate(shapes[n]):
            key = "n%d:%s" % (n, shape_key(sh["form"]))
            tag = "_%d_%d" % (n, si)
            chain, part, tree, m0 = build_chain(n, sh, tag)
            inv = {v: k for k, v in part.items()}
            ha = HelicityAngle(chain)
            # ---- discrete: the variable list --------------------------------------
            spec_masses = {fs(T) for T in sh["masses"]}
            spec_angles = {(fs(T), fs(K)) for T, K in sh["angles"]}
            std = ha.decay_chain.standard_topology()
            tmap = std.topology_map(ha.decay_chain)
            impl_angles = [(inv[tmap[d.core]], inv[tmap[d.outs[0]]]) for d in std]
            consumed = [(inv[d.core], inv[d.outs[0]]) for d in ha.decay_chain]
            n_disc += 1
            if set(impl_angles) != spec_angles or len(impl_angles) != n - 1 or impl_angles != consumed:
                ctx.violation(key + ":angle-variables", {"spec": sorted((sorted(a), sorted(b)) for a, b in spec_angles), "find_variable": [(sorted(a), sorted(b)) for a, b in impl_angles], "build_data": [(sorted(a), sorted(b)) for a, b in consumed]})
                continue
            # ---- numeric round trip: interior sample + near-edge sample ------------
            for mode in ("interior", "edge"):
                size = nev if mode == "interior" else max(16, nev // 4)
                ms = sample_masses(n, sh, tree, m0, size, rng, edge=None if mode == "interior" else 1e-4)
                if mode == "interior":
                    ct = [rng.uniform(-1 + 1e-6, 1 - 1e-6, size) for _ in range(n - 1)]
                    ph = [rng.uniform(-math.pi, math.pi, size) for _ in range(n - 1)]
                else:
                    ct = [np.where(rng.random(size) < 0.5, -1, 1) * (1 - 1e-6) for _ in range(n - 1)]
                    ph = [np.where(rng.random(size) < 0.5, -1, 1) * (math.pi - 1e-6) for _ in range(n - 1)]
                ms_in = {part[T]: tf.convert_to_tensor(v, tf.float64) for T, v in ms.items()}
                try:
                    p4 = ha.build_data(ms_in, [tf.convert_to_tensor(c) for c in ct], [tf.convert_to_tensor(x) for x in ph])
                    data = ha.cal_angle(p4)
                    ms2, ct2, ph2 = ha.find_variable(data)
                except Exception as e:
                    ctx.violation("%s:%s:raise" % (key, mode), {"error": repr(e)[:400]})
                    break
                got_masses = {inv[k] for k in ms2}
                if {T for T in got_masses if 1 < len(T) < n} != spec_masses or full not in got_masses:
                    ctx.violation(key + ":mass-variables", {"spec": sorted(map(sorted, spec_masses)), "find_variable": sorted(map(sorted, got_masses))})
                    break
                bad = None
                for k, v in ms2.items():
                    T = inv[k]
                    e = float(np.max(np.abs(np.asarray(v) - ms[T]) / (TOL * np.abs(ms[T]))))
                    worst["mass"] = max(worst["mass"], e)
                    if not e <= 1:
                        bad = ("mass", sorted(T), e)
                for j in range(n - 1):
                    e = float(np.max(np.abs(np.asarray(ct2[j]) - ct[j]) / TOL))
                    worst["costheta"] = max(worst["costheta"], e)
                    if not e <= 1:
                        bad = ("costheta", [sorted(x) for x in impl_angles[j]], e)
                    dphi = (np.asarray(ph2[j]) - ph[j] + math.pi) % (2 * math.pi) - math.pi
                    e = float(np.max(np.abs(dphi) / TOL))
                    worst["phi"] = max(worst["phi"], e)
                    if not e <= 1:
                        bad = ("phi", [sorted(x) for x in impl_angles[j]], e)
                ctx.count(size, distinct_key=(key, mode))
                if bad:
                    ctx.violation("%s:%s:%s" % (key, mode, bad[0]), {"variable": bad[0], "where": bad[1], "error_in_units_of_1e-9": bad[2], "shape": sorted(map(sorted, sh["form"]))})
                    break
            # ---- units x random_z, and mirrored bookkeeping order (subset in quick) ---------
            if si % extra_step[n] == 0:
                size = 32
                ms = sample_masses(n, sh, tree, m0, size, rng)
                ct = [rng.uniform(-1 + 1e-6, 1 - 1e-6, size) for _ in range(n - 1)]
                ph = [rng.uniform(-math.pi, math.pi, size) for _ in range(n - 1)]
                # (a) the parent is at rest in build_data's output: random_z=True (the configuration default) must be a
                # no-op, whatever the unit of the momenta (GeV-like numbers and the same event in MeV-like numbers)
                for unit, scale in (("x1", 1.0), ("x1000", 1000.0)):
                    for rz in (True,) if unit == "x1" else (False, True):
                        try:
                            e = rt_errors(inv, ms, ct, ph, round_trip(ha, part, ms, ct, ph, scale, rz), scale)
                        except Exception as ex:
                            ctx.violation("%s:random_z=%s:%s:raise" % (key, rz, unit), {"error": repr(ex)[:400]})
                            continue
                        n_units += 1
                        ctx.count(size, distinct_key=(key, "unit", unit, rz))
                        worst_units = max(worst_units, max(e.values()))
                        if max(e.values()) > 1:
                            w = max(e, key=e.get)
                            ctx.violation("%s:random_z=%s:unit-%s:%s" % (key, rz, unit, w), {"variable": w, "error_in_units_of_1e-9": e[w], "momentum_unit_scale": scale, "random_z": rz,
                                                                                     "shape": sorted(map(sorted, sh["form"])), "note": "parent at rest: random_z must be a no-op"})
                # (b) the same chain written in the other bookkeeping order, both in one process (either one first)
                first_mirrored = (n_mirror % 2 == 1)
                for mirrored in (first_mirrored, not first_mirrored):
                    chain_m, part_m, _, _ = build_chain(n, sh, tag + "m", mirror=mirrored)
                    inv_m = {v: k for k, v in part_m.items()}
                    ha_m = HelicityAngle(chain_m)
                    want = [(fs(T), tree[fs(T)][1 if mirrored else 0]) for T in (reversed(sh["order"]) if mirrored else sh["order"])]
                    try:
                        std_m = ha_m.decay_chain.standard_topology()
                        tmap_m = std_m.topology_map(ha_m.decay_chain)
                        got_angles = [(inv_m[tmap_m[d.core]], inv_m[tmap_m[d.outs[0]]]) for d in std_m]
                        e = rt_errors(inv_m, ms, ct, ph, round_trip(ha_m, part_m, ms, ct, ph))
                    except Exception as ex:
                        ctx.violation("%s:mirrored=%s:raise" % (key, mirrored), {"error": repr(ex)[:400]})
                        continue
                    ctx.count(size, distinct_key=(key, "mirror", mirrored, first_mirrored))
                    tagm = "%s:%s-order-%s" % (key, "mirrored" if mirrored else "declared", "first" if mirrored == first_mirrored else "second")
                    if got_angles != want:
                        ctx.violation(tagm + ":angle-variables", {"find_variable": [(sorted(a), sorted(b)) for a, b in got_angles], "chain": [(sorted(a), sorted(b)) for a, b in want]})
                    elif max(e.values()) > 1:
                        w = max(e, key=e.get)
                        ctx.violation(tagm + ":" + w, {"variable": w, "error_in_units_of_1e-9": e[w], "shape": sorted(map(sorted, sh["form"]))})
                    worst_mirror = max(worst_mirror, max(e.values()))
                n_mirror += 1
            n_shapes += 1
            if si == 0:
                ctx.sample({"n": n, "shape": sorted(map(sorted, sh["form"])), "variables": {"masses": sorted(map(sorted, spec_masses)), "angles(decay, daughter)": sorted((sorted(a), sorted(b)) for a, b in spec_angles)}, "events": nev})
        ctx.log("n=%d: %d shapes round-tripped, worst errors (units of 1e-9) %s" % (n, len(shapes[n]), {k: "%.1e" % v for k, v in worst.items()}))
    ctx.part("round_trip", shapes=n_shapes, variable_lists_compared=n_disc, events_per_shape=nev, worst_error_units_of_1e_9=max(worst.values()))

    ctx.part("units_and_random_z", round_trips=n_units, worst_error_units_of_1e_9=worst_units)
    ctx.part("mirrored_bookkeeping_order", shape_pairs=n_mirror, worst_error_units_of_1e_9=worst_mirror)
    if n_units == 0 or n_mirror == 0:
        raise tlc.MachineryError("unit / mirrored-order round trips did not run")

    # ---------------- sampled numeric probes (no discrete content) ---------------
    probes_dalitz(ctx, rng, 2000 if quick else 200000)
    probes_vectors(ctx, rng, 2000 if quick else 200000)
    ctx.cov["traces_validated_against_impl"] = n_disc
    ctx.cov["rule"] = (
        "TLC enumerates every cascade shape for n = 3, 4, 5 (123) and every integer mass assignment reachable by the range rule "
        "(invariants TypeOK, NeverStuck, Allowed, VarCount, ParentFirst; postcondition RuleComplete); per shape the variable list of "
        "find_variable/build_data is compared exactly and %d interior + %d near-edge (relative distance 1e-4 to the mass-range ends, "
        "|cos theta| = 1-1e-6, |phi| = pi-1e-6) samples are round-tripped to 1e-9 (phi modulo 2 pi). "
        "On %s shapes the round trip is repeated with random_z=True (parent at rest: must be a no-op) on the same event in units x1 and x1000, "
        "and for the chain written in the mirrored bookkeeping order (daughters swapped, decays bottom-up) before/after the declared one in the same process. "
        "Dalitz and LorentzVector identities are SAMPLED NUMERIC PROBES without discrete content. "
        "distinct non-trivial = (shape, sampling mode) cells and probe families" % (nev, max(16, nev // 4), "a subset of" if quick else "all")
    )
    ctx.assume("np.Inf shim (harness/prelude.py); tf_pwa imported from the working tree")
    ctx.assume("masses and angles are sampled (seeded); spins play no role in these transformations")
    ctx.assume("the Dalitz and four-vector identities have no discrete content: sampled numeric probes only")


def probes_dalitz(ctx, rng, size):
    from tf_pwa.data_trans.dalitz import Dalitz

    worst = 0.0
    for rep in range(4):
        m1, m2, m3 = rng.uniform(0.1, 1.0, 3)
        m0 = m1 + m2 + m3 + rng.uniform(0.3, 3.0)
        # interior of the Dalitz plot from an independent construction
        m12 = rng.uniform(m1 + m2, m0 - m3, size)
        e2 = (m12**2 - m1**2 + m2**2) / (2 * m12)
        e3 = (m0**2 - m12**2 - m3**2) / (2 * m12)
        p2, p3 = np.sqrt(np.maximum(e2**2 - m2**2, 0)), np.sqrt(np.maximum(e3**2 - m3**2, 0))
        c = rng.uniform(-0.999, 0.999, size)
        s23 = m2**2 + m3**2 + 2 * (e2 * e3 - p2 * p3 * c)
        ok = (p2 > 1e-3 * m0) & (p3 > 1e-3 * m0)
        m12, s23 = m12[ok], s23[ok]
        pa, pb, pc = [np.asarray(x) for x in Dalitz(m0, m1, m2, m3).generate_p(m12**2, s23)]

        def m2of(p):
            return p[:, 0] ** 2 - np.sum(p[:, 1:] ** 2, axis=-1)

        tot = pa + pb + pc
        errs = {
            "m1": np.abs(m2of(pa) - m1**2) / m0**2,
            "m2": np.abs(m2of(pb) - m2**2) / m0**2,
            "m3": np.abs(m2of(pc) - m3**2) / m0**2,
            "m12": np.abs(m2of(pa + pb) - m12**2) / m0**2,
            "m23": np.abs(m2of(pb + pc) - s23) / m0**2,
            "E": np.abs(tot[:, 0] - m0) / m0,
            "p": np.max(np.abs(tot[:, 1:]), axis=-1) / m0,
        }
        ctx.count(len(m12), distinct_key=("dalitz", rep))
        for k, e in errs.items():
            e = float(np.max(e) / TOL) if np.all(np.isfinite(e)) else float("inf")
            worst = max(worst, e)
            if not e <= 1:
                ctx.violation("dalitz:%s" % k, {"m0": m0, "mi": [m1, m2, m3], "error_in_units_of_1e-9": e})
    ctx.part("probe_dalitz(sampled)", points=4 * size, worst_error_units_of_1e_9=worst)
    ctx.sample({"probe": "Dalitz.generate_p(m12^2, m23^2) reproduces m1, m2, m3, m12, m23 and (m0, 0)", "sampled": True})


def probes_vectors(ctx, rng, size):
    from tf_pwa.angle import LorentzVector as lv

    from ..symmetry_c01 import lorentz_boost, lorentz_rot, rot_axis

    def vec(size):
        m = rng.uniform(0.1, 2.0, size)
        p3 = rng.normal(size=(size, 3)) * rng.uniform(0.0, 3.0, (size, 1))
        return np.concatenate([np.sqrt(m**2 + np.sum(p3**2, axis=-1))[:, None], p3], axis=-1)

    worst = {}
    families = [("generic", None), ("v=0", 0.0), ("v=1e-9", 1e-9), ("v=1e-7", 1e-7), ("v=2e-7", 2e-7), ("v=1e-4", 1e-4), ("v=0.999", 0.999)]
    for name, vabs in families:
        p, q = vec(size), vec(size)
        d = rng.normal(size=(size, 3))
        d /= np.linalg.norm(d, axis=-1, keepdims=True)
        v = d * (rng.uniform(0.01, 0.99, (size, 1)) if vabs is None else vabs)
        g = 1 / np.sqrt(1 - np.sum(v**2, axis=-1))
        pb, qb = np.asarray(lv.boost(p, v)), np.asarray(lv.boost(q, v))
        back = np.asarray(lv.boost(pb, -v))
        scale = np.maximum(pb[:, 0], p[:, 0])
        errs = {
            "boost-inverse": np.max(np.abs(back - p), axis=-1) / scale,
            "M-under-boost": np.abs(np.asarray(lv.M2(pb)) - np.asarray(lv.M2(p))) / scale**2,
            "Dot-under-boost": np.abs(np.asarray(lv.Dot(pb, qb)) - np.asarray(lv.Dot(p, q))) / (scale * np.maximum(qb[:, 0], q[:, 0])),
        }
        # independent boost (numpy) agrees with tf_pwa's
        ref = np.stack([lorentz_boost(v[i]) @ p[i] for i in range(min(size, 200))])
        errs["boost-vs-independent"] = np.max(np.abs(pb[: len(ref)] - ref), axis=-1) / scale[: len(ref)]
        # boost_matrix of a moving particle k equals the vector boost by k's velocity
        mk = rng.uniform(0.5, 2.0, size)
        kvec = np.concatenate([(g * mk)[:, None], (g * mk)[:, None] * v], axis=-1)
        bm = np.asarray(lv.boost_matrix(kvec))
        via_matrix = np.einsum("nij,nj->ni", bm, p)
        via_vector = np.asarray(lv.boost(p, np.asarray(lv.boost_vector(kvec))))
        errs["boost_matrix-vs-boost"] = np.max(np.abs(via_matrix - via_vector), axis=-1) / scale
        # rest_vector(k, k) = (M, 0, 0, 0)
        rest = np.asarray(lv.rest_vector(kvec, kvec))
        errs["rest_vector"] = np.max(np.abs(rest - np.concatenate([mk[:, None], np.zeros((size, 3))], axis=-1)), axis=-1) / kvec[:, 0]
        # rotations preserve M and Dot
        R = lorentz_rot(rot_axis(rng.normal(size=3), rng.uniform(0.1, 3.0)))
        pr, qr = p @ R.T, q @ R.T
        errs["M-under-rotation"] = np.abs(np.asarray(lv.M2(pr)) - np.asarray(lv.M2(p))) / p[:, 0] ** 2
        errs["Dot-under-rotation"] = np.abs(np.asarray(lv.Dot(pr, qr)) - np.asarray(lv.Dot(p, q))) / (p[:, 0] * q[:, 0])
        ctx.count(size, distinct_key=("vectors", name))
        for kname, e in errs.items():
            e = float(np.max(e) / TOL) if np.all(np.isfinite(e)) else float("inf")
            worst[kname] = max(worst.get(kname, 0.0), e)
            if not e <= 1:
                ctx.violation("vector:%s:%s" % (kname, name), {"family": name, "error_in_units_of_1e-9": e})
    ctx.part("probe_four_vectors(sampled)", vectors_per_family=size, families=len(families), worst_error_units_of_1e_9=max(worst.values()))
    ctx.cov["parts"]["probe_four_vectors(sampled)"]["per_identity"] = {k: float("%.3g" % v) for k, v in worst.items()}
    ctx.sample({"probe": "LorentzVector: boost then inverse boost, M and Dot under boosts and rotations, boost_matrix vs boost, rest_vector", "velocity_families": [f[0] for f in families], "sampled": True})


def replay(ctx, path):
    run(ctx)
