"""C17 -- temporary overrides and derived computations leave the model unchanged.

Spec: spec/Session.tla.  Invariant Transparent (stack empty => the read
projection equals the baseline), with exceptions injected at every point
(action Raise unwinds every open block; inside a computation the fault comes
out of the k-th inner evaluation; a factor iteration can be abandoned).
Binding B1: every edge of the exhaustive state graph (shortest prefix from the
initial state) and long TLC-simulated behaviours are executed on a real
AmplitudeModel with nested `with` blocks, real computations and an injected
fault; after every return to top level the observers compare parameter values,
active chains, flags and the density of probe events with the baseline.
"""
import glob
import os
import random
import time

from .. import tlc
from .. import session_driver as sd
from .. import session_trace
from ..session_replay import SessionReplayer

LEVEL = "fault_enumeration"
VAC = ["EnterTempParamsAmp", "EnterTempParamsVM", "EnterMask", "EnterTempUsedRes", "EnterGlsOne", "EnterTempConfig", "EnterTempVar", "InnerSetParam",
       "StartPartialWeight", "StartInterference", "StartFitFractions", "StartFactorIteration", "StartPlotWeights", "CompStep", "ExitNormal", "Raise", "Abandon"]


def bfs_paths(nodes, edges, inits):
    out = {}
    for u, v, lab in edges:
        out.setdefault(u, []).append((v, lab))
    parent = {i: None for i in inits}
    order = list(inits)
    qi = 0
    while qi < len(order):
        u = order[qi]
        qi += 1
        for v, lab in out.get(u, []):
            if v not in parent:
                parent[v] = (u, lab)
                order.append(v)

    def path_to(u):
        chain = []
        x = u
        while parent[x] is not None:
            p, lab = parent[x]
            chain.append((lab[0], lab[1], nodes[x]))
            x = p
        return [("Init", (), nodes[x])] + chain[::-1]

    return out, order, path_to


def walk(ctx, rep, label, depth, max_stack, budget, rng, observers, found, check_calls=True, invs=()):
    dot = os.path.join(ctx.work, "session_%s.dot" % label)
    r = sd.run_tlc(ctx, label, depth, max_stack, list(invs), dump_dot=dot)
    ctx.tlc(r, "Session %s depth %d stack %d" % (label, depth, max_stack), vacuity_actions=VAC)
    if r.violation:
        return r, 0
    nodes, edges, inits = tlc.parse_dot(dot)
    os.remove(dot)
    out, order, path_to = bfs_paths(nodes, edges, inits)
    # a behaviour is useful to replay when it ends at top level or with a density call; every edge whose
    # target is such a state is replayed with the shortest prefix of its source
    cand = []
    for u in order:
        for v, lab in out.get(u, []):
            if len(nodes[v]["stack"]) == 0 or lab[0] == "Call":
                cand.append((u, v, lab))
    total = len(cand)
    if len(cand) > budget:
        # stratified seeded sample over (action, open block kinds, abstract model context)
        groups = {}
        for e in cand:
            st = nodes[e[0]]
            m = st["m"]
            sig = (e[2][0], tuple(f["kind"] for f in st["stack"]), len(set(m["sel"])) < 3, bool(m["bnd"]), m["maskv"] != "None",
                   bool(m["maskFactor"]), bool(m["polar"]), bool(st["seen"]))
            groups.setdefault(sig, []).append(e)
        keys = sorted(groups, key=repr)
        for k in keys:
            rng.shuffle(groups[k])
        picked = []
        while len(picked) < budget and any(groups[k] for k in keys):
            for k in keys:
                if groups[k] and len(picked) < budget:
                    picked.append(groups[k].pop())
        cand = picked
        ctx.part("graph_walk_%s" % label, strata=len(keys))
    t0 = time.time()
    n = 0
    for u, v, lab in cand:
        path = path_to(u) + [(lab[0], lab[1], nodes[v])]
        o = sd.execute(rep, path, check_calls=check_calls)
        n += 1
        # distinct = distinct behaviours; non-trivial = a block was opened or a computation started
        ctx.count(1, distinct_key=(label, sd.history(path, len(path) - 1)), nontrivial=any(a.startswith("Enter") or a.startswith("Start") for a, _, _ in path))
        record(found, path, o, observers, model=getattr(rep, "model_name", "3body"))
    ctx.part("graph_walk_%s" % label, states=len(nodes), edges=len(edges), edges_to_top_or_call=total, replayed=n, wall_s=round(time.time() - t0, 1))
    if order:
        u = order[min(len(order) - 1, 300)]
        ctx.sample({"behaviour": sd.history(path_to(u), len(path_to(u)) - 1)})
    return r, n


def record(found, path, o, observers, model="3body"):
    for ob, idx, msg in o.fails:
        if ob == "Machinery":
            raise tlc.MachineryError(msg + " in " + sd.history(path, len(path) - 1))
        if ob not in observers:
            continue
        sig = (ob,) + sd.signature(path, idx)
        h = sd.history(path, idx)
        cur = found.get(sig)
        if cur is None or (len(h.split(";")), h) < (len(cur["history"].split(";")), cur["history"]):
            found[sig] = {"observer": ob, "history": h, "message": msg, "open_blocks": list(sig[1:-1]), "model": model,
                          "path": tlc.to_jsonable([[a, g, st] for a, g, st in path[: idx + 1]])}


def simulate(ctx, rep, label, n, depth, max_stack, observers, found, check_calls=True):
    simdir = os.path.join(ctx.work, "sim_%s" % label)
    os.makedirs(simdir, exist_ok=True)
    p = os.path.join(ctx.work, "session_sim_%s.cfg" % label)
    with open(p, "w") as f:
        f.write(sd.cfg_text(3, (1, 2), depth, max_stack, [], view=False))
    tlc.run("Session", p, work=ctx.work, workers=1, timeout=900, simulate="file=%s/tr,num=%d" % (simdir, n), depth=depth + 1, seed=ctx.seed % 100000, coverage=False)
    files = sorted(glob.glob(simdir + "/tr*"))
    k = 0
    steps = 0
    for fn in files:
        path = tlc.parse_sim_trace(fn)
        if len(path) < 2:
            continue
        o = sd.execute(rep, path, check_calls=check_calls)
        record(found, path, o, observers)
        ctx.count(1, distinct_key=("sim", sd.history(path, len(path) - 1)))
        k += 1
        steps += o.steps
    ctx.part("simulated_%s" % label, behaviours=k, steps=steps, depth=depth)
    ctx.cov["transitions"] += steps
    return k


def run(ctx):
    quick = ctx.tier == "quick"
    rng = random.Random(ctx.seed)
    observers = {"Transparent", "Exception"}
    found = {}
    ctx.flush_hooks.append(lambda: [ctx.violation("%s:%s" % (d["observer"], d["history"]), d) for _, d in sorted(found.items())])
    # 1. the invariant on the model (repaired-code constants); a violation here is a design-level finding
    r = sd.run_tlc(ctx, "inv", 6 if quick else 8, 2 if quick else 3, ["Transparent", "SelectionSound"])
    ctx.tlc(r, "Session Transparent", vacuity_actions=None if r.violation else VAC)
    n_replayed = 0
    rep = SessionReplayer(False, ctx.seed % 1000 + 1, fit_fraction_method="old")
    if r.violation:
        o = sd.execute(rep, r.trace)
        ctx.log("model violates %s: %s -> real code: %s" % (r.violation, sd.history(r.trace, len(r.trace) - 1), o.fails[:2]))
        if not any(ob in observers for ob, _, _ in o.fails):
            raise tlc.MachineryError("Session counterexample does not reproduce on the real model: %s" % sd.history(r.trace, len(r.trace) - 1))
        record(found, r.trace, o, observers)
    # 2. exhaustive graph, every edge that returns to top level
    _, n1 = walk(ctx, rep, "c17a", 3 if quick else 4, 2, 500 if quick else 3500, rng, observers, found)
    # a group whose chains share one Decay object (4-body cascade): the same behaviours, smaller budget
    rep4 = SessionReplayer(False, ctx.seed % 1000 + 2, model="4body")
    _, n2 = walk(ctx, rep4, "c17b", 3, 2, 200 if quick else 1200, rng, observers, found)
    # 3. deep simulated behaviours (nesting up to 3)
    n3 = simulate(ctx, rep, "c17", 120 if quick else 500, 14 if quick else 24, 3, observers, found)
    n_replayed = n1 + n2 + n3
    ctx.cov["traces_validated_against_impl"] = n_replayed
    # 4. the other direction (B2): executions composed by the library itself (ConfigLoader entry points, also with
    #    injected faults) and seeded user sessions are recorded and validated by TLC against Session.tla
    #    (spec/SessionTrace.tla; notes/C17_trace.md)
    # (what the B1 replays found is reported first: a failure of the trace part must not hide it)
    for sig, d in sorted(found.items()):
        ctx.violation("%s:%s" % (d["observer"], d["history"]), d)
    found.clear()
    session_trace.run(ctx)
    ctx.cov["rule"] = (
        "Session.tla: TLC enumerates every behaviour (nesting <= 2-3, every Raise/Abandon point, faults after the k-th inner "
        "evaluation of each computation) up to the depth bound and checks Transparent; every graph edge returning to top "
        "level (seeded sample above the tier budget) and TLC-simulated behaviours are executed on a real AmplitudeModel; "
        "distinct = distinct behaviours executed on the real model (non-trivial: at least one block or computation); failures are grouped by root-cause signature (open block kinds + failing action)"
    )
    ctx.assume("faults are injected as exceptions raised by DecayGroup.sum_amp (inner evaluation) or inside the with-body")
    ctx.assume("one probe parameter (a resonance mass); two real groups: 3-body with three chains of one resonance each, and a 4-body cascade whose chains share a Decay object; density observed on 6 probe events")
    ctx.assume("constants Finally/ExactRestore/RawSave of the specification mirror the repaired code")


def replay(ctx, path):
    """re-execute the stored behaviour of one reported violation on a real model"""
    import json

    with open(path) as f:
        j = json.load(f)
    d = j["detail"]
    if str(j.get("key", "")).startswith("trace:"):
        return session_trace.replay(ctx, path)
    if "path" not in d:
        return run(ctx)
    steps = [tuple(x) for x in tlc.from_jsonable(d["path"])]
    rep = SessionReplayer(False, ctx.seed % 1000 + 1, model=d.get("model", "3body"))
    o = sd.execute(rep, steps)
    ctx.count(len(steps), distinct_key=("replay", j["key"]))
    ctx.count(1, distinct_key=("replay2", j["key"]))
    ctx.cov["traces_validated_against_impl"] = 1
    ctx.sample({"replayed": d["history"], "failures": [list(map(str, x)) for x in o.fails]})
    ctx.cov["rule"] = "replay of one stored behaviour"
    for ob, idx, msg in o.fails:
        ctx.violation(j["key"] if ob == d["observer"] else "%s:%s" % (ob, sd.history(steps, idx)), {"observer": ob, "message": msg, "history": sd.history(steps, idx)})
