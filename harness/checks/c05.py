"""C05 -- every evaluation strategy returns the same density and likelihood.

Parts built here:
 (c) spec/Einsum.tla: contraction programs of the amplitude builder, reference
     semantics and an implementation-shaped model of tf_pwa/einsum.py; TLC checks
     model = reference on the bounded domain and writes every program with its
     expected output; tf_pwa.einsum.einsum must return exactly that (or raise).
 (b) spec/Strategies.tla: the strategy option space with its applicability
     predicate; every selected applicable strategy is compared with plain eager
     evaluation (density, NLL, gradient) through ConfigLoader.
Part (a) (compiled-graph / id cache inside the Session specification) lives in
harness/session_c05a.py and is called at the end of run().
"""
import json
import os
import re
import threading
import time

import numpy as np

from .. import tlc

LEVEL = "model_checking"

# spec constant StrictOrder of Einsum.tla.  True: the code since /repo 5d2e6c4 (einsum()
# re-ranks the result of ordered_indices by (value, index name)); False: the legacy
# ordering with equal order values, kept in the spec as OrderOfS(p, perm, FALSE).  The
# iteration orders under which the legacy ordering ties are still replayed on the code
# (Row.legacy_tied), so a reappearance of the old behaviour is a VIOLATION with TIE_KEY.
STRICT_ORDER = True
BATCH_N = 2

TIE_KEY = "einsum:tied_order:wrong_value"


# ---------------------------------------------------------------------------
# part (c): einsum programs
# ---------------------------------------------------------------------------
def _einsum_cfg(ctx, name, tier, init, nxt, invariants=(), post=None, table_ns=(2, 3, 4), strict=None):
    p = os.path.join(ctx.work, "einsum_%s.cfg" % name)
    strict = STRICT_ORDER if strict is None else strict
    with open(p, "w") as f:
        f.write('CONSTANTS Tier = "%s"\n BatchN = %d\n StrictOrder = %s\n TableNs = {%s}\n' % (
            tier, BATCH_N, "TRUE" if strict else "FALSE", ", ".join(str(n) for n in table_ns)))
        f.write("INIT %s\nNEXT %s\n" % (init, nxt))
        for i in invariants:
            f.write("INVARIANT %s\n" % i)
        if post:
            f.write("POSTCONDITION %s\n" % post)
        f.write("CHECK_DEADLOCK FALSE\n")
    return p


def val(k, mi):
    """Val(k, mi) of Einsum.tla (1-based operand number and multi-index)"""
    h = (3 * k + sum((d + 1) * m for d, m in enumerate(mi))) % 5
    return 3 if h == 2 else h - 2


def content(k, shape):
    a = np.empty(shape if len(shape) else (), dtype=np.int64)
    for idx in np.ndindex(*shape):
        a[idx] = val(k, [i + 1 for i in idx])
    if not len(shape):
        a[()] = val(k, [])
    return a


class OSet:
    """Stand-in for builtins.set inside tf_pwa.einsum with a controlled iteration
    order.  The iteration order of a Python set of one-character strings depends on
    the hash seed; Einsum.tla enumerates it (Start(perm)), the harness replays every
    enumerated order by putting this class into the module namespace (no change to
    /repo).  Elements listed in `priority` come first in that order, the others
    follow (lower-case, then upper-case, then the rest)."""

    priority = {}

    def __init__(self, it=()):
        self._s = frozenset(it)

    @staticmethod
    def _raw(o):
        return o._s if isinstance(o, OSet) else frozenset(o)

    @classmethod
    def _key(cls, x):
        if x in cls.priority:
            return (0, cls.priority[x], x)
        if isinstance(x, str) and x.islower():
            return (1, 0, x)
        if isinstance(x, str) and x.isupper():
            return (2, 0, x)
        return (3, 0, str(x))

    def __iter__(self):
        return iter(sorted(self._s, key=self._key))

    def __len__(self):
        return len(self._s)

    def __contains__(self, x):
        return x in self._s

    def __sub__(self, o):
        return OSet(self._s - self._raw(o))

    def __rsub__(self, o):
        return OSet(self._raw(o) - self._s)

    def __and__(self, o):
        return OSet(self._s & self._raw(o))

    __rand__ = __and__

    def __or__(self, o):
        return OSet(self._s | self._raw(o))

    __ror__ = __or__

    def __eq__(self, o):
        return self._s == self._raw(o)

    def __hash__(self):
        return hash(self._s)


def _eval_real(E, tf, expr, arrays, perm, dtype):
    """-> ("ok", value, order) | ("declined", repr, None); perm None = builtin set"""
    rec = {}
    orig_oi = E.ordered_indices

    def spy(*a, **k):
        r = orig_oi(*a, **k)
        rec["order"] = dict(r)
        return r

    E.ordered_indices = spy
    if perm is not None:
        OSet.priority = {s: i for i, s in enumerate(perm)}
        E.set = OSet
    try:
        ts = [tf.constant(a.astype(dtype)) for a in arrays]
        try:
            v = E.einsum(expr, *ts)
            return "ok", np.asarray(v), rec.get("order")
        except Exception as e:  # accepted: the caller falls back to tf.einsum
            return "declined", "%s: %s" % (type(e).__name__, str(e)[:120]), rec.get("order")
    finally:
        E.ordered_indices = orig_oi
        if "set" in E.__dict__:
            del E.__dict__["set"]
        OSet.priority = {}


def _order_matches(order, tot, tied, perm):
    """real ordered_indices result vs the model's total order (property-irrelevant detail)"""
    if order is None:
        return None
    syms = [k for k in order if not k.startswith("_")]
    ell = [k for k in syms if k not in "".join(tot)]
    OSet.priority = {s: i for i, s in enumerate(perm)}
    try:
        if STRICT_ORDER:  # repaired variant: ties broken by the symbol itself
            got = sorted(syms, key=lambda k: (order[k], k.isupper(), k))
        else:
            got = sorted(syms, key=lambda k: (order[k], OSet._key(k)))
    finally:
        OSet.priority = {}
    got = ["." if k in ell else k for k in got]
    vals = sorted(order[k] for k in syms)
    has_tie = any(a == b for a, b in zip(vals, vals[1:]))
    return got == list(tot) and (STRICT_ORDER or has_tie == bool(tied))


def run_einsum(ctx):
    import tensorflow as tf
    import tf_pwa.einsum as E

    quick = ctx.tier == "quick"
    tier = "quick" if quick else "thorough"
    res = {}
    errs = []

    def job(name, **kw):
        try:
            res[name] = tlc.run("Einsum", kw.pop("cfg"), work=ctx.work, coverage=False, **kw)
        except Exception as e:  # re-raised in the main thread
            errs.append(e)

    invs = ["TypeOK", "ImplEqualsRef", "RaiseOnlyTied", "DeclineIffScalar", "SqueezeKeeps"]
    jobs = [threading.Thread(target=job, args=("machine",), kwargs=dict(
        cfg=_einsum_cfg(ctx, "machine", tier, "Init", "Next", invs), workers=12, timeout=2400))]
    for n in (2, 3, 4):
        jobs.append(threading.Thread(target=job, args=("table%d" % n,), kwargs=dict(
            cfg=_einsum_cfg(ctx, "table%d" % n, tier, "InitTable", "Stutter", post="Post", table_ns=(n,)), workers=1, timeout=2400)))
    t0 = time.time()
    for j in jobs:
        j.start()
    for j in jobs:
        j.join()
    if errs:
        raise errs[0] if isinstance(errs[0], tlc.MachineryError) else tlc.MachineryError(repr(errs[0]))
    m = res["machine"]
    if m.violation:
        raise tlc.MachineryError("Einsum.tla violates its own theorem %s:\n%s" % (m.violation, m.stdout[-2500:]))
    ctx.tlc(m, "Einsum step machine tier=%s (all iteration orders, all pairwise paths up to 5/6 operands)" % tier)
    programs = []
    n_all = None
    for n in (2, 3, 4):
        r = res["table%d" % n]
        if r.out is None:
            raise tlc.MachineryError("Einsum table run n=%d wrote no output:\n%s" % (n, r.stdout[-1500:]))
        programs += r.out["programs"]
        n_all = r.out["n_all"]
        st = r.stats()
        st["run"] = "Einsum table n=%d" % n
        ctx.cov["tlc_runs"].append(st)
    if len(programs) != n_all:
        raise tlc.MachineryError("Einsum tables have %d programs, the domain has %d" % (len(programs), n_all))
    n_orders = sum(max(1, len(p["orders"])) for p in programs)
    if m.depth < 3 or m.distinct <= n_all + n_orders:
        raise tlc.MachineryError("Einsum machine run looks vacuous: %d states for %d programs" % (m.distinct, n_all))
    ctx.log("Einsum.tla: %d programs, %d states, %d transitions, TLC wall %.0fs" % (n_all, m.distinct, m.generated, time.time() - t0))

    # vacuity: a finished contraction with pairwise different order values is reachable
    v = tlc.run("Einsum", _einsum_cfg(ctx, "vacuity", "micro", "Init", "Next", ["NeverDoneUntied"]), work=ctx.work,
                coverage=False, workers=4, timeout=600, expect_violation=True)
    if v.violation != "NeverDoneUntied":
        raise tlc.MachineryError("Einsum vacuity probe: antecedent of ImplEqualsRef unreachable")
    # design-level finding: with equal order values the algorithm as designed is wrong
    design = {"ran": False}
    n_tied_programs = sum(1 for p in programs if p["legacy_tied"])
    if n_tied_programs:
        # legacy ordering (StrictOrder = FALSE), always on the quick domain (the counterexample
        # is the same, InitTied is expensive): documents why the legacy-tied orders are replayed
        d = tlc.run("Einsum", _einsum_cfg(ctx, "design", "quick", "InitTied", "Next", ["ImplEqualsRefAlways"], strict=False), work=ctx.work,
                    coverage=False, workers=8, timeout=1200, expect_violation=True)
        design = {"ran": True, "violated": d.violation, "states": d.distinct}
        if STRICT_ORDER and d.violation != "ImplEqualsRefAlways":
            raise tlc.MachineryError("legacy ordering probe: expected a counterexample to ImplEqualsRefAlways")
        ctx.log("Einsum.tla legacy-ordering probe (equal order values allowed): ImplEqualsRefAlways %s" % ("VIOLATED on the model" if d.violation else "holds"))
    ctx.part("einsum_spec", programs=n_all, order_results=n_orders, programs_with_legacy_tied_order=n_tied_programs,
             legacy_tied_orders=sum(len(p["legacy_tied"]) for p in programs), legacy_design_probe=design, strict_order=STRICT_ORDER)

    # ---------------- binding: the real routine on every program -------------
    dtypes = [np.complex128] if quick else [np.complex128, np.float64]
    n_calls = n_declined = n_spec = n_drift = n_wrong = 0
    tie_fail = []
    tie_runs = 0
    predicted_decline_mismatch = 0
    for p in sorted(programs, key=lambda q: (len(q["expr"]), q["expr"], json.dumps(q["shapes"]))):
        expr = p["expr"]
        shapes = [tuple(s) for s in p["shapes"]]
        arrays = []
        for k, (sh, flat) in enumerate(zip(shapes, p["operands"])):
            a = np.array(flat, dtype=np.int64).reshape(sh)
            if not np.array_equal(a, content(k + 1, sh)):
                raise tlc.MachineryError("operand contents of %s differ from Val()" % expr)
            arrays.append(a)
        expected = np.array(p["expected"], dtype=np.int64).reshape(tuple(p["out_shape"]))
        # the specification against numpy (a check OF THE SPEC)
        ref = np.einsum(expr, *arrays)
        n_spec += 1
        if ref.shape != expected.shape or not np.array_equal(ref, expected):
            raise tlc.MachineryError("Einsum.tla reference disagrees with numpy.einsum on %s %s" % (expr, shapes))
        key = "einsum:%s:%s" % (expr, ",".join("x".join(map(str, s)) or "scalar" for s in shapes))
        nontrivial = len(shapes) >= 3 and expected.size > 1
        runs = [(None, False, None)] + [(o["perm"], o["tied"], o["tot"]) for o in p["orders"]]
        seen_perms = set(tuple(o["perm"]) for o in p["orders"])
        # iteration orders under which the legacy ordering ties (regression replays; tot unknown)
        runs += [(q, True, None) for q in p["legacy_tied"] if tuple(q) not in seen_perms]
        declined_here = 0
        for perm, tied, tot in runs:
            for dt in dtypes:
                status, got, order = _eval_real(E, tf, expr, arrays, perm, dt)
                n_calls += 1
                if perm is not None and tot is not None and dt is dtypes[0]:
                    ok = _order_matches(order, tot, tied, perm)
                    if ok is False:
                        n_drift += 1
                if status == "declined":
                    n_declined += 1
                    declined_here += 1
                    continue
                good = got.shape == expected.shape and np.array_equal(np.real(got), expected) and not np.any(np.imag(got))
                if perm is not None and (tied or perm in p["legacy_tied"]):
                    tie_runs += 1
                if good:
                    continue
                n_wrong += 1
                detail = {"expr": expr, "shapes": [list(s) for s in shapes], "set_iteration_order": perm, "dtype": np.dtype(dt).name,
                          "expected_head": expected.reshape(-1)[:8].tolist(),
                          "got_head": np.real(got).reshape(-1)[:8].tolist() if got.size else [], "got_shape": list(got.shape),
                          "ordered_indices": order}
                # is the failure explained by equal order values?
                vals = sorted(v_ for k_, v_ in (order or {}).items() if not k_.startswith("_"))
                real_tie = any(a == b for a, b in zip(vals, vals[1:]))
                if real_tie:
                    tie_fail.append(detail)
                else:
                    ctx.violation(key, detail)
        if p["declines"] != (declined_here == len(runs) * len(dtypes)):
            predicted_decline_mismatch += 1
        ctx.count(len(runs) * len(dtypes), distinct_key=key, nontrivial=nontrivial)
    if tie_fail:
        ctx.violation(TIE_KEY, {
            "what": "ordered_indices gave two contracted indices the same order value; tensor_einsum_reduce_sum then labels the axes of an operand in another order than its data",
            "n_failing_evaluations": len(tie_fail), "programs": sorted(set(d["expr"] for d in tie_fail))[:40], "first": tie_fail[0]})
    ctx.part("einsum_binding", programs=len(programs), evaluations=n_calls, declined=n_declined, wrong_value=n_wrong,
             wrong_value_with_tied_order=len(tie_fail), evaluations_with_legacy_tied_order=tie_runs,
             disagreements_checked=n_spec, order_model_drift=n_drift, decline_prediction_mismatch=predicted_decline_mismatch,
             dtypes=[np.dtype(d).name for d in dtypes])
    mid = sorted(programs, key=lambda q: (-len(q["shapes"]), q["expr"]))[len(programs) // 3]
    ctx.sample({"part": "einsum", "expr": mid["expr"], "shapes": mid["shapes"], "set_iteration_orders": [o["perm"] for o in mid["orders"]],
                "expected_head": mid["expected"][:6]})
    ctx.cov["exhaustive"] = True
    ctx.cov["programs"] = len(programs)
    ctx.cov["disagreements_checked"] = n_spec
    return len(programs)


# ---------------------------------------------------------------------------
# part (b): strategies
# ---------------------------------------------------------------------------
def _strategies_cfg(ctx):
    p = os.path.join(ctx.work, "strategies.cfg")
    with open(p, "w") as f:
        f.write("INIT Init\nNEXT Next\nINVARIANT CachedPairsUnique\nINVARIANT CachedIntNeedsFixedShape\n"
                "INVARIANT TierNesting\nINVARIANT ReasonTotal\nINVARIANT ChargedSameAsPlain\nPOSTCONDITION Post\nCHECK_DEADLOCK FALSE\n")
    return p


def _baseline_of(opt, baseline):
    b = dict(opt)
    b.update(amp_model="default", preprocessor="default", use_tf_function=False, jit_compile=False,
             no_id_cached=False, lazy_call=False, nll=baseline)
    return b


GROUPS = (("amp_model", "preprocessor"), ("use_tf_function", "jit_compile", "no_id_cached"), ("lazy_call",), ("nll",), ("float_shape",),
          ("charged", "cp_trans"))


def _projections(opt, baseline):
    """the strategies that keep a proper non-empty subset of the deviating option groups of opt, fewest groups first"""
    import itertools

    base = _baseline_of(opt, baseline)
    base.update(float_shape=False, charged=False, cp_trans=True)
    dev = [g for g in GROUPS if any(opt[k] != base[k] for k in g)]
    out = []
    for r in range(1, len(dev)):
        for keep in itertools.combinations(dev, r):
            q = dict(base)
            for g in keep:
                for k in g:
                    q[k] = opt[k]
            out.append(q)
    return out


def _want_nll(opt, quick):
    if opt["jit_compile"]:
        return False
    if opt["nll"] != "default":
        return True
    if opt["lazy_call"]:
        return not quick  # quick: eval() and the tf.data batches of the density only
    # (charged samples: density observers only, so that a finding has the same key in both tiers)
    return (not quick and (opt["amp_model"], opt["preprocessor"]) != ("default", "default") and not opt["use_tf_function"]
            and not opt["charged"])


def run_strategies(ctx, only=None):
    from .. import strategies_c05 as S

    quick = ctx.tier == "quick"
    r = tlc.run("Strategies", _strategies_cfg(ctx), work=ctx.work, workers=4, timeout=600)
    if r.violation:
        raise tlc.MachineryError("Strategies.tla violates its own theorem %s" % r.violation)
    ctx.tlc(r, "Strategies option space", vacuity_actions=["Init"])
    out = r.out
    rows = out["rows"]
    if r.distinct != out["n_all"]:
        raise tlc.MachineryError("Strategies: %d states for %d combinations" % (r.distinct, out["n_all"]))
    sel = [x for x in rows if x["quick" if quick else "thorough"]]
    sel.sort(key=lambda x: (not x["applicable"], x["dev"], S.opt_id(x["opt"])))
    if only is not None:
        sel = [x for x in rows if S.opt_id(x["opt"]) in only]
    n_data, n_phsp = (64, 96) if quick else (160, 256)
    batch = 32 if quick else 50  # thorough: unequal last batch
    files = S.write_events(ctx.work, n_data, n_phsp, ctx.seed)
    refs = {}

    def ref_for(opt, baseline, need_nll=True):
        # the reference is the plain eager default on the SAME card and sample (float_shape, charges, cp_trans)
        k = (baseline, opt["float_shape"], opt["charged"], opt["cp_trans"])
        if k not in refs or (need_nll and not refs[k]["nll"]):
            refs[k] = S.run_strategy(_baseline_of(opt, baseline), files, points=refs[k]["points"] if k in refs else None,
                                     seed=ctx.seed, batch=batch, lazy_batch=batch, want_nll=need_nll)
            # the two calls of the plain eager default agree with each other
            for a, b in refs[k]["density"]:
                if S.rel_err(b, a) > 1e-12:
                    raise tlc.MachineryError("eager default not reproducible")
        return refs[k]

    n_app = n_out = n_out_raise = n_out_same = n_out_diff = n_base = n_charged = 0
    failed = {}
    worst = {}
    t_start = time.time()
    for x in sel:
        opt = x["opt"]
        name = S.opt_id(opt)
        tol = 1e-6 if opt["jit_compile"] else 1e-8
        t0 = time.time()
        if not x["applicable"]:
            # outside the quantifier: recorded, never a violation
            n_out += 1
            try:
                ref = ref_for(opt, x["baseline"], need_nll=not opt["jit_compile"] and not opt["charged"])
                obs = S.run_strategy(opt, files, points=ref["points"], seed=ctx.seed, batch=batch, lazy_batch=batch,
                                     want_nll=not opt["jit_compile"] and not opt["charged"])
                bad, w = S.compare(obs, ref, tol)
                if bad:
                    n_out_diff += 1
                else:
                    n_out_same += 1
            except tlc.MachineryError:
                raise
            except Exception:
                n_out_raise += 1
            continue
        key = "strategy:" + name
        if opt == _baseline_of(opt, x["baseline"]):
            n_base += 1  # the baseline itself (plain eager evaluation)
            try:
                ref_for(opt, x["baseline"], need_nll=not opt["charged"])
            except tlc.MachineryError:
                raise
            except Exception as e:
                raise tlc.MachineryError("baseline strategy failed: %r" % e)
            continue
        try:
            ref = ref_for(opt, x["baseline"], need_nll=_want_nll(opt, quick))
        except tlc.MachineryError:
            raise
        except Exception as e:
            raise tlc.MachineryError("baseline strategy failed: %r" % e)
        try:
            obs = S.run_strategy(opt, files, points=ref["points"], seed=ctx.seed, batch=batch, lazy_batch=batch,
                                 want_nll=_want_nll(opt, quick))
        except Exception as e:
            ctx.violation(key + ":raise", {"options": opt, "error": "%s: %s" % (type(e).__name__, str(e)[:300])})
            ctx.count(1, distinct_key=key)
            n_app += 1
            continue
        bad, w = S.compare(obs, ref, tol)
        n_app += 1
        n_charged += 1 if opt["charged"] else 0
        n_obs = 2 * len(obs["density"]) + 2 * len(obs["nll"]) + (1 if obs.get("lazy") else 0)
        ctx.count(n_obs, distinct_key=key, nontrivial=name != "default")
        if not bad:
            worst[name] = w
        if bad:
            kinds = "+".join(sorted(set(re.sub(r"\[.*", "", b[0]) for b in bad)))
            # root cause: a strategy that deviates in two option groups is attributed to the
            # one-group strategy that already fails in the same way (executed earlier)
            for g in _projections(opt, x["baseline"]):
                if failed.get(S.opt_id(g)) == kinds:
                    key = "strategy:" + S.opt_id(g)
                    break
            failed[name] = kinds
            ctx.violation(key + ":" + kinds, {"strategy": name, "options": opt, "tolerance": tol, "differences": [[b[0], b[1]] for b in bad[:8]],
                                                        "events": [n_data, n_phsp], "seed": ctx.seed})
        if n_app == 3:
            ctx.sample({"part": "strategy", "options": opt, "max_relative_difference": w, "observers": n_obs})
        ctx.log("strategy %-58s %5.1fs worst=%.1e%s" % (name, time.time() - t0, w, "  DIFFERS" if bad else ""))
    ok = [v_ for v_ in worst.values() if np.isfinite(v_)]
    ctx.part("strategies", enumerated=out["n_all"], applicable=out["n_applicable"], executed_applicable=n_app, executed_on_charged_samples=n_charged, baselines=n_base,
             outside_quantifier=n_out, outside_raise=n_out_raise, outside_same_value=n_out_same, outside_different_value=n_out_diff,
             events_data=n_data, events_phsp=n_phsp, max_relative_difference_of_agreeing=max(ok) if ok else None,
             wall_s=round(time.time() - t_start, 1))
    return n_app


def run(ctx):
    from ..prelude import import_tf_quiet

    import_tf_quiet()
    n_prog = run_einsum(ctx)
    n_strat = run_strategies(ctx)
    ctx.cov["traces_validated_against_impl"] = n_prog + n_strat
    ctx.cov["rule"] = (
        "(c) every contraction program of the bounded grammar (chain shapes n=2..4 from Topology x index sizes x aligned finals x "
        "daughter/decay order x broadcast operands) is a TLC state; the step machine of tf_pwa.einsum (all set-iteration orders, "
        "all pairwise paths) is checked equal to the reference; tf_pwa.einsum.einsum is evaluated on every program under the "
        "builtin set and under every enumerated iteration order and must equal the TLC output exactly (exception = declined); "
        "numpy.einsum checks the specification. (b) every combination of the strategy options is a TLC state with its "
        "applicability; the selected applicable strategies are compared with plain eager evaluation at three parameter points, "
        "two calls each (density, lazily batched density, NLL and gradient via FCN.nll_grad), relative 1e-8 (XLA 1e-6). "
        "distinct = distinct programs with >= 3 operands and non-scalar output, plus distinct non-default strategies"
    )
    ctx.assume("numpy.Inf shim in the harness process (tf_pwa.fit_improve uses np.Inf)")
    ctx.assume("einsum operand contents are small integers, compared exactly after conversion to complex128/float64")
    ctx.assume("the iteration order of Python sets inside tf_pwa.einsum is driven by an order-controlled set class placed in the module "
               "namespace by the harness (plus one run with the builtin set under PYTHONHASHSEED=0)")
    ctx.assume("ordered_indices is modelled in exact arithmetic; the code uses floats (differences of distinct values are >= 6.4e-7)")
    ctx.assume("contraction paths: TLC explores every pairwise path for programs with <= 5 (quick) / 6 (thorough) operands, the left fold beyond; "
               "opt_einsum's actual path is one of them only for the former")
    ctx.assume("jit_compile strategies are compared at relative 1e-6 because XLA reorders floating-point reductions; all others at 1e-8")
    ctx.assume("strategy equality over events and parameter values is sampled (seeded phase-space events, three parameter points); "
               "only the option space and the einsum programs are exhaustive on their bounded domains")
    ctx.assume("applicability (Strategies.tla) was calibrated on the unchanged tree: inapplicable combinations are executed but only recorded (outside_quantifier)")
    try:
        from .. import session_c05a
    except ImportError:
        session_c05a = None
    if session_c05a is not None:
        session_c05a.run(ctx)


def replay(ctx, path):
    """re-execute one recorded violation deterministically"""
    from ..prelude import import_tf_quiet

    tf = import_tf_quiet()
    with open(path) as f:
        rec = json.load(f)
    key, detail = rec["key"], rec["detail"]
    if key.startswith("einsum:"):
        import tf_pwa.einsum as E

        cases = [detail["first"]] if key == TIE_KEY else [detail]
        for d in cases:
            shapes = [tuple(s) for s in d["shapes"]]
            arrays = [content(k + 1, sh) for k, sh in enumerate(shapes)]
            expected = np.einsum(d["expr"], *arrays)
            status, got, order = _eval_real(E, tf, d["expr"], arrays, d["set_iteration_order"], np.dtype(d["dtype"]).type)
            ctx.count(1, distinct_key=key)
            if status == "ok" and not (got.shape == expected.shape and np.array_equal(np.real(got), expected)):
                ctx.violation(key, dict(d, replayed=True))
        ctx.cov["traces_validated_against_impl"] = len(cases)
    elif key.startswith("strategy:"):
        from .. import strategies_c05 as S

        name = key[len("strategy:"):].rsplit(":", 1)[0]
        run_strategies(ctx, only=[name])
        ctx.cov["traces_validated_against_impl"] = 1
    else:
        try:
            from .. import session_c05a
        except ImportError:
            raise tlc.MachineryError("no replay for %s" % key)
        if hasattr(session_c05a, "replay"):
            session_c05a.replay(ctx, path)
        else:
            session_c05a.run(ctx)
    ctx.cov["rule"] = "replay of " + key
