"""C06 -- the negative log-likelihood equals its defining formula.

Spec: spec/Likelihood.tla.  TLC checks, in exact arithmetic with formal
logarithms, that the step machine transcribed from model.py / cfit.py /
custom.py (weight blending, alpha, pre-batching, per-batch accumulation,
normalisation of the MC weights, combination, the unbatched value path, the sum
over simultaneous data sets, the constraint term) returns the definition for
every scenario and every batch size, and that the non-extended definition is
invariant under a common rescaling of the amplitude.

Binding (B3): TLC writes the scenario table (model kind x sizes x weight
patterns x background mode x MC weights x constraints x grouping) with the
exact value of the definition on the specification's density tables.  The
numpy transliteration of the definition (harness/lik_c06.py) is first held to
those exact values, then used as the oracle for real FCN objects built through
ConfigLoader.get_fcn(all_data, batch) on small real samples: fcn(params) and
fcn.nll_grad(params)[0] for every batch size, rescaling of the `total`
couplings, simultaneous fit = sum of its parts.
"""
import json
import math
import os
import random

import numpy as np

from .. import tlc
from ..lik_c06 import (
    CFIT_KINDS,
    IMPL_KINDS,
    INVARIANT_ONLY,
    registered_custom_models,
    IMPLS_OF_SPEC,
    SPEC_KINDS,
    Factory,
    def_constr,
    def_group,
    def_nll,
    frac,
    lik_cfg,
    quiet,
    scale_totals,
    take,
    term_scale,
    validate_oracle,
)

LEVEL = "exploration"
REL = 1e-9
ABS = 1e-12
PINNED = {"ragged": "sum", "cached": "eff"}  # values of RaggedSw / CachedEff the specification is checked with
DRIFT = {
    "ragged": ("pack", "cfit_ext:nll_grad:ragged_batch:raise", "ModelCfitExtended.nll_grad_batch raises when the data size is not a multiple of the batch size"),
    "cached": ("noeff", "cfit_cached:nll_grad:eff_value_not_in_integral", "Model_cfit_cached integrates the MC sample without the efficiency"),
    "simple_cfit": ("noeff", "simple_cfit:eff_value_ignored_on_data", "SimpleCFitModel applies no efficiency to the data term"),
}
PARTS = {}  # (sample size, batch size) -> sizes of the batches, from TLC
SLOW_IMPLS = ("cached_int", "cached_amp", "cfit_cached")
ACTIONS = ["Setup", "Blend", "PreBatch", "DataBatch", "DataDone", "MCBatch", "MCDone", "Combine", "ReBlend", "ValueEval", "Finish"]


# --------------------------------------------------------------------------
# building a real FCN for a TLC scenario
# --------------------------------------------------------------------------
class Real:
    """one TLC scenario (core) realised on real events for one implementation kind"""

    def __init__(self, fac, core, impl, rng, mult=1, with_eff=True, jitter=False):
        self.core, self.impl, self.mult = core, impl, mult
        # the definition that applies (None: no documented formula, invariants only) and the configuration entries
        if impl in IMPL_KINDS:
            self.spec_kind, opts = IMPL_KINDS[impl]
        elif impl in INVARIANT_ONLY:
            self.spec_kind, opts = None, INVARIANT_ONLY[impl][1]
        else:  # a registered custom model this file does not know: `data: {model: name}`, invariants only
            self.spec_kind, opts = None, {"model": impl}
        self.cfit = core["kind"] in CFIT_KINDS
        groups = core["groups"]
        self.G = len(groups)
        self.constr_spec = core["constr"]
        constrains = None
        # constrained parameters: phases of the free `total` couplings (unchanged by a rescaling of the magnitudes)
        free_phase = ["A->R_BD.CR_BD->B.D_total_0i", "A->R_CD.BR_CD->C.D_total_0i"]
        self.constr_names = free_phase[: len(self.constr_spec)]
        if self.constr_spec:
            constrains = {"gauss_constr": {nm: [float(frac(c["mu"])), float(frac(c["sg"]))] for nm, c in zip(self.constr_names, self.constr_spec)}}
        # model options of this scenario (a ConfigLoader fixes its model objects at the first get_fcn)
        opts = dict(opts)
        wbs = [1.0 if (g["bgkey"] or not g["nb"]) else float(frac(g["wb"])) for g in groups]  # Model.w_bkg: decoy when the bg sample carries its weights
        phis = [float(frac(g["phi"])) for g in groups]
        if self.cfit:
            opts["bg_frac"] = phis if self.G > 1 else phis[0]
        else:
            opts["bg_weight"] = wbs if self.G > 1 else wbs[0]
        self.opts = opts
        self.constrains = constrains
        self.fac = fac
        self.c, self.pool, self.amp = fac.new_config(opts, constrains)
        self.keep = []
        if self.constr_spec:
            self.constr = dict(self.c.gauss_constr_dic)
            missing = [n for n in self.constr_names if n not in self.amp.vm.trainable_vars]
            if missing:
                raise tlc.MachineryError("constrained parameter not trainable: %s" % missing)
        else:
            self.constr = {}
        npool = fac.pool_size
        self.samples = []
        for g in groups:
            nd, nb, nm = len(g["dw"]) * mult, g["nb"] * mult, len(g["mv"]) * mult
            jit = (lambda n: rng_uniform(rng, n, 0.7, 1.3)) if jitter else (lambda n: np.ones(n))
            dw = np.array([float(frac(x)) for x in g["dw"]] * mult) * jit(nd)
            wb = float(frac(g["wb"]))
            mv = np.array([float(frac(x)) for x in g["mv"]] * mult) * jit(nm)
            phi = float(frac(g["phi"]))
            d_idx = rng.sample(range(npool), nd)
            b_idx = rng.sample(range(npool), nb)
            m_idx = rng.sample(range(npool), nm)
            extra_d, extra_m = {}, {}
            if self.cfit:
                extra_d["bg_value"] = rng_uniform(rng, nd, 0.5, 1.5)
                extra_m["bg_value"] = rng_uniform(rng, nm, 0.5, 1.5)
                if with_eff:
                    extra_d["eff_value"] = rng_uniform(rng, nd, 0.5, 1.5)
                    extra_m["eff_value"] = rng_uniform(rng, nm, 0.5, 1.5)
            data = take(self.pool, d_idx, weight=dw, **extra_d)
            phsp = take(self.pool, m_idx, weight=(mv if g["mckey"] else None), **extra_m)
            bg = None
            if nb:
                bg = take(self.pool, b_idx, weight=(np.full(nb, -wb) if g["bgkey"] else None))
            # what the definition sees
            w_all = np.concatenate([dw, np.full(nb, -wb)])
            self.samples.append(
                dict(data=data, phsp=phsp, bg=bg, all_idx=d_idx + b_idx, m_idx=m_idx, w=w_all, v=(mv if g["mckey"] else np.ones(nm)),
                     phi=phi, eff_d=extra_d.get("eff_value"), eff_m=extra_m.get("eff_value"), b_d=extra_d.get("bg_value"), b_m=extra_m.get("bg_value"))
            )
        self.with_eff = with_eff

    def fcn(self, batch, which=None):
        """the likelihood object of the whole scenario, or (which=[k]) of one data set alone (own ConfigLoader, same parameters)"""
        if which is None:
            c, ss = self.c, self.samples
        else:
            opts = dict(self.opts)
            for k in ("bg_frac", "bg_weight"):
                if isinstance(opts.get(k), list):
                    opts[k] = opts[k][which[0]]
            c, _, amp = self.fac.new_config(opts, self.constrains)
            amp.set_params({k: float(v) for k, v in self.amp.get_params().items()})
            ss = [self.samples[k] for k in which]
        bgs = [s["bg"] for s in ss]
        all_data = ([s["data"] for s in ss], [s["phsp"] for s in ss], (bgs if any(b is not None for b in bgs) else None), None)
        f = quiet(c.get_fcn, all_data=all_data, batch=batch)
        self.keep.append((c, f))  # keep alive: tf_pwa caches by id()
        return f

    def oracle_args(self, params):
        """densities from ONE unbatched amp(.) per sample at `params`"""
        self.amp.set_params(params)
        groups = []
        for s in self.samples:
            f_d = self.amp(take(self.pool, s["all_idx"])).numpy()
            f_m = self.amp(take(self.pool, s["m_idx"])).numpy()
            g = dict(w=s["w"], f_d=f_d, v=s["v"], f_m=f_m)
            if self.cfit:
                nall = len(s["w"])
                g.update(phi=s["phi"], eff_d=s["eff_d"], eff_m=s["eff_m"], b_d=s["b_d"], b_m=s["b_m"])
            if self.spec_kind == "simple_pen":
                # fit-fraction constraints of the configuration: |A_k|^2 of the named components at the MC events
                cf = self.opts["constr_frac"]
                fk = []
                for name, v in cf.items():
                    with self.amp.temp_used_res(v.get("res", name)):
                        fk.append(self.amp(take(self.pool, s["m_idx"])).numpy())
                g.update(fk_m=fk, pen=[(v["value"], v["sigma"]) for v in cf.values()])
            groups.append(g)
        constr = [(float(params[n]), mu, sg) for n, (mu, sg) in self.constr.items()]
        return groups, constr


def rng_uniform(rng, n, lo, hi):
    return np.array([rng.uniform(lo, hi) for _ in range(n)])


def features(core, batch=None, mult=1):
    g = core["groups"]
    f = []
    if len(g) > 1:
        f.append("groups")
    if core["constr"]:
        f.append("constr")
    if any(x["nb"] for x in g):
        f.append("bg_key" if any(x["bgkey"] for x in g) else "bg")
    if any(frac(w) < 0 for x in g for w in x["dw"]):
        f.append("negw")
    if any(x["mckey"] for x in g):
        f.append("mcw")
    if batch is not None:
        ns = [(len(x["dw"]) + x["nb"]) * mult for x in g] + [len(x["mv"]) * mult for x in g]
        if any(n > batch and n % batch for n in ns):
            f.append("ragged")
        elif any(n > batch for n in ns):
            f.append("batched")
    return f


def close(a, b, scale):
    return abs(a - b) <= REL * scale + ABS


# --------------------------------------------------------------------------
def probe_variants(ctx, fac):
    """which of the two transcribed code variants of spec/Likelihood.tla the working tree has
    (RaggedSw, CachedEff); decided by behaviour on a three-event sample"""
    core = {"kind": "cfit_ext", "fscale": 1, "constr": [],
            "groups": [{"dw": [[1, 1], [1, 1], [1, 1]], "nb": 0, "bgkey": False, "wb": [1, 2], "mv": [[1, 1], [2, 1]], "mckey": True, "gm": 1, "phi": [1, 2]}]}
    rng = random.Random(ctx.seed)
    r = Real(fac, core, "cfit_ext", rng)
    p = dict(r.amp.get_params())
    try:
        quiet(r.fcn(2).nll_grad, p)
        ragged = "sum"
    except Exception as e:  # noqa: BLE001
        ragged = "pack"
        ctx.notes.append("cfit_ext nll_grad with 3 events, batch 2 raises %s" % type(e).__name__)
    core2 = dict(core, kind="cfit_cached")
    r2 = Real(fac, core2, "cfit_cached", rng)
    p = dict(r2.amp.get_params())
    groups, constr = r2.oracle_args(p)
    v = quiet(r2.fcn(5).nll_grad, p)[0]
    good = def_nll("cfit_cached", groups, constr)
    bad = def_nll("cfit_cached", groups, constr, variant="cached_noeff")
    if abs(good - bad) < 1e-6:
        raise tlc.MachineryError("variant probe cannot separate the two readings of cfit_cached")
    cached = "eff" if abs(v - good) < abs(v - bad) else "noeff"
    core3 = dict(core, kind="cfit")
    r3 = Real(fac, core3, "simple_cfit", rng)
    p = dict(r3.amp.get_params())
    groups, constr = r3.oracle_args(p)
    v = float(quiet(r3.fcn(5), p))
    good = def_nll("cfit", groups, constr)
    bad = def_nll("cfit", groups, constr, variant="data_noeff")
    if abs(good - bad) < 1e-6:
        raise tlc.MachineryError("variant probe cannot separate the two readings of simple_cfit")
    simple = "eff" if abs(v - good) < abs(v - bad) else "noeff"
    return {"ragged": ragged, "cached": cached, "simple_cfit": simple}


def run(ctx):
    from ..prelude import import_tf_quiet

    import_tf_quiet()
    quick = ctx.tier == "quick"
    rng = random.Random(ctx.seed)
    fac = Factory(ctx.seed, pool_size=96)
    # The specification is pinned to the repaired code (fix: commits 9d7fdfc, 4fded38, 75a0ddd).  The behaviour of
    # the working tree is still observed: a reappearance of an old behaviour is a violation under its old key
    # (it is NOT taken over into the specification).
    variants = probe_variants(ctx, fac)
    ctx.log("code variants (by behaviour):", variants, "specification pinned to:", PINNED)
    for sw_, (bad_value, key, what) in DRIFT.items():
        if variants[sw_] == bad_value:
            ctx.violation(key, {"drift": "the working tree shows the behaviour repaired earlier", "switch": sw_, "observed": bad_value, "what": what})
    ctx.part("switches", observed=dict(variants), pinned=dict(PINNED))
    vkw = dict(ragged=PINNED["ragged"], cached=PINNED["cached"])
    wdir = ctx.work

    # ------------------------------------------------------------------ TLC
    runs = []
    if quick:
        runs.append(("1 data set", dict(max_data=3, max_bg=1, max_mc=2, emit_max=20000), False))
        runs.append(("2 data sets", dict(max_data=2, max_bg=0, max_mc=1, ngroups=2, w="WTiny", v="VTiny", constr="OneConstr", emit_max=5000), True))
    else:
        runs.append(("1 data set", dict(max_data=3, max_bg=2, max_mc=2, w="WFull", v="VFull", bkg="BkgFull", phi="PhiFull"), False))
        runs.append(("1 data set, 3 MC events", dict(max_data=2, max_bg=1, max_mc=3, v="VFull", gm=(1, 2, 3), scales=(1, 2), constr="OneConstr"), False))
        runs.append(("2 data sets", dict(max_data=2, max_bg=1, max_mc=1, ngroups=2, w="WTiny", v="VTiny", constr="TwoConstr"), False))
        runs.append(("2 data sets, emitted", dict(max_data=2, max_bg=0, max_mc=1, ngroups=2, w="WTiny", v="VTiny", constr="OneConstr", emit_max=5000), True))
        runs.append(("1 data set, emitted", dict(max_data=3, max_bg=1, max_mc=2, emit_max=20000), True))
    emitted = []
    tables = None
    from concurrent.futures import ThreadPoolExecutor

    npar = 1 if quick else 2
    def one(i):
        label, kw, cov = runs[i]
        cfg = lik_cfg(os.path.join(wdir, "lik_%d.cfg" % i), **kw, **vkw)
        return tlc.run("Likelihood", cfg, work=os.path.join(wdir, "r%d" % i), workers=max(4, 16 // npar), coverage=cov, timeout=2400)

    with ThreadPoolExecutor(max_workers=npar) as ex:
        results = list(ex.map(one, range(len(runs))))
    for (label, kw, cov), r in zip(runs, results):
        if r.violation:
            raise tlc.MachineryError("Likelihood.tla (%s) violates its theorem %s: the transcription of the algorithm is wrong or the code has a defect the "
                                     "specification does not know; trace tail: %s" % (label, r.violation, r.trace[-1:] if r.trace else ""))
        if cov:
            need = ACTIONS + (["NextGroup"] if kw.get("ngroups", 1) > 1 else [])
            need = [a for a in need if not (a in ("ReBlend", "ValueEval") and "value" not in kw.get("paths", ("grad", "value")))]
            if "mix" in kw.get("paths", ("mix",)):
                need += ["MixBlend", "MixDataBatch", "MixDataDone", "MixMCStart", "MixMCBatch", "MixMCDone"]
            ctx.tlc(r, "Likelihood: " + label, vacuity_actions=need)
        else:
            ctx.tlc(r, "Likelihood: " + label)
            if r.distinct < 1000:
                raise tlc.MachineryError("Likelihood.tla (%s): only %d states" % (label, r.distinct))
        ctx.log("TLC %s: %d states, %.0fs" % (label, r.distinct, r.wall))
        if kw.get("emit_max"):
            if not r.out or r.out["ncores"] != len(r.out["cores"]) or not r.out["cores"]:
                raise tlc.MachineryError("Likelihood.tla (%s): scenario table not emitted (%s cores)" % (label, r.out and r.out.get("ncores")))
            emitted += r.out["cores"]
            tables = r.out["tables"]
            for n, b, sizes in r.out["parts"]:
                PARTS[(n, b)] = list(sizes)
    # The runs above prove AlgEqDef / NoRaise with the repaired switch values on the whole space, which contains
    # the scenarios the two old behaviours affected (extended cfit with ragged batches, cfit_cached with an
    # efficiency).  Counterfactual: with an old switch value TLC must refute the invariant on exactly those
    # scenarios -- the specification can still tell the two behaviours apart.  (If a switch were pinned to an
    # old value the refutation would be a predicted design-level finding.)
    predicted = []
    counterfactual = []
    for name, sw_, old_value, kinds, inv in (("cfit_ext ragged batches", "ragged", "pack", ("cfit_ext",), "NoRaise"),
                                             ("cfit_cached efficiency", "cached", "noeff", ("cfit_cached",), "AlgEqDef")):
        kw = dict(vkw)
        kw[sw_] = old_value
        cfg = lik_cfg(os.path.join(wdir, "lik_defect_%s.cfg" % kinds[0]), max_data=3, max_bg=0, max_mc=2, kinds=kinds, only_defects=True, **kw)
        r = tlc.run("Likelihood", cfg, work=wdir, workers=8, coverage=False, timeout=600, expect_violation=True)
        if r.violation != inv:
            raise tlc.MachineryError("Likelihood.tla: expected %s to fail on the scenarios of '%s' under %s=%s, got %s" % (inv, name, sw_, old_value, r.violation))
        if PINNED[sw_] == old_value:
            ctx.tlc(r, "Likelihood: design-level finding, " + name)
            predicted.append(name)
            last = r.trace[-1][-1] if r.trace else {}
            ctx.notes.append("TLC predicts (%s violated): %s; scenario %s" % (inv, name, json.dumps(last.get("scn"), default=str)[:600]))
        else:
            ctx.tlc(r, "Likelihood: counterfactual (old behaviour refuted), " + name)
            counterfactual.append(name)
        # the affected scenarios under the pinned (repaired) values alone: the invariant must hold
        if PINNED[sw_] != old_value:
            cfg = lik_cfg(os.path.join(wdir, "lik_repaired_%s.cfg" % kinds[0]), max_data=3, max_bg=0, max_mc=2, kinds=kinds, **vkw)
            r = tlc.run("Likelihood", cfg, work=wdir, workers=8, coverage=False, timeout=600)
            if r.violation:
                raise tlc.MachineryError("Likelihood.tla: %s violated for %s under the repaired switch values" % (r.violation, kinds))
            ctx.tlc(r, "Likelihood: repaired, %s proved on all %s scenarios" % (inv, kinds[0]))
    ctx.part("tlc", counterfactual_refutations=counterfactual)
    ctx.part("tlc", predicted_findings=predicted, emitted_scenarios=len(emitted))

    # --------------------------------------------- oracle == exact definition
    dev, bad = validate_oracle(emitted, tables)
    if bad is not None:
        raise tlc.MachineryError("numpy transliteration of Def disagrees with TLC's exact value (rel %.3g) on %s" % (dev, json.dumps(bad)[:500]))
    ctx.part("oracle_validation", scenarios=len(emitted), max_rel_dev=dev)
    ctx.cov["traces_validated_against_impl"] = 0

    stats = replay_all(ctx, fac, emitted, rng, quick, variants)
    ctx.cov["traces_validated_against_impl"] = stats.get("batch_traces", 0)
    ctx.cov["rule"] = (
        "TLC enumerates every scenario (likelihood model x data/background/MC sizes x weight patterns incl. negative x background-weight mode x "
        "MC-weight mode x constraints x grouping x batch size 1..N+1 x value/gradient path) as one behaviour of the step machine and checks "
        "algorithm = definition, partition into batches, alpha idempotence, rescaling invariance exactly; the emitted scenario table is sampled "
        "stratified by (kind, features, sizes) and each chosen scenario is realised as a real FCN through ConfigLoader.get_fcn on phase-space events; "
        "fcn(params), nll_grad(params)[0] for every batch size 1..N+1 at two parameter points, rescaling of all total couplings, CombineFCN = sum of parts "
        "are compared with the numpy transliteration of Def (itself held to TLC's exact values); for the models that batch through _batch_sum the sizes of "
        "the batches actually processed by one nll_grad call are compared with TLC's partition table (traces_validated_against_impl). "
        "evaluations = real NLL evaluations compared; "
        "distinct non-trivial = distinct (implementation kind, scenario, batch) with background, negative or MC weights, constraints, several data sets or more than one batch"
    )
    ctx.assume("numpy.Inf shim (harness/prelude.py) so that tf_pwa.config_loader imports")
    ctx.assume("clip_log is the identity for densities > 1e-6; scenarios with a smaller density are skipped and counted")
    ctx.assume("sum of weights non-zero (alpha defined); the MC integral positive")
    ctx.assume("per-event densities of the oracle come from one unbatched call of the same amplitude object (C06 is about the likelihood, not the amplitude)")
    ctx.assume("cached_int / cached_amp / cfit_cached are used with floating couplings only (their documented domain)")
    ctx.assume("the legacy inject_mc model is not claimed")


def replay_all(ctx, fac, emitted, rng, quick, variants):
    # ---------------------------------------------------------------- replay
    # stratified choice among the TLC scenarios: every spec kind x feature set
    by_stratum = {}
    for c in emitted:
        core = c["core"]
        key = (core["kind"], tuple(features(core)))
        by_stratum.setdefault(key, []).append(c)
    strata = sorted(by_stratum)
    per = 1 if quick else 6
    budget = 9 if quick else 125

    def size(c):
        return sum(len(g["dw"]) + g["nb"] + len(g["mv"]) for g in c["core"]["groups"])

    chosen = []
    for k in strata:
        lst = by_stratum[k]
        rng.shuffle(lst)
        lst.sort(key=size, reverse=True)  # the largest samples first: they have ragged batches
        chosen += lst[:1] + rng.sample(lst[1:], min(per - 1, len(lst) - 1))
    # the cfit_cached kind has only a cache-building implementation: few scenarios
    cc = [c for c in chosen if c["core"]["kind"] == "cfit_cached"]
    chosen = [c for c in chosen if c["core"]["kind"] != "cfit_cached"]
    ncc = 2 if quick else 8
    cc = cc[:: max(1, len(cc) // ncc)][:ncc]
    if len(chosen) > budget - len(cc):
        # thin evenly, keeping every kind represented
        chosen.sort(key=lambda c: (c["core"]["kind"], features(c["core"])))
        step = len(chosen) / (budget - len(cc))
        chosen = [chosen[int(i * step)] for i in range(budget - len(cc))]
    chosen += cc
    rng.shuffle(chosen)
    # every likelihood model that tf_pwa/model/custom.py registers (`data: {model: name}`), from the registry itself
    custom, registry = registered_custom_models()
    forced = []
    for name in custom:
        kind = IMPL_KINDS[name][0] if name in IMPL_KINDS else INVARIANT_ONLY.get(name, ("simple", None))[0]
        cand = sorted([c for c in emitted if c["core"]["kind"] == kind], key=lambda c: (-size(c), json.dumps(c["core"], sort_keys=True)))
        one = [c for c in cand if len(c["core"]["groups"]) == 1 and any(frac(w) < 0 for w in c["core"]["groups"][0]["dw"])]
        two = [c for c in cand if len(c["core"]["groups"]) == 2]
        picks = one[:1] + ([] if quick else two[:1] + one[7:8])
        if not picks:
            raise tlc.MachineryError("no scenario for the registered custom model %s" % name)
        forced += [(name, c) for c in picks]
    # always: the mixture models with NON-uniform MC weights (the weighted normalisation integrals of signal and
    # background are different sums: I_sig = sum v eff |A|^2, I_bg = sum v b), each by its own implementation
    def nonuniform_mc(c):
        gs = c["core"]["groups"]
        return len(gs) == 1 and gs[0]["mckey"] and len(set(tuple(v) for v in gs[0]["mv"])) > 1
    for impl_name in (("cfit",) if quick else ("cfit", "cfit_ext", "cfit_cached", "simple_cfit")):
        kind = IMPL_KINDS[impl_name][0]
        cand = sorted([c for c in emitted if c["core"]["kind"] == kind and nonuniform_mc(c)],
                      key=lambda c: (-size(c), json.dumps(c["core"], sort_keys=True)))
        if not cand and impl_name == "cfit":
            raise tlc.MachineryError("no cfit scenario with non-uniform MC weights among the emitted scenarios")
        forced += [(impl_name, c) for c in cand[:1]]
    # always: the mixed likelihood (MixLogLikehoodFCN), extended over two data sets and non-extended with a background sample
    def has_bg(c):
        return any(g["nb"] for g in c["core"]["groups"])
    def negw(c):
        return any(frac(w) < 0 for g in c["core"]["groups"] for w in g["dw"])
    for impl_name, ngr, pred in (("mix_extended", 2, negw), ("mix_default", 1, has_bg)) + (() if quick else (("mix_default", 2, negw), ("mix_extended", 1, has_bg))):
        kind = IMPL_KINDS[impl_name][0]
        cand = sorted([c for c in emitted if c["core"]["kind"] == kind and len(c["core"]["groups"]) == ngr and pred(c)],
                      key=lambda c: (-size(c), -len(c["core"]["constr"]), json.dumps(c["core"], sort_keys=True)))
        if not cand:
            raise tlc.MachineryError("no scenario for %s with %d data set(s)" % (impl_name, ngr))
        forced += [(impl_name, c) for c in cand[:1]]
    ctx.part("replay", strata=len(strata), chosen=len(chosen), registered_custom_models=custom, custom_scenarios=len(forced))
    stats = {"max_rel_dev": 0.0, "clip_skipped": 0, "scenarios": 0, "evaluations": 0, "scaled": 0, "ext_scaled_changed": 0, "sum_of_parts": 0}
    rot = {}
    for name, c in forced:
        k = rot.get(("impl", name), 0)
        rot[("impl", name)] = k + 1
        replay_core(ctx, fac, c["core"], name, rng, c["maxn"], 1, k % 2 == 0, variants, stats, quick)
    for ci, c in enumerate(chosen):
        core = c["core"]
        # implementation kinds of this spec kind; those that build caches (tf.function tracing per batch,
        # 10-30 s per scenario) take every 7th scenario only
        impls = []
        for i in IMPLS_OF_SPEC[core["kind"]]:
            impls += [i] if i in SLOW_IMPLS else [i] * 6
        n = rot.get(core["kind"], 0)
        rot[core["kind"]] = n + 1
        impl = impls[(n * 5 + 6) % len(impls)] if len(set(impls)) > 1 else impls[0]
        mult = 1 if (quick or ci % 5 or impl in SLOW_IMPLS) else 4
        k = rot.get(("impl", impl), 0)
        rot[("impl", impl)] = k + 1
        with_eff = k % 2 == 0  # cfit family: alternately with and without an efficiency function
        replay_core(ctx, fac, core, impl, rng, c["maxn"], mult, with_eff, variants, stats, quick)
    ctx.part("replay", **stats)
    return stats


def known_key(impl, observer, kind_of_failure):
    return "%s:%s:%s" % (impl, observer, kind_of_failure)


def replay_core(ctx, fac, core, impl, rng, maxn, mult, with_eff, variants, stats, quick=False):
    try:
        real = Real(fac, core, impl, rng, mult=mult, with_eff=with_eff, jitter=(mult > 1))
    except tlc.MachineryError:
        raise
    spec_kind = real.spec_kind
    inv_only = spec_kind is None  # no documented formula: batch independence, fcn() == nll_grad()[0], sum of parts
    amp = real.amp
    p0 = {k: float(v) for k, v in amp.get_params().items()}
    free = list(amp.vm.trainable_vars)
    p1 = dict(p0)
    for n in free:
        p1[n] = p0[n] + rng.gauss(0, 0.3)
    points = [p1] if quick else [p0, p1]
    nmax = maxn * mult
    if impl in SLOW_IMPLS:
        batches = sorted(set([2, maxn + 1])) if maxn > 2 else [1, maxn + 1]
    elif mult == 1:
        batches = list(range(1, maxn + 2))
    else:
        batches = sorted(set([3, mult * 2 - 1, mult * 2, nmax - 1, nmax, nmax + 1]))
    if impl.startswith("mix_"):
        ntot = sum(len(g["dw"]) + g["nb"] for g in core["groups"]) * mult
        batches = sorted(set(batches + [ntot - 1, ntot, ntot + 1]))
    stats["scenarios"] += 1
    sample_done = False
    fcns = {}
    for pi, p in enumerate(points):
        groups, constr = real.oracle_args(p)
        if any(np.min(g["f_d"]) <= 1e-6 or np.min(g["f_m"]) <= 0 for g in groups):
            stats["clip_skipped"] += 1
            continue
        if inv_only:
            try:
                exp = float(quiet(real.fcn(batches[-1]), p))  # the stand-alone NLL is the reference
            except Exception as e:  # noqa: BLE001
                ctx.violation(known_key(impl, "call", "raise"), {"error": repr(e)[:300], "core": core})
                return
            scale = term_scale("simple", groups, constr) + abs(exp)
        else:
            exp = def_nll(spec_kind, groups, constr)
            scale = term_scale(spec_kind, groups, constr)
        if not math.isfinite(exp):
            stats["clip_skipped"] += 1
            continue
        for b in batches:
            feats = features(core, b, mult)
            nontrivial = bool(feats)
            tag = "+".join(feats) or "plain"
            if b not in fcns:
                try:
                    fcns[b] = real.fcn(b)
                except Exception as e:  # noqa: BLE001
                    ctx.violation(known_key(impl, "get_fcn", "raise:" + tag), {"error": repr(e)[:300], "core": core, "batch": b})
                    fcns[b] = None
            fcn = fcns[b]
            if fcn is None:
                continue
            got = {}
            for obs in ("call", "nll_grad"):
                if obs == "call" and b not in (batches[0], batches[-1]):
                    continue  # FCN.__call__ is not batched; observed through the first and the last FCN only
                try:
                    got[obs] = float(quiet(fcn, p)) if obs == "call" else float(quiet(fcn.nll_grad, p)[0])
                except Exception as e:  # noqa: BLE001
                    ragged = "ragged" in feats
                    if impl == "cfit_ext" and obs == "nll_grad" and ragged and variants["ragged"] == "pack" and "Shapes of all inputs must match" in str(e):
                        key = "cfit_ext:nll_grad:ragged_batch:raise"
                    else:
                        key = known_key(impl, obs, "raise:" + tag)
                    ctx.violation(key, {"error": repr(e)[:300], "core": core, "batch": b, "mult": mult})
                    continue
                stats["evaluations"] += 1
                ctx.count(1, distinct_key=(impl, json.dumps(core, sort_keys=True), b, mult), nontrivial=nontrivial)
                dev = abs(got[obs] - exp) / scale
                if close(got[obs], exp, scale):
                    stats["max_rel_dev"] = max(stats["max_rel_dev"], dev)
                    continue
                # is it one of the two wrong evaluations the specification transcribes?
                key = known_key(impl, obs, ("batch_dependence:" if inv_only else "def_mismatch:") + tag)
                if real.cfit and with_eff:
                    if impl == "cfit_cached" and obs == "nll_grad" and close(got[obs], def_nll(spec_kind, groups, constr, variant="cached_noeff"), scale):
                        key = "cfit_cached:nll_grad:eff_value_not_in_integral"
                    if impl == "simple_cfit" and close(got[obs], def_nll(spec_kind, groups, constr, variant="data_noeff"), scale):
                        key = "simple_cfit:eff_value_ignored_on_data"
                ctx.violation(key, {"got": got[obs], "definition": exp, "rel_dev": dev, "core": core, "batch": b, "mult": mult, "point": pi, "with_eff": with_eff,
                                    "weights": [g["w"].tolist() for g in groups]})
            if not sample_done and len(got) == 2 and b == batches[-1]:
                ctx.sample({"impl_kind": impl, "scenario": core, "batch": b, "events_per_abstract_event": mult, "fcn": got["call"], "nll_grad[0]": got["nll_grad"], "definition": exp})
                sample_done = True
        # ---- the batches the code processes are the partition of the specification (one ragged batch size)
        if pi == 0 and mult == 1 and impl in ("default", "extended", "cfit", "cfit_ext") and real.G == 1:
            record_batches(ctx, real, core, impl, p, batches, fcns, stats)
        # ---- rescaling of all `total` couplings (largest batch size only)
        fcn = fcns.get(batches[-1])
        if fcn is not None:
            lam = 1.7
            ps, names = scale_totals(p, lam)
            if not names:
                raise tlc.MachineryError("no total couplings found to rescale")
            try:
                v0, v1 = float(quiet(fcn, p)), float(quiet(fcn, ps))
                g0 = float(quiet(fcn.nll_grad, ps)[0])
            except Exception:  # noqa: BLE001  (already reported above)
                v0 = v1 = g0 = None
            if v0 is not None and math.isfinite(v0):
                stats["scaled"] += 1
                stats["evaluations"] += 2
                ctx.count(2)
                if inv_only:
                    # no claim about rescaling without a documented formula; value with gradient = stand-alone NLL there too
                    if not close(v1, g0, scale + abs(v1)):
                        ctx.violation(known_key(impl, "nll_grad", "value_differs_from_call"), {"fcn": v1, "nll_grad[0]": g0, "core": core})
                elif spec_kind in ("extended", "cfit_ext"):
                    stats["ext_scaled_changed"] += int(not close(v0, v1, scale))
                else:
                    known_wrong = (impl == "cfit_cached" and with_eff and variants["cached"] == "noeff") or (impl == "simple_cfit" and with_eff and variants["simple_cfit"] == "noeff")
                    if not close(v0, v1, scale):
                        ctx.violation(known_key(impl, "call", "rescaling"), {"nll": v0, "nll_rescaled": v1, "lambda": lam, "core": core})
                    if not close(v0, g0, scale) and not known_wrong:
                        ctx.violation(known_key(impl, "nll_grad", "rescaling"), {"nll": v0, "nll_grad_rescaled": g0, "lambda": lam, "core": core})
            amp.set_params(p)
        # ---- simultaneous fit = sum of its parts
        if real.G > 1 and pi == 0:
            b = batches[len(batches) // 2]
            try:
                tot = float(quiet(fcns[b], p)) if fcns.get(b) is not None else None
                parts = [float(quiet(real.fcn(b, which=[k]), p)) for k in range(real.G)]
            except Exception:  # noqa: BLE001
                tot = None
            if tot is not None:
                cterm = def_constr(constr)
                stats["sum_of_parts"] += 1
                stats["evaluations"] += 1 + real.G
                ctx.count(1 + real.G)
                if not close(tot, sum(parts) - (real.G - 1) * cterm, scale):
                    ctx.violation(known_key(impl, "call", "sum_of_parts"), {"combined": tot, "parts": parts, "constraint_term": cterm, "core": core, "batch": b})


def record_batches(ctx, real, core, impl, p, batches, fcns, stats):
    """wrap tf_pwa.model.model._batch_sum (from the harness; nothing is changed in /repo) for one nll_grad call and
    compare the sizes of the processed batches, in order, with the partition TLC computed (invariant Partition)"""
    import tf_pwa.model.model as mm

    g = core["groups"][0]
    n, nm = len(g["dw"]) + g["nb"], len(g["mv"])
    ragged = [b for b in batches if (n > b and n % b) or (nm > b and nm % b)]
    b = ragged[0] if ragged else batches[0]
    fcn = fcns.get(b)
    if fcn is None or (n, b) not in PARTS or (nm, b) not in PARTS:
        return
    seen = []
    orig = mm._batch_sum

    def spy(f, data_i, weight_i, *a, **kw):
        seen.append(int(np.size(np.asarray(weight_i))))
        return orig(f, data_i, weight_i, *a, **kw)

    mm._batch_sum = spy
    try:
        quiet(fcn.nll_grad, p)
    except Exception:  # noqa: BLE001  (reported by the main loop)
        return
    finally:
        mm._batch_sum = orig
    d, m = PARTS[(n, b)], PARTS[(nm, b)]
    expect = (m + m + d) if impl in ("cfit", "cfit_ext") else (d + m)  # cfit: signal integral, background integral, data
    stats["batch_traces"] = stats.get("batch_traces", 0) + 1
    ctx.count(1, distinct_key=("batches", impl, n, nm, b))
    if seen != expect:
        ctx.violation(known_key(impl, "nll_grad", "batches_partition"), {"processed_batch_sizes": seen, "specification": expect, "n": n, "n_mc": nm, "batch": b, "core": core})


def replay(ctx, path):
    run(ctx)
