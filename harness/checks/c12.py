"""C12 -- rotation-group functions (Wigner d/D, Clebsch-Gordan, SU(2) Euler angles) are exact.

Spec: spec/Tables.tla.  Every table cell (d-weight row, CG coefficient, CG
orthonormality relation, delta-index list, Blatt-Weisskopf / Legendre row) is
one TLC state; the theorems that validate the transcription (d(0)=1, d(pi)
antidiagonal, symmetries, exact unitarity of d(pi/2), CG symmetries, anchors
and orthonormality, decode property of the gather list) are invariants.

Binding B3:
  exact, exhaustive (D-content)
    * small_d_weight(2j)[l][m][n]   == TLC DWeight      (all 2j <= 8)
    * delta_D_index / Dfun_delta_v2 / Dfun_delta == TLC DeltaIndex
    * cg_coef, get_cg_coef, cg_table.json == TLC CG2   (quick j1,j2 <= 2, thorough <= 4, every J)
  numeric, sampled (N-content; reference assembled from the TLC weights)
    * small_d_matrix / D_matrix_conj vs sum_l w_l s^l c^(2j-l), incl. beta = 0, pi
    * unitarity, group law D(R1)D(R2) = D(R1R2) with Euler angles of the product from SU2M
    * SU2M.get_euler_angle / inv / product on rotation-boost-rotation loops that close to a rotation
"""
import json
import math
import os
from fractions import Fraction

import numpy as np

from .. import tlc

LEVEL = "model_checking"

CAP = 5  # violations reported per part (a systematic defect would otherwise write thousands of replays)


def _cfg(ctx, maxcg2, maxhel2):
    p = os.path.join(ctx.work, "tables_%d_%d.cfg" % (maxcg2, maxhel2))
    with open(p, "w") as f:
        f.write(
            "CONSTANTS MaxD2 = 8\n MaxCG2 = %d\n MaxIdxJ2 = 8\n MaxHel2 = %d\n MaxL = 6\n MaxPJ = 4\n"
            "INIT Init\nNEXT Next\n"
            "INVARIANT InvDWeights\nINVARIANT InvDUnitary\nINVARIANT InvDelta\nINVARIANT InvCGSymmetry\n"
            "INVARIANT InvCGOrtho\nINVARIANT InvBW\nINVARIANT InvPJ\n"
            "POSTCONDITION Post\nCHECK_DEADLOCK FALSE\n" % (maxcg2, maxhel2)
        )
    return p


def spin(x2):
    """doubled value -> what tf-pwa passes around (int for integers, float for half-integers)"""
    return x2 // 2 if x2 % 2 == 0 else x2 / 2


class Capped:
    def __init__(self, ctx):
        self.ctx = ctx
        self.n = {}

    def __call__(self, part, key, detail):
        self.n[part] = self.n.get(part, 0) + 1
        if self.n[part] <= CAP:
            self.ctx.violation(key, detail)


def mx(a):
    """max of a possibly empty / NaN-carrying array (for the coverage report only)"""
    a = np.asarray(a, dtype=float)
    a = a[np.isfinite(a)]
    return float(a.max()) if a.size else 0.0


def run_tlc(*a, **kw):
    """one retry on a machinery failure of TLC itself (JVM start under memory pressure of concurrent checks)"""
    try:
        return tlc.run(*a, **kw)
    except tlc.MachineryError as e:
        if "timed out" in str(e) or "Parsing or semantic analysis failed" in str(e):
            raise
        return tlc.run(*a, **kw)


def cg_exact(e, primes):
    """TLC entry <<sign, |S|, E>> -> (sign, exact CG^2 as Fraction)"""
    sgn, s, ev = e
    if sgn == 0:
        return 0, Fraction(0)
    v = Fraction(s * s)
    for p, k in zip(primes, ev):
        v *= Fraction(p) ** k
    return sgn, v


def close_sq(x, sgn, sq, rel):
    """float x identifies sign*sqrt(sq) (sq an exact Fraction) to relative accuracy rel on the square"""
    if sgn == 0:
        return x == 0.0
    if (x > 0) != (sgn > 0) or x == 0.0:
        return False
    fx = Fraction(x) ** 2
    return abs(fx - sq) <= sq * rel


# --------------------------------------------------------------------------
# numpy-side SU(2) helpers (independent transcription, used to build loops and references)
# --------------------------------------------------------------------------
def n_rz(a):
    z = np.zeros_like(a, dtype=complex)
    return np.array([[np.exp(-0.5j * a), z], [z, np.exp(0.5j * a)]]).transpose(2, 0, 1)


def n_ry(b):
    c, s = np.cos(b / 2) + 0j, np.sin(b / 2) + 0j
    return np.array([[c, -s], [s, c]]).transpose(2, 0, 1)


def n_bz(w):
    z = np.zeros_like(w, dtype=complex)
    return np.array([[np.exp(-w / 2) + 0j, z], [z, np.exp(w / 2) + 0j]]).transpose(2, 0, 1)


def n_euler(U):
    """U = Rz(a) Ry(b) Rz(c)  ->  a, b, c  (numpy; for unitary U of determinant one)"""
    b = 2 * np.arctan2(np.abs(U[:, 1, 0]), np.abs(U[:, 0, 0]))
    big_c = np.abs(U[:, 1, 1]) > 1e-12
    big_s = np.abs(U[:, 1, 0]) > 1e-12
    apc = np.where(big_c, np.angle(np.where(big_c, U[:, 1, 1], 1)), 0.0)  # (a+c)/2
    amc = np.where(big_s, np.angle(np.where(big_s, U[:, 1, 0], 1)), 0.0)  # (a-c)/2
    return apc + amc, b, apc - amc


def run(ctx):
    quick = ctx.tier == "quick"
    maxcg2 = 4 if quick else 8
    maxhel2 = 2 if quick else 4
    r = run_tlc("Tables", _cfg(ctx, maxcg2, maxhel2), work=ctx.work, workers=16, timeout=2400)
    if r.violation:
        raise tlc.MachineryError("Tables spec violates its own theorem %s (transcription error in the spec)" % r.violation)
    ctx.tlc(r, "Tables MaxD2=8 MaxCG2=%d MaxHel2=%d" % (maxcg2, maxhel2))
    T = r.out
    ncells = sum(T["ncells"].values())
    if r.distinct != ncells:
        raise tlc.MachineryError("Tables: %d states but %d cells" % (r.distinct, ncells))
    if len(T["dweights"]) != T["ncells"]["d"] or len(T["cg"]) != T["ncells"]["cg"] or len(T["delta"]) != T["ncells"]["delta"]:
        raise tlc.MachineryError("Tables: JSON tables incomplete")
    primes = T["primes"]
    ctx.cov["exhaustive"] = True
    ctx.log("TLC: %d cells %s in %.1fs" % (ncells, T["ncells"], r.wall))
    viol = Capped(ctx)

    from tf_pwa import cg as cgmod
    from tf_pwa import dfun
    from tf_pwa.angle import SU2M

    tf = dfun.tf
    validated = 0

    # ------------------------------------------------------------------
    # A. small_d_weight, exact, exhaustive
    # ------------------------------------------------------------------
    W = {}  # j2 -> float array [l][m][n] from the TLC table
    nA = 0
    nzero = 0
    REL = Fraction(1, 2**44)
    by_j = {}
    for j2, m2, n2, row in T["dweights"]:
        by_j.setdefault(j2, []).append((m2, n2, row))
    for j2 in sorted(by_j):
        try:
            w = np.asarray(dfun.small_d_weight(j2))
        except Exception as e:  # noqa: BLE001
            viol("A", "dweight:j2=%d:raise" % j2, {"error": repr(e)})
            continue
        if w.shape != (j2 + 1, j2 + 1, j2 + 1):
            viol("A", "dweight:j2=%d:shape" % j2, {"shape": list(w.shape)})
            continue
        ref = np.zeros((j2 + 1, j2 + 1, j2 + 1))
        if len(by_j[j2]) != (j2 + 1) ** 2:
            raise tlc.MachineryError("d-weight table incomplete for j2=%d" % j2)
        for m2, n2, row in by_j[j2]:
            im, in_ = (m2 + j2) // 2, (n2 + j2) // 2
            ctx.count(0, distinct_key=("d", j2, m2, n2))
            for l, (sgn, num, den) in enumerate(row):
                x = float(w[l][im][in_])
                nA += 1
                nzero += sgn == 0
                ref[l][im][in_] = sgn * math.sqrt(num) / den
                if not close_sq(x, sgn, Fraction(num, den * den), REL):
                    viol("A", "dweight:j2=%d,m2=%d,n2=%d,l=%d" % (j2, m2, n2, l),
                         {"got": x, "expected": "%+d*sqrt(%d)/%d" % (sgn, num, den), "expected_float": ref[l][im][in_]})
            validated += 1
        W[j2] = ref
    ctx.count(nA)
    ctx.part("A_small_d_weight", entries=nA, zero_entries=int(nzero), rows=len(T["dweights"]), max_2j=max(by_j))
    ctx.sample({"part": "A", "cell(j2,m2,n2)": T["dweights"][len(T["dweights"]) // 2][:3],
                "weights<<sign,num,den>> per l": T["dweights"][len(T["dweights"]) // 2][3]})

    # ------------------------------------------------------------------
    # B. delta_D_index, exact, exhaustive over the TLC cells; gather semantics on coded matrices
    # ------------------------------------------------------------------
    nB = nBg = novf = 0
    stride = 1 if quick else 5
    for i, (j2, la2, lb2, lc2, idx) in enumerate(T["delta"]):
        j = spin(j2)
        la, lb, lc = [tuple(spin(x) for x in l) for l in (la2, lb2, lc2)]
        key = "delta:j2=%d:la=%s:lb=%s:lc=%s" % (j2, la2, lb2, lc2)
        try:
            got = [int(x) for x in dfun.delta_D_index(j, la, lb, lc)]
        except Exception as e:  # noqa: BLE001
            viol("B", key + ":raise", {"error": repr(e)})
            continue
        nB += 1
        validated += 1
        n = j2 + 1
        novf += sum(1 for x in idx if x == n * n)
        ctx.count(1, distinct_key=("delta", j2, tuple(la2), tuple(lb2), tuple(lc2)), nontrivial=len(idx) > 1)
        if got != idx:
            viol("B", key, {"got": got, "expected": idx})
            continue
        if i % stride:
            continue
        # the gather itself: D coded so that entry (row, col) is recognisable
        dm = (np.arange(n * n, dtype=np.float64) + 1.0).reshape(1, n, n) * np.array([1.0, -2.0]).reshape(2, 1, 1)
        want = np.array([[0.0 if x == n * n else s * (x + 1.0) for x in idx] for s in (1.0, -2.0)]).reshape(2, len(la), len(lb), len(lc))
        try:
            g2 = np.asarray(dfun.Dfun_delta_v2(tf.constant(dm), j, la, lb, lc))
            g1 = np.asarray(dfun.Dfun_delta(tf.constant(dm), j, la, lb, lc))
        except Exception as e:  # noqa: BLE001
            viol("B", key + ":gather:raise", {"error": repr(e)})
            continue
        nBg += 1
        if g2.shape != want.shape or not np.array_equal(g2, want):
            viol("B", key + ":Dfun_delta_v2", {"got": g2.tolist(), "expected": want.tolist()})
        if g1.shape != want.shape or not np.array_equal(g1, want):
            viol("B", key + ":Dfun_delta", {"got": g1.tolist(), "expected": want.tolist()})
    ctx.count(nBg)
    ctx.part("B_delta_index", lists=nB, gathers=nBg, overflow_entries=novf, max_daughter_2j=maxhel2)
    if novf == 0:
        raise tlc.MachineryError("delta-index table never uses the overflow slot (vacuous)")
    mid = T["delta"][len(T["delta"]) // 3]
    ctx.sample({"part": "B", "j2": mid[0], "la2": mid[1], "lb2": mid[2], "lc2": mid[3], "index": mid[4]})

    # ------------------------------------------------------------------
    # C. Clebsch-Gordan: cg_coef (sympy), get_cg_coef (bundled table + symmetry), cg_table.json itself
    # ------------------------------------------------------------------
    RELC = Fraction(1, 10**12)
    exact = {}
    nC = nnz = nG = nGskip = 0
    shortcut_outside = []
    for a2, al2, b2, be2, c2, e in T["cg"]:
        sgn, sq = cg_exact(e, primes)
        exact[(a2, al2, b2, be2, c2)] = (sgn, sq)
        j1, m1, j2_, m2_, J, M = spin(a2), spin(al2), spin(b2), spin(be2), spin(c2), spin(al2 + be2)
        key = "j1=%s,m1=%s,j2=%s,m2=%s,J=%s" % (j1, m1, j2_, m2_, J)
        ctx.count(0, distinct_key=("cg", a2, al2, b2, be2, c2), nontrivial=sgn != 0)
        try:
            x = float(cgmod.cg_coef(j1, j2_, m1, m2_, J, M))
        except Exception as ex:  # noqa: BLE001
            viol("C", "cg_coef:" + key + ":raise", {"error": repr(ex)})
            continue
        nC += 1
        nnz += sgn != 0
        validated += 1
        ok = close_sq(x, sgn, sq, RELC) if sgn != 0 else abs(x) < 1e-14
        if not ok:
            viol("C", "cg_coef:" + key, {"got": x, "expected_sign": sgn, "expected_square": str(sq)})
        # M != m1 + m2 -> 0
        if abs(al2 + be2 + 2) <= c2 and (a2 + b2 + c2) % 2 == 0:
            x2 = float(cgmod.cg_coef(j1, j2_, m1, m2_, J, spin(al2 + be2 + 2)))
            nC += 1
            if abs(x2) > 1e-14:
                viol("C", "cg_coef:" + key + ":M=m1+m2+1", {"got": x2, "expected": 0})
        # fallback: defined for integer spins only (keys of the bundled table are str(int))
        if a2 % 2 == 0 and b2 % 2 == 0 and a2 <= 8 and b2 <= 8:
            inside = sgn != 0 or (abs(a2 - b2) <= c2 <= a2 + b2 and abs(al2 + be2) <= c2)
            if (a2 == 0 or b2 == 0) and not inside:
                # get_cg_coef returns 1.0 for j1 == 0 or j2 == 0 without looking at J: outside the
                # triangle this is not a table entry and tf-pwa never asks for it (LS lists obey the
                # triangle); recorded as an observation, not judged
                g = cgmod.get_cg_coef(j1, j2_, m1, m2_, J, M)
                if g != 0.0 and len(shortcut_outside) < 3:
                    shortcut_outside.append({"args(j1,j2,m1,m2,J,M)": [j1, j2_, m1, m2_, J, M], "get_cg_coef": g, "exact": 0})
                nGskip += 1
                continue
            try:
                g = float(cgmod.get_cg_coef(j1, j2_, m1, m2_, J, M))
            except Exception as ex:  # noqa: BLE001
                viol("C", "get_cg_coef:" + key + ":raise", {"error": repr(ex)})
                continue
            nG += 1
            ok = close_sq(g, sgn, sq, RELC) if sgn != 0 else abs(g) < 1e-14
            if not ok:
                viol("C", "get_cg_coef:" + key, {"got": g, "expected_sign": sgn, "expected_square": str(sq)})
    ctx.count(nC + nG)
    # the JSON file itself, every entry that lies in the enumerated domain
    nT = nTout = 0

    def walk(d, path):
        if isinstance(d, dict):
            for k, v in d.items():
                yield from walk(v, path + [k])
        else:
            yield path, d

    for path, val in walk(cgmod.cg_table, []):
        try:
            j1, j2_, m1, m2_, J, M = [int(x) for x in path]
        except Exception:  # noqa: BLE001
            viol("C", "cg_table:key=%s" % "/".join(path), {"problem": "non-integer key"})
            continue
        k = (2 * j1, 2 * m1, 2 * j2_, 2 * m2_, 2 * J)
        if M != m1 + m2_:
            nT += 1
            if abs(val) > 1e-14:
                viol("C", "cg_table:%s" % "/".join(path), {"got": val, "expected": 0, "why": "M != m1+m2"})
            continue
        if k not in exact:
            nTout += 1
            continue
        sgn, sq = exact[k]
        nT += 1
        ok = close_sq(float(val), sgn, sq, RELC) if sgn != 0 else abs(val) < 1e-14
        if not ok:
            viol("C", "cg_table:%s" % "/".join(path), {"got": val, "expected_sign": sgn, "expected_square": str(sq)})
    ctx.count(nT)
    if nT == 0:
        raise tlc.MachineryError("no entry of cg_table.json lies in the enumerated domain")
    ctx.part("C_clebsch_gordan", cg_coef_calls=nC, nonzero_exact=int(nnz), get_cg_coef_calls=nG,
             get_cg_coef_shortcut_outside_triangle_not_judged=nGskip, table_entries_compared=nT,
             table_entries_outside_tier_domain=nTout, max_2j=maxcg2)
    if shortcut_outside:
        ctx.notes.append({"observation": "get_cg_coef returns 1.0 whenever j1==0 or j2==0, also outside the triangle "
                                         "(exact value 0); not a table entry and never requested by tf-pwa; not judged",
                          "examples": shortcut_outside})
    for a2, al2, b2, be2, c2, e in T["cg"]:
        if e[0] == -1 and a2 == 3 and c2 == 4:
            sgn, sq = cg_exact(e, primes)
            ctx.sample({"part": "C", "cell(2j1,2m1,2j2,2m2,2J)": [a2, al2, b2, be2, c2], "TLC<<sign,|S|,E>>": e,
                        "CG^2": str(sq), "primes": primes})
            break

    # ------------------------------------------------------------------
    # N. numeric part (sampled).  Reference d-functions from the TLC weights.
    # ------------------------------------------------------------------
    rng = np.random.default_rng(ctx.seed)
    nang = 200 if quick else 10000
    chunk = 2000

    def d_ref(beta, j2):
        s, c = np.sin(beta / 2), np.cos(beta / 2)
        ls = np.arange(j2 + 1)
        sc = s[:, None] ** ls[None, :] * c[:, None] ** (j2 - ls[None, :])
        return np.einsum("il,lmn->imn", sc, W[j2])

    def D_ref(al, be, ga, j2):
        """D^j_{mn} = exp(-i m al) d_mn(be) exp(-i n ga), m, n ascending"""
        m = np.arange(-j2, j2 + 1, 2) / 2
        return np.exp(-1j * al[:, None, None] * m[None, :, None]) * d_ref(be, j2) * np.exp(-1j * ga[:, None, None] * m[None, None, :])

    def Dc(al, be, ga, j2):
        return np.asarray(dfun.D_matrix_conj(tf.constant(al), tf.constant(be), tf.constant(ga), j2))

    special = np.array([0.0, np.pi, np.pi / 2, 1e-7, np.pi - 1e-7, 2 * np.pi / 3, 1e-3])
    nN = 0
    worst = {"small_d": 0.0, "D": 0.0, "unitary": 0.0, "group": 0.0, "euler": 0.0, "loop": 0.0}
    for j2 in sorted(W):
        eye = np.eye(j2 + 1)
        for lo in range(0, nang, chunk):
            n = min(chunk, nang - lo)
            be = np.concatenate([special, rng.uniform(0, np.pi, n)]) if lo == 0 else rng.uniform(0, np.pi, n)
            al = rng.uniform(-np.pi, np.pi, be.size)
            ga = rng.uniform(-np.pi, np.pi, be.size)
            # N1 small d vs weights
            got = np.asarray(dfun.small_d_matrix(tf.constant(be), j2))
            ref = d_ref(be, j2)
            err = np.abs(got - ref).max(axis=(1, 2))
            worst["small_d"] = max(worst["small_d"], mx(err))
            nN += be.size
            bad = np.where(~(err <= 1e-10))[0]
            if bad.size:
                i = int(bad[0])
                tag = "beta=0" if be[i] == 0.0 else "beta=pi" if be[i] == np.pi else "beta=sampled"
                viol("N1", "small_d_matrix:j2=%d:%s" % (j2, tag), {"beta": float(be[i]), "max_abs_err": float(err[i]), "got": got[i].tolist(), "expected": ref[i].tolist()})
            if lo == 0:
                # exact boundary values: d(0) = 1, d(pi)_{mn} = (-1)^(j-n) delta_{m,-n}
                anti = np.zeros((j2 + 1, j2 + 1))
                for in_ in range(j2 + 1):
                    n2_ = 2 * in_ - j2
                    anti[j2 - in_, in_] = (-1) ** ((j2 - n2_) // 2)
                if np.abs(got[0] - eye).max() > 1e-14:
                    viol("N1", "small_d_matrix:j2=%d:d(0)!=1" % j2, {"got": got[0].tolist()})
                if np.abs(got[1] - anti).max() > 1e-12:
                    viol("N1", "small_d_matrix:j2=%d:d(pi)" % j2, {"got": got[1].tolist(), "expected": anti.tolist()})
            # N2 D* = exp(i m a) d exp(i n g)
            dc = Dc(al, be, ga, j2)
            D = np.conj(dc)
            errD = np.abs(D - D_ref(al, be, ga, j2)).max(axis=(1, 2))
            worst["D"] = max(worst["D"], mx(errD))
            bad = np.where(~(errD <= 1e-10))[0]
            if bad.size:
                i = int(bad[0])
                viol("N2", "D_matrix_conj:j2=%d" % j2, {"alpha": al[i], "beta": be[i], "gamma": ga[i], "max_abs_err": float(errD[i])})
            # N3 unitarity
            errU = np.abs(np.einsum("imk,ink->imn", D, np.conj(D)) - eye).max(axis=(1, 2))
            worst["unitary"] = max(worst["unitary"], mx(errU))
            bad = np.where(~(errU <= 1e-10))[0]
            if bad.size:
                i = int(bad[0])
                viol("N3", "unitarity:j2=%d" % j2, {"alpha": al[i], "beta": be[i], "gamma": ga[i], "max_abs_err": float(errU[i])})
            nN += 2 * be.size
            if lo == 0:
                # get_D_matrix_lambda = D*_{la, lb-lc}(alpha,beta,gamma) or 0, reference from the TLC weights
                jb2 = 2 if j2 % 2 == 0 else 1
                la = tuple(spin(x) for x in range(-j2, j2 + 1, 2))
                lb = tuple(spin(x) for x in range(-jb2, jb2 + 1, 2))
                for lc in ((0,), None, (1, -1, 0)):
                    angd = {"alpha": tf.constant(al), "beta": tf.constant(be), "gamma": tf.constant(ga)}
                    gotl = np.asarray(dfun.get_D_matrix_lambda(angd, spin(j2), la, lb, lc) if lc is not None
                                      else dfun.get_D_matrix_lambda(angd, spin(j2), la, lb))
                    Dcr = np.conj(D_ref(al, be, ga, j2))
                    lcc = (0,) if lc is None else lc
                    want = np.zeros((be.size, len(la), len(lb), len(lcc)), dtype=complex)
                    for ib, hb in enumerate(lb):
                        for ic, hc in enumerate(lcc):
                            dl2 = int(round(2 * (hb - hc)))
                            if abs(dl2) <= j2:
                                want[:, :, ib, ic] = Dcr[:, :, (dl2 + j2) // 2]
                    if lc is None:
                        want = want[..., 0]
                    if gotl.shape != want.shape or not (np.abs(gotl - want).max() <= 1e-10):
                        viol("N2", "get_D_matrix_lambda:j2=%d:lc=%s" % (j2, lc), {"shape": list(gotl.shape), "expected_shape": list(want.shape)})
                    nN += be.size
            # N4 group law with Euler angles of the product from SU2M
            be2 = rng.uniform(0, np.pi, be.size)
            if lo == 0:
                be2[:3] = [np.pi, 0.0, np.pi / 2]
            al2 = rng.uniform(-np.pi, np.pi, be.size)
            ga2 = rng.uniform(-np.pi, np.pi, be.size)
            if lo == 0 and be.size > 12:
                # R2 = R1^-1 (product = identity) and R2 = R1 (double angle)
                al2[8], be2[8], ga2[8] = -ga[8] + np.pi, be[8], -al[8] - np.pi
                al2[9], be2[9], ga2[9] = al[9], be[9], ga[9]
            T_ = tf.constant
            X = (SU2M.Rotation_z(T_(al)) * SU2M.Rotation_y(T_(be)) * SU2M.Rotation_z(T_(ga))
                 * SU2M.Rotation_z(T_(al2)) * SU2M.Rotation_y(T_(be2)) * SU2M.Rotation_z(T_(ga2)))
            ang = X.get_euler_angle()
            a_, b_, g_ = [np.asarray(ang[k]) for k in ("alpha", "beta", "gamma")]
            D2 = np.conj(Dc(al2, be2, ga2, j2))
            Dp = np.conj(Dc(g_, b_, a_, j2))  # X = Rz(gamma) Ry(beta) Rz(alpha) in SU2M's EulerAngle convention
            errG = np.abs(np.einsum("imk,ikn->imn", D, D2) - Dp).max(axis=(1, 2))
            tolG = np.where(np.sin(b_) >= 1e-4, 1e-8, 1e-5) * max(1, j2)
            okG = errG <= tolG
            worst["group"] = max(worst["group"], mx(errG[np.sin(b_) >= 1e-4]))
            nN += be.size
            if not okG.all():
                i = int(np.where(~okG)[0][0])
                viol("N4", "group_law:j2=%d" % j2, {"R1": [al[i], be[i], ga[i]], "R2": [al2[i], be2[i], ga2[i]],
                                                    "euler_of_product": [a_[i], b_[i], g_[i]], "max_abs_err": float(errG[i])})
            if lo == 0 and j2 == 1:
                # j = 1/2: the D-matrix is the SU2M matrix itself (basis order +,- in SU2M, -,+ in dfun)
                X1 = SU2M.Rotation_z(T_(al)) * SU2M.Rotation_y(T_(be)) * SU2M.Rotation_z(T_(ga))
                x = np.array([[np.asarray(X1["x"][a][b]) for b in (0, 1)] for a in (0, 1)]).transpose(2, 0, 1)
                errH = np.abs(x[:, ::-1, ::-1] - D).max()
                if errH > 1e-12:
                    viol("N4", "spin_half:D!=SU2M", {"max_abs_err": float(errH)})
    ctx.count(nN)
    ctx.part("N_dfun_numeric", angle_triples_per_j=nang + len(special), max_abs_err={k: worst[k] for k in ("small_d", "D", "unitary", "group")})

    # N5 SU2M on rotation * boost * rotation * boost * rotation loops that close to a pure rotation:
    #    A = E1 Bz(w1) E2 Bz(w2) E3  (E_i = Rz Ry Rz);  A = U H (polar decomposition), H = V Bz(-zeta) V^-1,
    #    so A * V Bz(zeta) V^-1 = U is a pure rotation (the Wigner rotation of the loop)
    nloop = 2000 if quick else 50000
    e_ = [rng.uniform(-np.pi, np.pi, nloop) for _ in range(6)]
    bb = [rng.uniform(0, np.pi, nloop) for _ in range(3)]
    w1 = rng.uniform(0, 1.5, nloop)
    w2 = rng.uniform(0, 1.5, nloop)
    # explicit special cases: no boost, beta = 0 / pi, identity
    w1[:4] = 0.0
    w2[:4] = 0.0
    for k in range(3):
        bb[k][0] = 0.0
    bb[0][1], bb[1][1], bb[2][1] = np.pi, 0.0, 0.0
    # E2 = E1^-1, E3 = 1 :  (Rz(a)Ry(b)Rz(c))^-1 = Rz(-c+pi) Ry(b) Rz(-a-pi)
    e_[0][2], bb[0][2], e_[1][2] = 0.3, 1.1, -0.7
    e_[2][2], bb[1][2], e_[3][2] = 0.7 + np.pi, 1.1, -0.3 - np.pi
    e_[4][2], bb[2][2], e_[5][2] = 0.0, 0.0, 0.0
    # one boost only (closing element is the trivial inverse boost)
    w2[4:8] = 0.0
    A = (n_rz(e_[0]) @ n_ry(bb[0]) @ n_rz(e_[1]) @ n_bz(w1) @ n_rz(e_[2]) @ n_ry(bb[1]) @ n_rz(e_[3]) @ n_bz(w2)
         @ n_rz(e_[4]) @ n_ry(bb[2]) @ n_rz(e_[5]))
    lam, V = np.linalg.eigh(np.conj(A.transpose(0, 2, 1)) @ A)
    det = V[:, 0, 0] * V[:, 1, 1] - V[:, 0, 1] * V[:, 1, 0]
    V = V * np.stack([np.ones_like(det), 1 / det], axis=-1)[:, None, :]
    va, vb, vc = n_euler(V)
    Vr = n_rz(va) @ n_ry(vb) @ n_rz(vc)
    zeta = np.log(lam[:, 0])
    Hinv = Vr @ n_bz(zeta) @ np.conj(Vr.transpose(0, 2, 1))
    U = A @ Hinv
    uni = np.abs(U @ np.conj(U.transpose(0, 2, 1)) - np.eye(2)).max(axis=(1, 2))
    good = uni < 1e-10
    T_ = tf.constant
    X = (SU2M.Rotation_z(T_(e_[0])) * SU2M.Rotation_y(T_(bb[0])) * SU2M.Rotation_z(T_(e_[1])) * SU2M.Boost_z(T_(w1))
         * SU2M.Rotation_z(T_(e_[2])) * SU2M.Rotation_y(T_(bb[1])) * SU2M.Rotation_z(T_(e_[3])) * SU2M.Boost_z(T_(w2))
         * SU2M.Rotation_z(T_(e_[4])) * SU2M.Rotation_y(T_(bb[2])) * SU2M.Rotation_z(T_(e_[5]))
         * SU2M.Rotation_z(T_(va)) * SU2M.Rotation_y(T_(vb)) * SU2M.Rotation_z(T_(vc)) * SU2M.Boost_z(T_(zeta))
         * SU2M.Rotation_z(T_(-vc)) * SU2M.Rotation_y(T_(-vb)) * SU2M.Rotation_z(T_(-va)))
    x = np.array([[np.asarray(X["x"][a][b]) for b in (0, 1)] for a in (0, 1)]).transpose(2, 0, 1)
    errX = np.abs(x - U).max(axis=(1, 2))
    okX = (errX <= 1e-9) | ~good
    if not okX.all():
        i = int(np.where(~okX)[0][0])
        viol("N5", "su2m:product", {"max_abs_err": float(errX[i]), "got": str(x[i]), "expected": str(U[i])})
    ang = X.get_euler_angle()
    a_, b_, g_ = [np.asarray(ang[k]) for k in ("alpha", "beta", "gamma")]
    Y = n_rz(g_) @ n_ry(b_) @ n_rz(a_)
    errY = np.abs(Y - x).max(axis=(1, 2))
    tolY = np.where(np.sin(b_) >= 1e-4, 1e-8, 1e-5)
    okY = (errY <= tolY) | ~good
    worst["euler"] = mx(errY[good & (np.sin(b_) >= 1e-4)])
    if not okY.all():
        i = int(np.where(~okY)[0][0])
        case = "no_boost" if i < 4 else "loop"
        viol("N5", "su2m:get_euler_angle:%s" % case, {"euler": [a_[i], b_[i], g_[i]], "max_abs_err": float(errY[i]), "matrix": str(x[i])})
    if not (np.isfinite(a_).all() and np.isfinite(b_).all() and np.isfinite(g_).all()):
        viol("N5", "su2m:get_euler_angle:nan", {"n": int((~np.isfinite(a_ + b_ + g_)).sum())})
    Xi = X * X.inv()
    xi = np.array([[np.asarray(Xi["x"][a][b]) for b in (0, 1)] for a in (0, 1)]).transpose(2, 0, 1)
    errI = np.abs(xi - np.eye(2)).max(axis=(1, 2))
    if not ((errI <= 1e-9) | ~good).all():
        viol("N5", "su2m:inv", {"max_abs_err": mx(errI[good])})
    # D^j of the extracted angles == D^j of the rotation the loop closes to (all j)
    ua, ub, uc = n_euler(U)
    for j2 in sorted(W):
        if j2 == 0:
            continue
        sel = np.where(good)[0][: (500 if quick else 5000)]
        Dg = np.conj(Dc(g_[sel], b_[sel], a_[sel], j2))
        Dr = D_ref(ua[sel], ub[sel], uc[sel], j2)
        errL = np.abs(Dg - Dr).max(axis=(1, 2))
        tolL = np.where(np.sin(b_[sel]) >= 1e-4, 1e-8, 1e-5) * max(1, j2)
        worst["loop"] = max(worst["loop"], mx(errL[np.sin(b_[sel]) >= 1e-4]))
        if not (errL <= tolL).all():
            i = int(np.where(~(errL <= tolL))[0][0])
            viol("N5", "su2m:loop_D:j2=%d" % j2, {"euler": [a_[sel][i], b_[sel][i], g_[sel][i]], "max_abs_err": float(errL[i])})
        ctx.count(len(sel))
    ctx.count(3 * nloop)
    ctx.part("N_su2m_loops", loops=nloop, discarded_ill_conditioned=int((~good).sum()),
             max_boost_rapidity=float(max(w1.max(), w2.max(), np.abs(zeta).max())), max_abs_err_euler=worst["euler"], max_abs_err_loop_D=worst["loop"])
    if good.sum() < nloop * 0.9:
        raise tlc.MachineryError("too many rotation-boost-rotation loops discarded (%d of %d)" % ((~good).sum(), nloop))
    ctx.sample({"part": "N5", "loop": "E(%.3f,%.3f,%.3f) Bz(%.3f) E(%.3f,%.3f,%.3f) Bz(%.3f) E(%.3f,%.3f,%.3f) * V Bz(%.3f) V^-1, V=E(%.3f,%.3f,%.3f); E(a,b,c)=Rz(a)Ry(b)Rz(c)" % (
        e_[0][9], bb[0][9], e_[1][9], w1[9], e_[2][9], bb[1][9], e_[3][9], w2[9], e_[4][9], bb[2][9], e_[5][9], zeta[9], va[9], vb[9], vc[9]),
        "euler_from_SU2M(alpha,beta,gamma)": [float(a_[9]), float(b_[9]), float(g_[9])]})

    ctx.cov["traces_validated_against_impl"] = validated
    ctx.cov["rule"] = (
        "EXACT/EXHAUSTIVE: every cell of Tables.tla is one TLC state (d-weight rows for all 2j<=8; CG for all j1,j2<=%s, "
        "every m1,m2 and every J of the triangle, one J beyond and all below; CG orthonormality relations; delta-index lists for parent 2j<=8, "
        "daughter 2j<=%d with every non-empty helicity sub-list; BW and P_J rows); TLC invariants validate the transcription; "
        "small_d_weight, delta_D_index(+gathers), cg_coef, get_cg_coef and every cg_table.json entry of the domain are compared "
        "entry by entry (floats identify the exact sqrt-rational to 2^-44 / 1e-12 relative on the square). "
        "SAMPLED: %d Euler triples per j (incl. beta=0, pi) for small_d/D/unitarity/group law, %d rotation-boost-rotation loops for SU2M. "
        "distinct = distinct table cells; non-trivial = non-zero CG / multi-entry index list / d-weight row"
        % (spin(maxcg2), maxhel2, nang + len(special), nloop)
    )
    ctx.assume("floats are compared with the exact value sign*sqrt(rational) at relative 2^-44 (weights) / 1e-12 (CG) on the square: identifies the exact number, the candidates are >1e-9 apart")
    ctx.assume("angles, boosts: sampled (seeded), tolerance 1e-10 abs for d/D/unitarity; 1e-8*2j (1e-5*2j where sin(beta_product)<1e-4: acos conditioning) for relations through get_euler_angle")
    ctx.assume("SU2M convention: EulerAngle(alpha,beta,gamma) of X means X = Rz(gamma)Ry(beta)Rz(alpha) (as used by cal_angle); D^j(X) = D^j(gamma,beta,alpha)")
    ctx.assume("get_cg_coef is judged on integer spins inside the triangle and wherever the table is consulted (j1,j2>=1); its j=0 shortcut outside the triangle is reported as an observation only")
    if not quick:
        ctx.assume("spins above 4 (2j>8) are not enumerated")


def replay(ctx, path):
    run(ctx)
