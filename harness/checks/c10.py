"""C10 -- phase-space events are physical, exactly counted and Lorentz-invariant flat.

Specification
  spec/Sampler.tla (n-body part)  refill loop of PhaseSpaceGenerator.generate and the
      nesting of ChainGenerator: result length = N for every acceptance pattern, a request
      is never empty, accepted refills make progress.
  spec/PhspLattice.tla  "lattice": exact weight / bound on an integer mass lattice
      (FactorBound, ImpLeOne  =>  acceptance weight <= 1);  "scen": the discrete
      quantifier (n = 2..6, massless / light / heavy daughters, Q classes, nestings).
  spec/TraceSampler.tla  validates the recorded batch traces of the real generators (B2).

Binding
  B2  a tracing subclass of PhaseSpaceGenerator logs every batch (requested, accepted,
      max weight <= 1) of every generate() call made below; TraceSampler must accept all.
  B3  exact: get_weight on TLC's lattice chains (<= 1, ratios to 1e-9, mass ranges);
      numeric: count, on-shell, momentum sums on TLC-enumerated scenarios x N;
      statistical (exploration): Dalitz chi^2 in equal-probability cells, m_{1..k} spectra
      against the recursive phase-space density (numpy quadrature oracle).
"""
import contextlib
import copy
import io
import json
import os
from fractions import Fraction

import numpy as np

from .. import phsp_c10 as P
from .. import sampler_c20 as S
from .. import tlc

LEVEL = "exploration"

# per-check false-alarm budget 1e-9: every chi^2 test uses 1e-12 (at most 500 tests; the
# remaining factor 2 is margin for the asymptotic approximation with >= 50 expected per cell)
ALPHA_CHI2 = 1e-12
MAX_CHI2_TESTS = 500
TOL = 1e-9
SINGLE_KEY = "get_p:python_float_arguments:single_precision"


def _quiet():
    return contextlib.redirect_stdout(io.StringIO())


# ==========================================================================
# specification
# ==========================================================================
def part_spec(ctx):
    quick = ctx.tier == "quick"
    p = os.path.join(ctx.work, "ph.cfg")
    with open(p, "w") as f:
        f.write(
            'CONSTANTS\n Variant = "multi"\n NSet = {1}\n MaxW = 1\n ImpNums = {1}\n ImpDen = 1\n MaxLen = 1\n MaxBatches = 1\n UNums = {0}\n UDen = 16\n UserBounds = {}\n'
            " PhNSet = {%s}\n PhCap = %d\n PhMaxRefill = %d\n PhMaxNodes = %d\n"
            "INIT InitPh\nNEXT NextPh\nINVARIANT PhCount\nINVARIANT PhLenN\nINVARIANT PhDone\nINVARIANT PhReqPositive\nINVARIANT PhCanProgress\n"
            "PROPERTY PhRank\nCHECK_DEADLOCK FALSE\n" % (("1,2,3,4", 3, 4, 3) if quick else ("1,2,3,4,5,7", 4, 5, 3))
        )
    r = tlc.run("Sampler", p, work=ctx.work, workers=16, timeout=1500)
    if r.violation:
        raise tlc.MachineryError("Sampler (n-body loop) violates %s: %s" % (r.violation, r.trace[-2:]))
    ctx.tlc(r, "Sampler n-body loop", vacuity_actions=["PhDirect", "PhFirstStep", "PhRefill", "PhTrunc"])
    ctx.part("spec_loop", states=r.distinct, refills=r.coverage.get("PhRefill", 0))

    # scenarios
    p = os.path.join(ctx.work, "scen.cfg")
    with open(p, "w") as f:
        f.write('CONSTANTS\n Mode = "scen"\n Bodies = {2}\n MVals = {0}\n QVals = {1}\n MaxLeaves = 6\n NestLeaves = 5\nINIT Init\nNEXT Next\nINVARIANT ShapeOK\nPOSTCONDITION Post\nCHECK_DEADLOCK FALSE\n')
    inp = os.path.join(ctx.work, "none.json")
    with open(inp, "w") as f:
        json.dump({"idx": []}, f)
    r = tlc.run("PhspLattice", p, work=ctx.work, workers=16, env={"IN_FILE": inp}, timeout=1500, coverage=False)
    if r.violation:
        raise tlc.MachineryError("PhspLattice scenarios violate %s" % r.violation)
    ctx.tlc(r, "PhspLattice scenarios")
    scen = []
    for k in sorted(r.out["rows"], key=int):
        scen += sorted(r.out["rows"][k], key=lambda s: json.dumps(s, sort_keys=True))
    if len(scen) != sum(r.out["sizes"].values()):
        raise tlc.MachineryError("scenario table incomplete")
    ctx.part("spec_scenarios", enumerated=len(scen))
    return scen


def part_lattice(ctx, rng):
    """B3 exact: get_weight / mass ranges on TLC's lattice chains"""
    import tensorflow as tf
    from tf_pwa.phasespace import PhaseSpaceGenerator

    quick = ctx.tier == "quick"
    p = os.path.join(ctx.work, "lattice.cfg")
    with open(p, "w") as f:
        f.write(
            'CONSTANTS\n Mode = "lattice"\n Bodies = {%s}\n MVals = {0, 1, 2, 3}\n QVals = {%s}\n MaxLeaves = 2\n NestLeaves = 2\n'
            "INIT Init\nNEXT Next\nINVARIANT FactorBound\nINVARIANT ImpLeOne\nINVARIANT Kinematic\nPOSTCONDITION Post\nCHECK_DEADLOCK FALSE\n"
            % (("2, 3, 4", "2, 3, 5") if quick else ("2, 3, 4, 5", "2, 3, 5, 8"))
        )
    ncfg = 150 if quick else 1200
    sel = [[int(rng.integers(0, 10**6)) for _ in range(4)] for _ in range(ncfg)]
    inp = os.path.join(ctx.work, "lattice_sel.json")
    with open(inp, "w") as f:
        json.dump({"idx": sel}, f)
    r = tlc.run("PhspLattice", p, work=ctx.work, workers=16, env={"IN_FILE": inp}, timeout=1700, coverage=False)
    if r.violation:
        raise tlc.MachineryError("PhspLattice violates its own theorem %s" % r.violation)
    ctx.tlc(r, "PhspLattice lattice")
    nchains = nratio = drift = 0
    seen = set()
    for row in r.out["rows"]:
        m0, ms = float(row["m0"]), [float(m) for m in row["ms"]]
        key = "lattice:m0=%g:ms=%s" % (m0, ",".join(str(m) for m in row["ms"]))
        if key in seen:
            continue
        seen.add(key)
        try:
            g = PhaseSpaceGenerator(m0, ms)
        except Exception as e:
            ctx.violation(key + ":raise", {"error": repr(e)})
            continue
        ctx.count(0, distinct_key=key)
        # mass ranges
        rg = [(float(a), float(b)) for a, b in g.get_mass_range()]
        if any(abs(a - ea) > 1e-12 or abs(b - eb) > 1e-12 for (a, b), (ea, eb) in zip(rg, row["range"])) or len(rg) != len(row["range"]):
            ctx.violation(key + ":mass_range", {"got": rg, "expected": row["range"]})
        wmax2 = float(np.prod([Fraction(*f) for f in row["facmax"]]))
        if abs(float(g.m_wtMax) ** 2 - wmax2) > 1e-9 * wmax2:  # value of the bound: drift only (any valid bound serves the property)
            drift += 1
        exp, got = [], []
        for chain, fac, inum, iden in row["chains"]:
            w2 = Fraction(1)
            for f in fac:
                w2 *= Fraction(*f)
            imp = Fraction(1)
            for a, b in zip(inum, iden):
                imp *= Fraction(a, b)
            exp.append(np.sqrt(float(w2)) * float(imp) / np.sqrt(wmax2))
            try:
                w = g.get_weight([tf.constant([float(m)], dtype="float64") for m in chain])
                got.append(float(np.asarray(w).reshape(-1)[0]))
            except Exception as e:
                ctx.violation(key + ":get_weight:raise", {"chain": chain, "error": repr(e)})
                got.append(float("nan"))
            nchains += 1
        exp, got = np.array(exp), np.array(got)
        if np.all(np.isnan(got)):
            continue
        if np.any(got > 1 + 1e-12) or np.any(got < 0) or not np.all(np.isfinite(got)):
            i = int(np.nanargmax(np.where(np.isfinite(got), got, np.inf)))
            ctx.violation(key + ":weight_above_one", {"chain": row["chains"][i][0], "weight": float(got[i])})
            continue
        # flatness needs weight ~ prod q * importance: compare ratios to the largest weight (independent of the bound)
        i0 = int(np.argmax(exp))
        if exp[i0] > 0:
            if got[i0] <= 0:
                ctx.violation(key + ":weight_zero", {"chain": row["chains"][i0][0]})
                continue
            rel = np.abs(got / got[i0] - exp / exp[i0])
            nratio += len(rel)
            if np.any(rel > TOL):
                j = int(np.argmax(rel))
                ctx.violation(key + ":weight_ratio", {"chain": row["chains"][j][0], "reference_chain": row["chains"][i0][0], "ratio": float(got[j] / got[i0]), "expected": float(exp[j] / exp[i0])})
    ctx.count(nchains)
    ctx.part("lattice", configurations=len(seen), chains=nchains, ratios=nratio, bound_drift=drift)
    if r.out["rows"]:
        row = r.out["rows"][len(r.out["rows"]) // 2]
        ctx.sample({"lattice_row": {"m0": row["m0"], "ms": row["ms"], "facmax": row["facmax"], "first_chains": row["chains"][:2]}})


# ==========================================================================
# scenarios -> masses
# ==========================================================================
def leaf_masses(pat):
    """decimal masses (not representable in float32), passed as python floats like ConfigLoader / gen_mc do"""
    out = []
    for i, c in enumerate(pat):
        out.append({"z": 0.0, "l": 0.1 + 0.013 * i, "h": 1.0 + 0.11 * i}[c])
    return out


def build_struct(scen):
    """-> (m0, mi) for ChainGenerator, leaf masses"""
    lm = leaf_masses(scen["pat"])
    S0 = sum(lm)
    nnodes = len(scen["flat"])
    qtot = {"thr": 2e-3, "mid": 0.6, "big": 8.0}[scen["q"]] * (S0 + 0.5)
    qe = float(qtot / nnodes)
    it = iter(lm)

    def rec(shape):
        if len(shape) == 0:
            return next(it)
        kids = [rec(c) for c in shape]
        m = sum(k if not isinstance(k, tuple) else k[0] for k in kids) + qe
        return (float(m), kids)  # python floats, as ConfigLoader / gen_mc pass them

    top = rec(scen["shape"])
    return top[0], top[1], lm


def flat_leaves(x):
    out = []
    for i in x:
        if isinstance(i, (list, tuple)):
            out += flat_leaves(i)
        else:
            out.append(np.asarray(i))
    return out


def node_sums(struct_mi, result):
    """[(node mass, summed momentum of its leaves, nt)] for every inner (non-top) node"""
    out = []

    def rec(mi, res):
        tot = 0
        for m, r in zip(mi, res):
            if isinstance(m, tuple):
                s = rec(m[1], r)
                out.append((m[0], s, len(m[1])))
                tot = tot + s
            else:
                tot = tot + np.asarray(r)
        return tot

    rec(struct_mi, result)
    return out


def scen_key(scen):
    return "scenario:shape=%s:pat=%s:q=%s" % (json.dumps(scen["shape"]).replace(" ", ""), "".join(scen["pat"]), scen["q"])


class Runner:
    """runs traced generators and checks count / physical"""

    def __init__(self, ctx):
        self.ctx = ctx
        self.traces = []
        self.nevents = 0
        self.illcond = 0
        self.single_precision_hits = 0

    def generate(self, scen, N, direct=False):
        from tf_pwa.phasespace import ChainGenerator, PhaseSpaceGenerator

        m0, mi, lm = build_struct(scen)
        log = []
        if direct:
            gen = S.make_traced(PhaseSpaceGenerator(m0, list(mi)), log)
            res = gen.generate(N)
        else:
            cg = ChainGenerator(m0, mi)
            for g in cg.gen:
                S.make_traced(g, log)
            res = cg.generate(N)
        self.traces.append(S.phsp_trace(N, log))
        return m0, mi, lm, res, log

    def physical(self, key, scen, N, m0, mi, lm, res):
        ctx = self.ctx
        leaves = flat_leaves(res)
        if len(leaves) != len(lm) or any(p.shape != (N, 4) for p in leaves):
            ctx.violation(key + ":count", {"N": N, "shapes": [list(p.shape) for p in leaves], "leaves": len(lm)})
            return None
        self.nevents += N
        tot = sum(leaves)
        # conditioning: Lorentz factors of the partial sums (generator order: last k particles) and of the inner nodes
        gam = np.ones(N)
        acc = leaves[-1]
        for p in leaves[-2:0:-1]:
            acc = acc + p
            m2 = np.maximum(P.inv_mass2(acc), 0)
            with np.errstate(divide="ignore", invalid="ignore"):
                gam = np.maximum(gam, np.where(m2 > 0, acc[:, 0] / np.sqrt(m2), np.inf))
        ok = gam < 1e3
        self.illcond += int(np.sum(~ok))
        worst = {}
        d = np.max(np.abs(tot - np.array([m0, 0, 0, 0])), axis=1)
        worst["momentum_sum"] = float(np.max(d[ok])) if ok.any() else 0.0
        for j, (p, m) in enumerate(zip(leaves, lm)):
            e = np.sqrt(np.sum(p[:, 1:] ** 2, axis=1) + m * m)
            dd = np.abs(p[:, 0] - e)
            worst["on_shell_%d" % j] = float(np.max(dd[ok])) if ok.any() else 0.0
            if not np.all(np.isfinite(p)):
                worst["nan_%d" % j] = float("inf")
        for j, (mn, s, nt) in enumerate(node_sums(mi, res)):
            e = np.sqrt(np.sum(s[:, 1:] ** 2, axis=1) + mn * mn)
            dd = np.abs(s[:, 0] - e)
            worst["node_mass_%d" % j] = float(np.max(dd[ok])) if ok.any() else 0.0
        bad = {k: v for k, v in worst.items() if not (v <= TOL * m0)}
        if bad:
            if all(v <= 1e-6 * m0 for v in bad.values()):
                # signature of a break-up momentum evaluated in single precision (repaired in /repo 67e40a8):
                # residuals of ~1e-8 m0; reported under the key of that defect
                self.single_precision_hits += 1
                ctx.violation(SINGLE_KEY, {"scenario": scen_key(scen), "m0": m0, "struct": repr(mi), "N": N, "deviations": bad, "tolerance": TOL * m0})
            else:
                ctx.violation(key + ":physical:N=%d" % N, {"m0": m0, "struct": repr(mi), "deviations": bad, "tolerance": TOL * m0})
        return leaves


# ==========================================================================
def select_scenarios(ctx, scen, rng):
    quick = ctx.tier == "quick"
    flat = [s for s in scen if len(s["flat"]) == 1]
    nested = [s for s in scen if len(s["flat"]) > 1]
    chosen = []

    def pick(pool, cond, k):
        c = [s for s in pool if cond(s)]
        idx = rng.permutation(len(c))[:k]
        return [c[i] for i in idx]

    for n in range(2, 7):
        fn = [s for s in flat if s["leaves"] == n]
        # mandatory: all massless (mid), all heavy near threshold, all light big
        chosen += [s for s in fn if set(s["pat"]) == {"z"} and s["q"] == "mid"]
        chosen += [s for s in fn if set(s["pat"]) == {"h"} and s["q"] == "thr"]
        chosen += [s for s in fn if set(s["pat"]) == {"l"} and s["q"] == "big"]
        chosen += pick(fn, lambda s: len(set(s["pat"])) > 1, 2 if quick else 12)
    for n in range(3, 6):
        chosen += pick(nested, lambda s, n=n: s["leaves"] == n, 4 if quick else 20)
    out, seen = [], set()
    for s in chosen:
        k = scen_key(s)
        if k not in seen:
            seen.add(k)
            out.append(s)
    return out


def part_scenarios(ctx, scen, rng, runner):
    quick = ctx.tier == "quick"
    chosen = select_scenarios(ctx, scen, rng)
    nruns = 0
    for s in chosen:
        key = scen_key(s)
        n = s["leaves"]
        t0 = __import__("time").time()
        sizes = [1, 7, 1000] if (n < 6 or not quick) else [1, 7, 100]  # n = 6: acceptance ~3e-5
        for N in sizes:
            for direct in ([False, True] if len(s["flat"]) == 1 and N == 7 else [False]):
                try:
                    m0, mi, lm, res, log = runner.generate(s, N, direct=direct)
                except tlc.MachineryError:
                    raise
                except Exception as e:
                    ctx.violation(key + ":raise", {"N": N, "error": repr(e)})
                    continue
                nruns += 1
                ctx.count(N, distinct_key=key)
                runner.physical(key, s, N, m0, mi, lm, res)
        dt = __import__("time").time() - t0
        if dt > 3:
            ctx.log("slow scenario %.1fs %s" % (dt, key))
    ctx.part("scenarios", chosen=len(chosen), runs=nruns, events=runner.nevents, ill_conditioned_events_skipped=runner.illcond)
    if chosen:
        s = chosen[len(chosen) // 2]
        m0, mi, lm = build_struct(s)
        ctx.sample({"scenario": scen_key(s), "m0": m0, "struct": repr(mi)})
    return chosen


def part_weights(ctx, chosen, rng):
    """get_weight <= 1 on many proposals; importance factor included"""
    import tensorflow as tf
    from tf_pwa.phasespace import PhaseSpaceGenerator

    quick = ctx.tier == "quick"
    K = 20000 if quick else 100000
    nprop = 0
    top = 0.0
    for s in chosen:
        if len(s["flat"]) != 1 or s["leaves"] < 3:
            continue
        m0, mi, lm = build_struct(s)
        try:
            g = PhaseSpaceGenerator(m0, list(mi))
            ms = g.generate_mass(K)
            w = np.asarray(g.get_weight(ms))
        except Exception as e:
            ctx.violation(scen_key(s) + ":get_weight:raise", {"error": repr(e)})
            continue
        nprop += K
        top = max(top, float(w.max()))
        ctx.count(K, distinct_key=("w", scen_key(s)))
        if not np.all(np.isfinite(w)) or w.max() > 1 + 1e-12 or w.min() < 0:
            i = int(np.nanargmax(w))
            ctx.violation(scen_key(s) + ":weight_above_one", {"m0": m0, "masses": lm, "weight": float(w[i]), "proposal": [float(np.asarray(x)[i]) for x in ms]})
        # the proposals respect the kinematic ranges
        lo = [a for a, b in g.get_mass_range()]
        hi = [b for a, b in g.get_mass_range()]
        for x, a, b in zip(ms, lo, hi):
            x = np.asarray(x)
            if x.min() < a - 1e-12 or x.max() > b + 1e-12:
                ctx.violation(scen_key(s) + ":mass_out_of_range", {"min": float(x.min()), "max": float(x.max()), "range": [a, b]})
    ctx.part("weights", proposals=nprop, largest_weight=top)
    # ---- cal_max_weight (optional tightening of the bound used by cal_max / cal_phsp_max)
    # Known finding cal_max_weight:weight_above_one: the search starts at ONE random proposal and stops there when
    # its weight is tiny.  Deterministic reproduction: the start proposal is pinned near the kinematic edge (every
    # uniform number drawn inside cal_max_weight = 0.97, a value the generator can draw); then random starts,
    # seeded from VERIF_SEED.  Every "weight above one after cal_max_weight" is reported under that one key.
    # Independent of how good the search is: the search never returns a point worse than its start x0, and the new bound
    # is (old bound) x (weight found) x 1.001, so the weight AT THE START POINT is at most 1/1.001 afterwards, whatever
    # the units (the last two configurations have an initial bound far above 1: masses in MeV, a heavy parent).  That is
    # reported under its own key (cal_max_weight:start_point_weight_above_one), not under the known finding.
    confs = [(3.0, [0.5, 0.3, 0.7]), (5.0, [1.0, 1.0, 1.0, 0.5]), (4.0, [0.5, 0.3, 0.0, 0.7, 0.2]), (10.0, [0.1, 0.2, 0.3, 0.1, 0.2, 0.3]),
             (3000.0, [500.0, 300.0, 700.0]), (80.0, [1.0, 2.0, 1.5, 0.5])]
    worst = 0.0
    orig_uniform = tf.random.uniform

    def pinned(shape, minval=0, maxval=None, dtype=tf.float32, seed=None, name=None):
        return tf.fill(shape, tf.constant(0.97, dtype=dtype))

    tf.random.set_seed(ctx.seed)
    for m0, ms in confs:
        for rep in range(3 if quick else 6):
            try:
                g = PhaseSpaceGenerator(m0, ms)
                x0 = None
                if rep == 0:
                    tf.random.uniform = pinned
                    # the start point of the search, drawn exactly as cal_max_weight draws it
                    old_gen = g.mass_generator
                    g.mass_generator = [None for _ in old_gen]
                    try:
                        x0 = [tf.constant(np.asarray(i)) for i in g.generate_mass(1)]
                    finally:
                        g.mass_generator = old_gen
                try:
                    g.cal_max_weight()
                finally:
                    tf.random.uniform = orig_uniform
                if x0 is not None:
                    w0 = float(np.asarray(g.get_weight(x0)).reshape(-1)[0])
                    if not (0 <= w0 <= 1 / 1.001 * (1 + 1e-9)):
                        ctx.violation("cal_max_weight:start_point_weight_above_one:n=%d" % len(ms), {"m0": m0, "masses": ms, "weight_at_the_start_point_after_cal_max_weight": w0,
                                                                                                      "expected_at_most": 1 / 1.001})
                w = np.asarray(g.get_weight(g.generate_mass(K)))
            except Exception as e:
                ctx.violation("cal_max_weight:raise:n=%d" % len(ms), {"m0": m0, "masses": ms, "error": repr(e)})
                break
            worst = max(worst, float(w.max()))
            ctx.count(K, distinct_key=("calmax", m0, len(ms)))
            if not w.max() <= 1 + 1e-12:
                ctx.violation("cal_max_weight:weight_above_one", {"m0": m0, "masses": ms, "largest_weight": float(w.max()), "n": len(ms), "start": "pinned at u=0.97" if rep == 0 else "random"})
    ctx.part("cal_max_weight", largest_weight_after=worst)
    # a user mass proposal that is the default one (uniform over the range of the first inner mass, installed at index 0)
    # must not change any weight: the importance factors belong to the built-in proposals of the OTHER masses
    from tf_pwa.phasespace import UniformGenerator

    for m0, ms in confs[1:4]:
        g = PhaseSpaceGenerator(m0, ms)
        prop = g.generate_mass(2000)
        w_default = np.asarray(g.get_weight(prop))
        g.mass_generator[0] = UniformGenerator(*g.mass_range[0])
        w_same = np.asarray(g.get_weight(prop))
        ctx.count(len(w_same), distinct_key=("equiv_proposal", m0, len(ms)))
        if w_default.shape != w_same.shape or not np.allclose(w_default, w_same, rtol=1e-12, atol=0):
            ctx.violation("mass_generator:default_equivalent_proposal_changes_weight:n=%d" % len(ms), {"m0": m0, "masses": ms,
                          "largest_ratio": float(np.max(w_same / np.where(w_default > 0, w_default, 1)))})
    ctx.assume("user-supplied mass proposals other than the default-equivalent one at index 0 are outside C10's quantifier (a full-range proposal for a later mass produces unordered masses: weights above one on the unchanged tree)")
    # a chain with a two-body node
    from tf_pwa.phasespace import ChainGenerator

    try:
        g2 = PhaseSpaceGenerator(3.0, [1.0, 1.0])
        before = float(g2.m_wtMax)
        g2.cal_max_weight()
        if not abs(float(g2.m_wtMax) - before) <= 1e-12 * before or int(g2.generate(7)[0].shape[0]) != 7:
            ctx.violation("cal_max_weight:two_body_node:bound_changed", {"before": before, "after": float(g2.m_wtMax)})
        cg = ChainGenerator(5.0, ((3.0, (1.0, 1.0)), 1.0, 0.5))
        tf.random.uniform = pinned  # the three-body top node is searched too: keep its start fixed
        try:
            cg.cal_max_weight()
        finally:
            tf.random.uniform = orig_uniform
        res = cg.generate(7)
        if any(x.shape != (7, 4) for x in flat_leaves(res)):
            ctx.violation("cal_max_weight:two_body_node:count", {"shapes": [list(x.shape) for x in flat_leaves(res)]})
    except Exception as e:
        tf.random.uniform = orig_uniform
        ctx.violation("cal_max_weight:two_body_node:raise", {"struct": "(5.0, ((3.0, (1.0, 1.0)), 1.0, 0.5))", "error": repr(e)})


# ==========================================================================
# flatness
# ==========================================================================
class Chi2:
    def __init__(self, ctx):
        self.ctx = ctx
        self.n = 0
        self.min_p = 1.0

    def test(self, key, obs, exp, detail):
        from scipy import stats

        obs, exp = np.asarray(obs, float), np.asarray(exp, float)
        # merge cells with small expectation
        big = exp >= 50
        o = np.append(obs[big], obs[~big].sum())
        e = np.append(exp[big], exp[~big].sum())
        if e[-1] < 50:
            if len(e) >= 2:
                o[-2] += o[-1]
                e[-2] += e[-1]
            o, e = o[:-1], e[:-1]
        if len(e) < 3:
            return None
        self.n += 1
        if self.n > MAX_CHI2_TESTS:
            raise tlc.MachineryError("more chi^2 tests than the false-alarm budget allows")
        chi2 = float(np.sum((o - e) ** 2 / e))
        p = float(stats.chi2.sf(chi2, len(e) - 1))
        self.min_p = min(self.min_p, p)
        if p < ALPHA_CHI2:
            d = dict(detail)
            d.update({"chi2": chi2, "ndf": len(e) - 1, "p": p, "alpha": ALPHA_CHI2})
            self.ctx.violation(key, d)
        return chi2, len(e) - 1, p


def flat_tests(ctx, chi, key, m0, masses, leaves, label=""):
    """flatness of an n-body decay m0 -> masses given the daughters' four-momenta (any frame)"""
    n = len(masses)
    N = len(leaves[0])
    out = []
    if n == 3:
        s12 = P.inv_mass2(leaves[0] + leaves[1])
        s23 = P.inv_mass2(leaves[1] + leaves[2])
        u1, u2 = P.dalitz_uniform(m0, masses[0], masses[1], masses[2], s12, s23)
        nb = 10 if N >= 50000 else 5
        inside = (u1 >= 0) & (u1 <= 1) & (u2 >= -1e-9) & (u2 <= 1 + 1e-9)
        if not inside.all():
            ctx.violation(key + ":dalitz_outside%s" % label, {"events_outside": int((~inside).sum())})
        h, _, _ = np.histogram2d(np.clip(u1, 0, 1), np.clip(u2, 0, 1), bins=nb, range=[[0, 1], [0, 1]])
        r = chi.test(key + ":dalitz%s" % label, h.reshape(-1), np.full(nb * nb, N / nb / nb), {"m0": m0, "masses": masses, "N": N})
        out.append(("dalitz", r))
    elif n > 3:
        for k in range(2, n):
            for side in ("first", "last"):
                sub = list(range(k)) if side == "first" else list(range(n - k, n))
                rest = [i for i in range(n) if i not in sub]
                edges, prob = P.spectrum_bins(m0, [masses[i] for i in sub], [masses[i] for i in rest], nbins=40 if N >= 50000 else 20)
                m = np.sqrt(np.maximum(P.inv_mass2(sum(leaves[i] for i in sub)), 0))
                span = edges[-1] - edges[0]
                if m.min() < edges[0] - 1e-9 * span or m.max() > edges[-1] + 1e-9 * span:
                    ctx.violation(key + ":mass_outside:%s%d%s" % (side, k, label), {"min": float(m.min()), "max": float(m.max()), "range": [edges[0], edges[-1]]})
                h, _ = np.histogram(np.clip(m, edges[0], edges[-1]), edges)
                r = chi.test(key + ":spectrum:%s%d%s" % (side, k, label), h, prob * N, {"m0": m0, "masses": masses, "N": N, "subset": sub})
                out.append(("%s%d" % (side, k), r))
    return out


def part_flat(ctx, scen, rng, runner):
    quick = ctx.tier == "quick"
    chi = Chi2(ctx)
    # oracle self-test against an independent weighted generator (machinery, not verdict)
    from scipy import stats

    for m0, ms in [(4.0, [0.5, 0.3, 0.0, 0.7]), (4.0, [0.5, 0.3, 0.0, 0.7, 0.2])]:
        Mk, w = P.reference_weighted(rng, m0, ms, 400000)
        keep = rng.random(len(w)) * w.max() < w  # unweighted reference events (ordinary Poisson chi^2)
        for k in range(2, len(ms)):
            edges, prob = P.spectrum_bins(m0, ms[:k], ms[k:], nbins=20)
            h, _ = np.histogram(Mk[keep, k - 2], edges)
            e = prob * keep.sum()
            use = e >= 20
            c2 = float(np.sum((h[use] - e[use]) ** 2 / e[use]))
            if keep.sum() < 2000 or stats.chi2.sf(c2, use.sum() - 1) < 1e-8:
                raise tlc.MachineryError("phase-space oracle disagrees with the reference generator (n=%d, k=%d, chi2=%g/%d, %d events)" % (len(ms), k, c2, use.sum() - 1, keep.sum()))
    flat = [s for s in scen if len(s["flat"]) == 1]

    def find(n, pat, q):
        for s in flat:
            if s["leaves"] == n and "".join(s["pat"]) == pat and s["q"] == q:
                return s
        raise tlc.MachineryError("scenario %s %s not enumerated" % (pat, q))

    plan = [
        (find(3, "zzz", "mid"), 100000),
        (find(3, "lhl", "thr"), 100000),
        (find(3, "hlz", "big"), 100000),
        (find(3, "lll", "mid"), 100000),
        (find(4, "lhzl", "mid"), 100000),
        (find(4, "zzzz", "big"), 100000),
        (find(4, "hhhh", "thr"), 100000),
        (find(5, "lzhlh", "mid"), 30000),
    ]
    if not quick:
        plan.append((find(5, "lllll", "big"), 30000))
        plan.append((find(6, "lhzlhz", "mid"), 5000))
        extra = [s for s in flat if s["leaves"] in (3, 4)]
        for i in rng.permutation(len(extra))[:16]:
            plan.append((extra[i], 100000))
        extra = [s for s in flat if s["leaves"] == 5]
        for i in rng.permutation(len(extra))[:4]:
            plan.append((extra[i], 30000))
        plan.append((find(6, "hhhhhh", "thr"), 5000))
        plan.append((find(3, "lhl", "mid"), 1000000))
    results = []
    for s, N in plan:
        key = scen_key(s)
        t0 = __import__("time").time()
        try:
            m0, mi, lm, res, log = runner.generate(s, N, direct=True)
        except tlc.MachineryError:
            raise
        except Exception as e:
            ctx.violation(key + ":raise", {"N": N, "error": repr(e)})
            continue
        ctx.log("flat sample %s N=%d generated in %.1fs" % (key, N, __import__("time").time() - t0))
        leaves = runner.physical(key, s, N, m0, mi, lm, res)
        ctx.count(N, distinct_key=("flat", key))
        if leaves is None:
            continue
        for name, r in flat_tests(ctx, chi, key, m0, lm, leaves):
            if r:
                results.append((key, name, r))
    # nested: every node with >= 3 daughters is flat in its own phase space; a two-body node inside a
    # three-body system is isotropic (s_bc uniform between its limits)
    nested = [s for s in scen if len(s["flat"]) > 1 and any(f["nt"] >= 3 for f in s["flat"]) and s["q"] == "mid"]
    pick = [nested[i] for i in rng.permutation(len(nested))[: (3 if quick else 12)]]
    two = [s for s in scen if s["leaves"] == 3 and len(s["flat"]) == 2 and s["q"] == "mid"]
    pick += [two[i] for i in rng.permutation(len(two))[: (2 if quick else 6)]]
    for s in pick:
        key = scen_key(s)
        N = 30000
        try:
            m0, mi, lm, res, log = runner.generate(s, N)
        except tlc.MachineryError:
            raise
        except Exception as e:
            ctx.violation(key + ":raise", {"N": N, "error": repr(e)})
            continue
        if runner.physical(key, s, N, m0, mi, lm, res) is None:
            continue
        ctx.count(N, distinct_key=("flat", key))

        def walk(mass, mi_, res_, path):
            dm, dp = [], []
            for m, r in zip(mi_, res_):
                if isinstance(m, tuple):
                    dm.append(m[0])
                    dp.append(sum(flat_leaves(r)))
                    walk(m[0], m[1], r, path + "n")
                else:
                    dm.append(m)
                    dp.append(np.asarray(r))
            if len(dm) >= 3:
                for name, r in flat_tests(ctx, chi, key, mass, dm, dp, label=":node%s" % path):
                    if r:
                        results.append((key, name + path, r))
            return None

        walk(m0, mi, res, "")
        if s["leaves"] == 3 and len(s["flat"]) == 2:
            leaves = flat_leaves(res)
            # the pair is the nested node; reorder so that particles 1, 2 are the pair
            first_nested = isinstance(mi[0], tuple)
            a, b, c = (0, 1, 2) if first_nested else (1, 2, 0)
            mpair = (mi[0] if first_nested else mi[1])[0]
            s12 = np.full(N, mpair**2)
            s23 = P.inv_mass2(leaves[b] + leaves[c])
            _, u2 = P.dalitz_uniform(m0, lm[a], lm[b], lm[c], s12, s23)
            h, _ = np.histogram(np.clip(u2, 0, 1), 50, range=(0, 1))
            r = chi.test(key + ":isotropy", h, np.full(50, N / 50), {"m0": m0, "struct": repr(mi), "N": N})
            if r:
                results.append((key, "isotropy", r))
    ctx.part("flatness", chi2_tests=chi.n, smallest_p=chi.min_p, samples=len(plan) + len(pick))
    if results:
        k, name, r = results[0]
        ctx.sample({"flatness": k, "test": name, "chi2": round(r[0], 2), "ndf": r[1], "p": r[2]})


# ==========================================================================
# applications.gen_mc, ConfigLoader.generate_phsp_p
# ==========================================================================
MODEL4 = {
    "data": {"dat_order": ["B", "C", "D", "E"]},
    "decay": {"A": [["R_BC", "R_DE"]], "R_BC": ["B", "C"], "R_DE": ["D", "E"]},
    "particle": {
        "$top": {"A": {"J": 0, "P": 1, "mass": 3.0}},
        "$finals": {"B": {"J": 0, "P": -1, "mass": 0.3}, "C": {"J": 0, "P": -1, "mass": 0.4}, "D": {"J": 0, "P": -1, "mass": 0.5}, "E": {"J": 0, "P": -1, "mass": 0.0}},
        "R_BC": {"J": 0, "P": 1, "mass": 1.0, "model": "one"},
        "R_DE": {"J": 0, "P": 1, "mass": 1.2, "width": 0.2},
    },
}


def part_decimal(ctx):
    """the configurations on which the single-precision break-up momentum was found (repaired: 67e40a8)"""
    from tf_pwa.phasespace import PhaseSpaceGenerator, generate_phsp

    worst = 0.0
    for m0, ms in [(1.0, [0.3, 0.4]), (4.6, [2.00698, 2.01028, 0.13957]), (4.6, [2.00698, 2.01028]), (0.3, [0.0, 0.0, 0.0, 0.0])]:
        for N in (5, 1000):
            p = [np.asarray(x) for x in PhaseSpaceGenerator(m0, ms).generate(N)]
            dev = float(np.max(np.abs(sum(p) - np.array([m0, 0, 0, 0]))))
            for x, m in zip(p, ms):
                dev = max(dev, float(np.max(np.abs(x[:, 0] - np.sqrt(np.sum(x[:, 1:] ** 2, axis=1) + m * m)))))
            worst = max(worst, dev / m0)
            ctx.count(N, distinct_key=("decimal", m0, len(ms)))
            if not dev <= TOL * m0:
                key = SINGLE_KEY if dev <= 1e-6 * m0 else "PhaseSpaceGenerator:m0=%g:n=%d:physical" % (m0, len(ms))
                ctx.violation(key, {"call": "PhaseSpaceGenerator(%r, %r).generate(%d)" % (m0, ms, N), "largest_residual": dev, "tolerance": TOL * m0})
    (a, b), c = generate_phsp(3.0, ((1.0, (0.3, 0.4)), 0.5), 1000)
    a, b, c = np.asarray(a), np.asarray(b), np.asarray(c)
    s = a + b
    dev = max(float(np.max(np.abs(s[:, 0] - np.sqrt(np.sum(s[:, 1:] ** 2, axis=1) + 1.0)))), float(np.max(np.abs(a + b + c - np.array([3.0, 0, 0, 0])))))
    worst = max(worst, dev / 3.0)
    ctx.count(1000, distinct_key=("decimal", "nested"))
    if not dev <= TOL * 3.0:
        key = SINGLE_KEY if dev <= 1e-6 * 3.0 else "generate_phsp:3.0->((1.0->0.3,0.4),0.5):physical"
        ctx.violation(key, {"call": "generate_phsp(3.0, ((1.0, (0.3, 0.4)), 0.5), 1000)", "largest_residual": dev, "tolerance": TOL * 3.0})
    ctx.part("decimal_masses", largest_residual_over_m0=worst)


def part_apps(ctx):
    from tf_pwa.applications import gen_mc
    from tf_pwa.config_loader import ConfigLoader

    for m0, ms in [(3.0, [0.3, 0.4, 0.5]), (2.0, [0.0, 0.5]), (4.6, [2.00698, 2.01028, 0.13957])]:
        for N in [1, 7, 1000]:
            key = "gen_mc:m0=%g:n=%d" % (m0, len(ms))
            try:
                x = gen_mc(m0, ms, N)
            except Exception as e:
                ctx.violation(key + ":raise", {"N": N, "error": repr(e)})
                continue
            ctx.count(N, distinct_key=key)
            if x.shape != (N * len(ms), 4):
                ctx.violation(key + ":count", {"N": N, "shape": list(x.shape)})
                continue
            p = x.reshape(N, len(ms), 4)
            tot = p.sum(axis=1)
            dev = {"momentum_sum": float(np.max(np.abs(tot - np.array([m0, 0, 0, 0]))))}
            for j, m in enumerate(ms):
                dev["on_shell_%d" % j] = float(np.max(np.abs(p[:, j, 0] - np.sqrt(np.sum(p[:, j, 1:] ** 2, axis=1) + m * m))))
            bad = {k: v for k, v in dev.items() if not v <= TOL * m0}
            if bad:
                if all(v <= 1e-6 * m0 for v in bad.values()):
                    ctx.violation(SINGLE_KEY, {"call": "gen_mc(%g, %s, %d)" % (m0, ms, N), "deviations": bad, "tolerance": TOL * m0})
                else:
                    ctx.violation(key + ":physical", {"N": N, "deviations": bad})
    config = ConfigLoader(copy.deepcopy(MODEL4))
    names = "BCDE"
    mass = {"B": 0.3, "C": 0.4, "D": 0.5, "E": 0.0}
    for N in [1, 7, 1000]:
        key = "generate_phsp_p:A->(R_BC->BC)(DE):N=%d" % N
        try:
            with _quiet():
                p = config.generate_phsp_p(N)
        except Exception as e:
            ctx.violation(key + ":raise", {"error": repr(e)})
            continue
        pn = {str(k): np.asarray(v) for k, v in p.items()}
        ctx.count(N, distinct_key=key)
        if sorted(pn) != list(names) or any(pn[k].shape != (N, 4) for k in names):
            ctx.violation(key + ":count", {"shapes": {k: list(v.shape) for k, v in pn.items()}})
            continue
        dev = {"momentum_sum": float(np.max(np.abs(sum(pn[k] for k in names) - np.array([3.0, 0, 0, 0]))))}
        for k in names:
            dev["on_shell_" + k] = float(np.max(np.abs(pn[k][:, 0] - np.sqrt(np.sum(pn[k][:, 1:] ** 2, axis=1) + mass[k] ** 2))))
        s = pn["B"] + pn["C"]
        dev["fixed_mass_R_BC"] = float(np.max(np.abs(s[:, 0] - np.sqrt(np.sum(s[:, 1:] ** 2, axis=1) + 1.0))))
        bad = {k: v for k, v in dev.items() if not v <= TOL * 3.0}
        if bad:
            if all(v <= 1e-6 * 3.0 for v in bad.values()):
                ctx.violation(SINGLE_KEY, {"call": "ConfigLoader.generate_phsp_p (A -> (R_BC -> B C) D E, m(R_BC) fixed)", "deviations": bad, "tolerance": TOL * 3.0})
            else:
                ctx.violation(key + ":physical", {"deviations": bad})
    ctx.part("applications", gen_mc_calls=9, generate_phsp_p_calls=3)


# ==========================================================================
def part_traces(ctx, runner):
    traces = runner.traces
    for t in traces:
        for e in t["ev"]:
            if e["a"] in ("First", "Refill") and not e["wle1"]:
                pass  # TraceSampler rejects it; reported below
    acc, rej = S.validate(ctx, traces, "multi", "phsp")
    for tr, k, reason in rej:
        ev = tr["ev"]
        what = ev[k]["a"] if k < len(ev) else "NotTerminated"
        ctx.violation("trace:phsp:%s" % what, {"trace": {"N": tr["N"], "gens": tr["gens"], "ev": ev[:12]}, "first_unmatched_record": k, "reason": reason})
    nref = sum(sum(1 for e in t["ev"] if e["a"] == "Refill") for t in traces)
    ctx.part("traces", recorded=len(traces), accepted=acc, rejected=len(rej), refills=nref, direct_two_body=sum(sum(1 for e in t["ev"] if e["a"] == "Direct") for t in traces))
    ctx.cov["traces_validated_against_impl"] = acc
    if nref == 0:
        raise tlc.MachineryError("no trace with a refill batch")
    ctx.sample({"trace_phsp": next(t for t in traces if any(e["a"] == "Refill" for e in t["ev"]))})
    if ctx.tier != "quick":
        good = [t for t in traces if any(e["a"] == "Refill" for e in t["ev"])][:2] + [t for t in traces if any(e["a"] == "Direct" for e in t["ev"])][:1]
        nrej = 0
        for j, t in enumerate(good):
            t = copy.deepcopy(t)
            if j == 0:
                t["ev"][-1]["len"] += 1  # returned length
            elif j == 1:
                e = next(e for e in t["ev"] if e["a"] == "Refill")
                e["acc"] = e["req"] + 1  # more accepted than requested
            else:
                e = next(e for e in t["ev"] if e["a"] == "Direct")
                e["len"] = max(e["len"] - 1, 0)
            a, rj = S.validate(ctx, [t], "multi", "demo")
            nrej += 1 if rj else 0
        ctx.part("binding_demo", corrupted=len(good), rejected=nrej)
        if nrej != len(good):
            raise tlc.MachineryError("binding demonstration failed: corrupted n-body traces accepted")


def _rss_monitor(ctx):
    import threading
    import time

    def mon():
        while True:
            for l in open("/proc/self/status"):
                if l.startswith("VmRSS"):
                    ctx.log("rss %.2f GB" % (int(l.split()[1]) / 1e6))
            time.sleep(5)

    threading.Thread(target=mon, daemon=True).start()


def run(ctx):
    if os.environ.get("C10_DEBUG_RSS"):
        _rss_monitor(ctx)
    S.tame_malloc()
    rng = np.random.default_rng(ctx.seed)
    scen = part_spec(ctx)
    part_lattice(ctx, rng)
    ctx.log("specification and lattice done")
    runner = Runner(ctx)
    chosen = part_scenarios(ctx, scen, rng, runner)
    ctx.log("scenarios done")
    part_weights(ctx, chosen, rng)
    ctx.log("weights done")
    part_flat(ctx, scen, rng, runner)
    ctx.log("flatness done")
    part_decimal(ctx)
    part_apps(ctx)
    part_traces(ctx, runner)
    ctx.cov["rule"] = (
        "TLC: refill loop / chain nesting (all acceptance patterns for N<=4|7, cap 3|4; PhLenN, PhReqPositive, PhCanProgress, PhRank), exact weight and "
        "bound on the integer mass lattice (FactorBound, ImpLeOne on every chain), scenario table (n=2..6 x {massless,light,heavy}^n x {thr,mid,big}, "
        "every ordered nesting up to 5 leaves). Harness: lattice chains exact (weight <= 1, ratios 1e-9); seeded selection of scenarios x N in "
        "{1,7,1000} (+1e5 for flatness): count exact, on-shell / momentum sum / fixed node masses to 1e-9*m0 (events with a partial-sum Lorentz factor "
        "> 1e3 skipped as ill-conditioned); get_weight <= 1 on random proposals; flatness by chi^2 (alpha %.0e per test, cells with >= 50 expected) "
        "against a numpy quadrature oracle that is itself checked against an independent weighted generator; every generate() call traced and "
        "validated by TraceSampler. distinct = distinct scenarios / lattice configurations" % ALPHA_CHI2
    )
    ctx.assume("numpy.Inf shim of the harness (tf_pwa.applications / config_loader do not import under NumPy 2 otherwise)")
    ctx.assume("flatness and weight <= 1 on random proposals are statistical / sampled statements (level: exploration); false-alarm probability <= 1e-9 per check")
    ctx.assume("mass values (python floats): massless = 0, light = 0.1 + 0.013 i, heavy = 1 + 0.11 i; Q = (2e-3 | 0.6 | 8) * (sum + 0.5), shared equally by the nodes of a nesting")


def replay(ctx, path):
    """re-execute the run that produced the replay file (same tier and seed: every random choice is derived from them)"""
    with open(path) as f:
        d = json.load(f)
    ctx.tier, ctx.seed = d.get("tier", ctx.tier), int(d.get("seed", ctx.seed))
    from .. import prelude

    prelude.seed_all(ctx.seed)
    run(ctx)
