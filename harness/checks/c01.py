"""C01 -- the decay-rate density is independent of the observer's frame.

Spec: spec/Symmetry.tla, machine InitFrame/NextFrame.  TLC enumerates the decay
structures (Topology forms x spin/parity assignments x p_break pattern x
identical-pair declarations, validity = every vertex has a non-empty (l,s) list
by LSCoupling!Allowed) and, as a state space, every transformation word up to
the tier's length with the property's applicability conditions as enabling
conditions (invariants TypeOKFrame, FermionOK, ParityTable, SwapTable, WordSound,
SwapAlignedTrivial).  Binding B3 (numeric): every enumerated (structure, word)
is replayed on the real code: ConfigLoader(dict) -> data.cal_angle(p4) ->
get_amplitude()(data), with the word applied to the four-momenta by an
independent numpy implementation of the Lorentz group (harness/symmetry_c01.py).
The continuous quantifier (events, generic group elements, couplings) is sampled.
"""
import json
import os
import zlib

import numpy as np

from .. import symmetry_c01 as S
from .. import tlc

LEVEL = "exploration"

# tolerance (calibrated by probe, see notes/C01.md): the alignment angle beta of
# SU2M.get_euler_angle is an acos of a number that is 1 up to rounding whenever two
# helicity frames coincide, so tf_pwa's own noise on the density is ~1e-8 relative
# to the typical density S of the structure (measured max 4e-9), not 1e-13.
REL = 1e-6
ABS = 1e-12
KNOWN_CLASS_KEY = "identical-particles:helicity-reference-not-swap-symmetric"


def _cfg(ctx, thin, offset, maxword, nmodels):
    p = os.path.join(ctx.work, "frame_%d_%d.cfg" % (thin, offset))
    with open(p, "w") as f:
        f.write(
            "CONSTANTS MaxJ2 = 4\n MaxFinJ2 = 2\n FinBudget3 = 3\n FinBudget4 = 2\n NSet = {3, 4}\n"
            " MaxWord = %d\n Thin = %d\n Offset = %d\n Reps3 = 4\n Reps4 = 1\n NModels = %d\n"
            "INIT InitFrame\nNEXT NextFrame\n"
            "INVARIANT TypeOKFrame\nINVARIANT FermionOK\nINVARIANT ParityTable\nINVARIANT SwapTable\n"
            "INVARIANT WordSound\nINVARIANT SwapAlignedTrivial\nPOSTCONDITION PostFrame\nCHECK_DEADLOCK FALSE\n"
            % (maxword, thin, offset, nmodels)
        )
    return p


def _covered(cov):
    need = {
        "resj2": {0, 1, 2, 3, 4},
        "topj2": {0, 1, 2, 3, 4},
        "finj2": {0, 1, 2},
        "pb": {"none", "top", "all"},
        "n": {3, 4},
        "nchains": {1, 2, 3},
        "ident": {False, True},
        "parity4": {False, True},
        "spinident": {True},
        "idgroups": {0, 1, 2},
        "idsize": {2, 3},
    }
    return [k for k, v in need.items() if not v <= set(cov.get(k, []))]


def features(s):
    f = {("n", s["n"]), ("top", s["top"][0]), ("pb", s["pb"]), ("nch", len(s["chains"])), ("ident", bool(s["ident"])), ("model", s["model"])}
    f |= {("fin", x[0]) for x in s["fin"]}
    forms = set()
    for c in s["chains"]:
        f |= {("res", j2) for _, j2, _ in c["res"]}
        forms.add(S.fz(c["form"]))
        if s["n"] == 4:
            f.add(("shape", "split" if sum(1 for g in c["form"] if len(g) == 2) == 2 else "cascade"))
    spinning = any(x[0] > 0 for x in s["fin"])
    f.add(("aligning", len(forms) >= 2 and spinning))
    if s["n"] == 4:
        f.add(("parity4", s["parity"]))
    if s["ident"] and spinning:
        f.add(("spinident", s["swapaligned"]))
    if s["ident"]:
        f.add(("identspin", max(s["fin"][i - 1][0] for pr in s["ident"] for i in pr)))
        f.add(("idgroups", len(s["ident"])))
        f.add(("idsize", max(len(g) for g in s["ident"])))
    return f


def multi_group_scalar(s):
    """two identical groups (or a group of three) of spin-0 finals: the symmetrisation runs over a product
    (or all six permutations) and the known spinning-identical finding does not apply"""
    return bool(s["ident"]) and (len(s["ident"]) >= 2 or max(len(g) for g in s["ident"]) >= 3) and all(s["fin"][i - 1][0] == 0 for g in s["ident"] for i in g)


def select(structs, k, rng):
    """greedy feature cover, then seeded fill-up"""
    order = list(rng.permutation(len(structs)))
    feats = [features(s) for s in structs]
    todo = set().union(*feats)
    chosen = []
    # mandatory: several spin-0 structures with two identical groups (exchange of one pair only / each / both)
    # on different chain sets, and one with a group of three
    seen_forms = set()
    for want_groups, cap in ((2, 5), (1, 2)):
        got = 0
        for i in order:
            s = structs[i]
            forms = tuple(sorted(tuple(sorted(tuple(sorted(g)) for g in c["form"])) for c in s["chains"]))
            if got < cap and multi_group_scalar(s) and len(s["ident"]) == want_groups and not known_class(s) and (want_groups, forms) not in seen_forms:
                seen_forms.add((want_groups, forms))
                chosen.append(i)
                todo -= feats[i]
                got += 1
    while todo and len(chosen) < k:
        best = max((i for i in order if i not in chosen), key=lambda i: len(feats[i] & todo))
        if not feats[best] & todo:
            break
        chosen.append(best)
        todo -= feats[best]
    # fill up; structures of the known defect class (see notes) are capped: they only re-confirm it
    known = known_class
    nknown = sum(known(structs[i]) for i in chosen)
    for i in order:
        if len(chosen) >= k:
            break
        if i in chosen or (known(structs[i]) and nknown >= 3):
            continue
        nknown += known(structs[i])
        chosen.append(i)
    return sorted(chosen)


def evaluate(ctx, s, words, nev, want_detail=None):
    """Replay all words on one structure.  Returns dict with per-word normalised errors."""
    from tf_pwa.config_loader import ConfigLoader

    key = S.skey(s)
    h = zlib.crc32(key.encode())
    tag = "_%08x" % h
    rng = np.random.default_rng([ctx.seed % (2**32), h])
    dic = S.build_config(s, tag=tag)
    config = ConfigLoader(dic)
    amp = config.get_amplitude()
    chains = list(config.get_decay())
    if len(chains) != len(s["chains"]):
        # the specification says every vertex has an allowed coupling, tf_pwa dropped a chain (or added one)
        return {"key": key, "problem": "chains", "got": [str(c) for c in chains], "expected": len(s["chains"])}
    params = S.draw_params(config.get_params(), rng)
    config.set_params(params)
    p = S.phsp_events(s, nev, (ctx.seed + h) % (2**31))
    names = S.leaf_names(s["n"], tag)
    stacks = [[] for _ in p]
    descs = []
    for w in words:
        q, d = S.apply_word(p, w, rng)
        descs.append(d)
        for a, b in zip(stacks, q):
            a.append(b)
    dens_parts, mass_parts = [], {}
    chunk = max(1, 16384 // nev)
    for lo in range(0, len(words), chunk):
        hi = min(len(words), lo + chunk)
        p4 = {nm: np.concatenate(a[lo:hi]) for nm, a in zip(names, stacks)}
        data = config.data.cal_angle(p4)
        dens_parts.append(np.asarray(amp(data), dtype=np.float64))
        for part, v in data["particle"].items():
            mass_parts.setdefault(str(part), []).append(np.asarray(v["m"], dtype=np.float64))
    dens = np.concatenate(dens_parts).reshape(len(words), nev)
    masses = {k: np.concatenate(v).reshape(len(words), nev) for k, v in mass_parts.items()}
    base = dens[0]
    scale = float(np.median(np.abs(base)))
    out = {"key": key, "tag": tag, "scale": scale, "n_words": len(words), "problem": None, "fails": [], "params": params}
    out["finite"] = bool(np.all(np.isfinite(dens)))
    out["nonneg"] = bool(np.all(dens[np.isfinite(dens)] >= 0.0))
    out["degenerate"] = bool(out["finite"] and np.max(np.abs(base)) < 1e-18)
    tol = REL * (np.maximum(np.abs(dens), np.abs(base)[None, :]) + scale) + ABS
    with np.errstate(invalid="ignore"):
        nerr = np.abs(dens - base[None, :]) / tol
    nerr = np.where(np.isfinite(nerr), nerr, np.inf)
    werr = nerr.max(axis=1)
    out["max_nerr"] = float(werr.max())
    # invariant masses (words without an exchange; an exchange permutes which grouping is which)
    merr = 0.0
    mfail = []
    for wi, w in enumerate(words):
        if any(g[0] == "Swap" for g in w):
            continue
        for nm, m in masses.items():
            e = float(np.max(np.abs(m[wi] - m[0]) / (1e-8 * np.abs(m[0]) + 1e-12)))
            merr = max(merr, e)
            if e > 1 or not np.isfinite(e):
                mfail.append((wi, nm, e))
    out["max_merr"] = merr
    out["mass_fails"] = mfail[:3]
    for wi in np.argsort(-werr):
        if werr[wi] <= 1:
            break
        ev = int(np.argmax(nerr[wi]))
        out["fails"].append(
            {
                "word": [list(g) for g in words[wi]],
                "applied": descs[wi],
                "normalised_error": float(werr[wi]),
                "event": ev,
                "density": float(dens[wi, ev]),
                "density_untransformed": float(base[ev]),
                "events_failing": int(np.sum(nerr[wi] > 1)),
            }
        )
    out["fails"].sort(key=lambda f: (len(f["word"]), f["word"]))
    out["werr"] = werr
    return out


def known_class(s):
    """identical pair declared, a spinning final, reference not exchange symmetric (spec: ~SwapAligned)"""
    return bool(s["ident"]) and any(x[0] > 0 for x in s["fin"]) and not s["swapaligned"]


def judge(ctx, s, res, words):
    key = res["key"]
    if res.get("problem") == "chains":
        ctx.violation("%s:chain-set" % key, {"structure": s, "detail": res})
        return
    base_detail = {"structure": s, "described": S.describe(s), "scale": res["scale"]}
    if not res["finite"]:
        ctx.violation("%s:non-finite" % key, base_detail)
        return
    if not res["nonneg"]:
        ctx.violation("%s:negative" % key, base_detail)
    if res["mass_fails"]:
        wi, nm, e = res["mass_fails"][0]
        ctx.violation("%s:mass:%s" % (key, "".join(g[0] for g in words[wi])), dict(base_detail, particle=nm, normalised_error=e, word=[list(g) for g in words[wi]]))
    if res["degenerate"]:
        return
    if res["fails"]:
        f = res["fails"][0]
        detail = dict(base_detail, first_failure=f, failing_words=len(res["fails"]), words=res["n_words"], tolerance="|d'-d| <= %g*(max(d',d)+median d)+%g" % (REL, ABS))
        if known_class(s):
            ctx.violation(KNOWN_CLASS_KEY, detail)
        else:
            ctx.violation("%s:%s" % (key, ".".join(f["applied"])), detail)


def run(ctx, only=None, tier=None, fallback=None):
    from ..prelude import import_tf_quiet

    quick = (tier or ctx.tier) == "quick"
    maxword = 2 if quick else 3
    thin = 4 if quick else 1
    nsel = 40
    nev = 64 if quick else 12
    offset = ctx.seed % 100000
    out = None
    for attempt in range(4):
        r = tlc.run("Symmetry", _cfg(ctx, thin, offset + attempt, maxword, len(S.MODEL_TAGS)), work=ctx.work, workers=16, timeout=1500)
        if r.violation:
            raise tlc.MachineryError("Symmetry spec violates its own invariant %s" % r.violation)
        if r.out is None:
            raise tlc.MachineryError("Symmetry (frame family) wrote no table:\n" + r.stdout[-1500:])
        missing = _covered(r.out["coverage"])
        if not missing:
            out = r.out
            break
        ctx.log("offset %d: catalogue does not cover %s; next slice" % (offset + attempt, missing))
    if out is None:
        raise tlc.MachineryError("no slice of the structure product covers the required features")
    ctx.tlc(r, "Symmetry/frame Thin=%d Offset=%d MaxWord=%d" % (thin, out["offset"], maxword), vacuity_actions=["Rotate", "Boost", "Invert", "Exchange"])
    structs = out["structures"]
    for s in structs:
        s["ident"] = [sorted(pr) for pr in s["ident"]]
        s["enabled"] = sorted(tuple(g) for g in s["enabled"])
    structs.sort(key=S.skey)
    # the harness expands the words from the enabling table; TLC's state count ties the two together
    expect = out["catalogue"] - out["nvalid"] + sum(sum(len(s["enabled"]) ** k for k in range(maxword + 1)) for s in structs)
    if expect != r.distinct:
        raise tlc.MachineryError("word expansion (%d scenarios) disagrees with TLC's state space (%d states)" % (expect, r.distinct))
    ctx.log("TLC: %d structures in the slice, %d valid, %d (structure, word) states" % (out["catalogue"], out["nvalid"], r.distinct))

    import_tf_quiet()
    rng = np.random.default_rng(ctx.seed % (2**32))
    if only is not None:
        chosen = [i for i, s in enumerate(structs) if S.skey(s) == only]
        if not chosen and fallback is not None:
            # recorded with another seed (another slice of the product): replay the recorded structure itself
            fallback["enabled"] = sorted(tuple(g) for g in fallback["enabled"])
            fallback["ident"] = [sorted(pr) for pr in fallback["ident"]]
            structs = structs + [fallback]
            chosen = [len(structs) - 1]
    elif quick:
        chosen = select(structs, nsel, rng)
    else:
        # all valid structures, in a seeded order so that the wall-clock guard below (which should not
        # trigger: ~25 min measured under load) would leave an unbiased subsample, not a prefix of one kind
        chosen = [int(i) for i in rng.permutation(len(structs))]
    ctx.cov["exhaustive"] = not quick and only is None
    budget_s = 27 * 60
    n_done = 0
    n_deg = n_known = n_short = 0
    max_nerr = max_merr = 0.0
    n_words = n_eval = 0
    featset = set()
    import time as _time

    for cnt, i in enumerate(chosen):
        if not quick and _time.time() - ctx.t0 > budget_s:
            ctx.cov["exhaustive"] = False
            ctx.notes.append("wall-clock guard: %d of %d structures replayed within %d s" % (n_done, len(chosen), budget_s))
            ctx.log(ctx.notes[-1])
            break
        n_done += 1
        s = structs[i]
        words = S.words_upto(s["enabled"], maxword)
        kc = known_class(s)
        try:
            res = None
            if kc and maxword > 1:
                # known defect class: single generators suffice to re-confirm it; the full word set is
                # replayed only if the structure passes them (i.e. once the defect is repaired)
                w1 = S.words_upto(s["enabled"], 1)
                r1 = evaluate(ctx, s, w1, nev)
                if r1.get("problem") or r1["fails"]:
                    res, words = r1, w1
                    n_short += 1
            if res is None:
                res = evaluate(ctx, s, words, nev)
        except Exception as e:  # the real code raised on a structure the specification calls valid
            ctx.violation("%s:raise" % S.skey(s), {"structure": s, "error": repr(e)[:500]})
            continue
        judge(ctx, s, res, words)
        if res.get("problem"):
            continue
        featset |= features(s)
        n_words += len(words)
        n_eval += len(words) * nev
        n_deg += res["degenerate"]
        n_known += kc
        if not res["degenerate"] and not kc and not res["fails"]:
            max_nerr = max(max_nerr, res["max_nerr"])
        max_merr = max(max_merr, res["max_merr"])
        nontrivial = not res["degenerate"]
        for w in words[1:]:
            ctx.count(0, distinct_key=(res["key"], w), nontrivial=nontrivial)
        ctx.count(len(words) * nev)
        if cnt < 3 or (s["ident"] and len(ctx.cov["samples"]) < 6):
            wi = min(len(words) - 1, 7 + cnt)
            ctx.sample({"structure": S.describe(s), "word": [list(g) for g in words[wi]], "events": nev, "normalised_error_of_word": float(res["werr"][wi]), "median_density": res["scale"]})
        if cnt % 20 == 0:
            ctx.log("%d/%d structures, max normalised error so far %.2e" % (cnt + 1, len(chosen), max_nerr))
    ctx.part("structures", slice_size=out["catalogue"], valid=out["nvalid"], evaluated=n_done, degenerate_zero_density=n_deg, known_defect_class=n_known, known_class_replayed_with_single_generators_only=n_short)
    ctx.part("scenarios", tlc_states=r.distinct, words_replayed=n_words, events_per_word=nev, density_evaluations=n_eval)
    ctx.cov["parts"]["margin"] = {"max_normalised_density_error_outside_known_class": max_nerr, "max_normalised_mass_error": max_merr, "tolerance_rel": REL, "tolerance_abs": ABS}
    ctx.cov["parts"]["features_covered"] = sorted("%s=%s" % f for f in featset)
    ctx.cov["traces_validated_against_impl"] = n_words
    ctx.cov["rule"] = (
        "TLC enumerates a slice (Thin=%d, Offset=%d) of the structure product of spec/Symmetry.tla and every word of length <= %d over the "
        "enabled generators as states; %s valid structures of the slice are replayed (%s; structures of the known defect class that already fail "
        "on single generators are not replayed on longer words), every word on %d phase-space events with generic "
        "rotations/boosts drawn per occurrence; density compared with the untransformed one: |d'-d| <= %g*(max+median)+%g, finite, >= 0; "
        "invariant masses to 1e-8. distinct non-trivial = distinct (structure, non-empty word) pairs on structures whose density is not identically zero"
        % (thin, out["offset"], maxword, n_done, "all" if not quick else "greedy feature cover + seeded fill", nev, REL, ABS)
    )
    ctx.assume("np.Inf shim (harness/prelude.py); tf_pwa imported from the working tree")
    ctx.assume("events, couplings and generic group elements are sampled (seeded); the discrete domain is a hash-thinned slice of the declared product, other seeds give other slices")
    ctx.assume("final-state parities follow the convention P=-1 (integer spin), P=+1 (half-integer spin); spins of finals <= 1, of resonances and parent <= 2")
    ctx.assume("every particle name carries a per-structure suffix because tf_pwa caches coupling tables by particle/decay name")
    ctx.assume("tolerance 1e-6 relative to max(density)+median(density): tf_pwa's alignment angle is an acos near 1 (noise ~1e-8)")


def replay(ctx, path):
    with open(path) as f:
        rec = json.load(f)
    s = rec["detail"].get("structure")
    if not s:
        return run(ctx)
    s["ident"] = [sorted(pr) for pr in s["ident"]]
    s["enabled"] = sorted(tuple(g) for g in s["enabled"])
    run(ctx, only=S.skey(s), tier=rec.get("tier"), fallback=s)
