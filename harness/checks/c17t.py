"""C17T -- stand-alone entry for the trace-validation part of C17 (binding B2, code -> spec).

`./check C17T --tier quick` records executions of the real library (the repository's composite entry
points and seeded random user sessions with injected faults) and lets TLC validate them against
spec/Session.tla through spec/SessionTrace.tla.  c17.py calls the same part (harness/session_trace.run).
"""
from .. import session_trace

LEVEL = "fault_enumeration"


def run(ctx):
    session_trace.run(ctx)


def replay(ctx, path):
    session_trace.replay(ctx, path)
