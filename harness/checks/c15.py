"""C15 -- line shapes equal their documented formulas.

Spec: spec/LineShape.tla (+ spec/Barrier.tla: limb arithmetic, exact Blatt-Weisskopf table for L = 0..8).
The spec holds every DOCUMENTED formula as an expression tree.  TLC evaluates the rational
sub-language exactly on a lattice of kinematic points with rational break-up momenta (one state per
(formula, L, point)) and checks the theorems of the property as invariants (positive imaginary part,
i/(m0 Gamma0) at the pole, Gamma(m0) = Gamma0, barrier factor one at q = q0, table = |theta_L(i q d)|^2,
q^2-based = q-based above threshold, finite below, FlatteC = conj Flatte).

Binding (B3), all of it against the real tf_pwa of the current working tree:
  (c) exact integer comparison of the coefficient table / generator / reverse Bessel polynomials, L = 0..8
  (b) every exactly evaluated lattice cell: implementation (floats) vs exact rational
  (a) the spec's trees evaluated by a generic one-line-per-operator evaluator at seeded random continuous
      points vs the low-level functions AND the registered particle models (built with get_particle /
      get_decay, evaluated through __call__ and get_amp / get_ls_amp)
  the property's theorems directly on the implementation, and the sympy denominators (formula.py,
  Particle.get_sympy_dom) times the numeric line shape = 1.
"""
import math
import os
from fractions import Fraction

import numpy as np

from .. import tlc
from .. import lineshape_c15 as ls

LEVEL = "model_checking"

INVARIANTS = ["InvLattice", "InvWellFormed", "InvEvaluable", "InvImPositive", "InvNominal", "InvNominalEvaluable",
              "InvAgree", "InvAgreeEvaluable", "InvFiniteBelow", "InvSingularAtRoot", "InvAngle", "InvTable"]
REL, ABS = 1e-8, 1e-12
# plain python numbers for m0 / Gamma0 / q0 / d are converted by tf.cast / convert_to_tensor through float32 (1e-7 relative):
# judged on a fixed probe (aspect python_float_scalars); set to False to record nothing for this input class
JUDGE_PYTHON_FLOAT_SCALARS = True
D_PARTICLE = 3.0  # barrier radius of every registered particle model (init_params: self.d = 3.0)


def _cfg(ctx, thorough):
    p = os.path.join(ctx.work, "lineshape.cfg")
    with open(p, "w") as f:
        f.write("CONSTANTS Thorough = %s\nINIT Init\nNEXT Next\n%s\nPOSTCONDITION Post\nCHECK_DEADLOCK FALSE\n"
                % ("TRUE" if thorough else "FALSE", "\n".join("INVARIANT " + i for i in INVARIANTS)))
    return p


def run_tlc(*a, **kw):
    try:
        return tlc.run(*a, **kw)
    except tlc.MachineryError as e:
        if "timed out" in str(e) or "Parsing or semantic analysis failed" in str(e) or "Assert" in str(e) or "overflow" in str(e):
            raise
        return tlc.run(*a, **kw)


class Findings:
    """collect failures per (target, aspect); one violation per pair, keyed by the failing orders L"""

    def __init__(self, ctx):
        self.ctx = ctx
        self.fail = {}
        self.tested = {}
        self.worst = {}

    def record(self, target, aspect, L, ok, detail_fn, err=None):
        k = (target, aspect)
        self.tested.setdefault(k, set()).add(L)
        if err is not None and np.isfinite(err):
            self.worst[k] = max(self.worst.get(k, 0.0), float(err))
        if not ok:
            self.fail.setdefault(k, {}).setdefault(L, detail_fn())

    def emit(self):
        """one violation per implementation: key = target + the failing aspects (with the failing orders L
        when only some orders fail), so that a listed finding never hides a different failure of the same target"""
        by_target = {}
        for (target, aspect), byL in self.fail.items():
            tested = self.tested[(target, aspect)]
            Ls = sorted(x for x in byL if x is not None)
            a = aspect
            if Ls and set(byL) != tested:
                a += "[L=" + ",".join(str(x) for x in Ls) + "]"
            first = byL[sorted(byL, key=lambda x: -1 if x is None else x)[0]]
            by_target.setdefault(target, []).append((a, {"aspect": aspect, "failing_L": Ls, "tested_L": sorted(x for x in tested if x is not None), "first_failure": first}))
        for target in sorted(by_target):
            items = sorted(by_target[target], key=lambda x: x[0])
            key = "%s:%s" % (target, "+".join(a for a, _ in items))
            self.ctx.violation(key, {"target": target, "failures": [d for _, d in items]})


def fl(x):
    return float(x)


def cx(z):
    z = complex(z)
    return [z.real, z.imag]


# ==========================================================================
def run(ctx):
    quick = ctx.tier == "quick"
    rng = np.random.default_rng(ctx.seed)

    # ------------------------------------------------------------------
    # 1. TLC: trees, exact lattice values (state dump), exact tables; theorems as invariants
    # ------------------------------------------------------------------
    dump = os.path.join(ctx.work, "lineshape_states")
    r = run_tlc("LineShape", _cfg(ctx, not quick), work=ctx.work, workers=16, coverage=False, dump_states=dump,
                timeout=600 if quick else 2400)
    if r.violation:
        tr = r.trace[-1][2] if r.trace else {}
        raise tlc.MachineryError("LineShape spec violates its own theorem %s (transcription of the documentation is wrong, "
                                 "or the documentation is inconsistent): state %s" % (r.violation, str(tr)[:1500]))
    T = r.out
    if T is None:
        raise tlc.MachineryError("LineShape: no JSON output")
    ctx.tlc(r, "LineShape Thorough=%s" % (not quick))
    states = [s["st"] for s in tlc.parse_dump(dump)]
    try:
        os.remove(dump + ".dump")
    except OSError:
        pass
    cells = [s for s in states if s["k"] == "cell"]
    nk = {k: sum(1 for s in states if s["k"] == k) for k in ("root", "seed", "tree", "table", "cell")}
    if len(cells) != T["ncells"] or nk["seed"] != T["nseeds"] or nk["tree"] != T["ntrees"] or nk["table"] != 9 or r.distinct != len(states):
        raise tlc.MachineryError("LineShape: state dump inconsistent with the spec's own counts: %s vs %s, distinct %d" % (
            nk, {k: T[k] for k in ("ncells", "nseeds", "ntrees")}, r.distinct))
    base = T["base"]
    entries = {e["name"]: e for e in T["entries"]}
    bwtab = [[ls.zint(z, base) for z in row] for row in T["bwtab"]]
    bessel = T["bessel"]
    ev = ls.make_ev(bwtab)
    derived = [(n, t) for n, t in T["derived"]]
    above_only = set(T["above_only"])
    sets = {k: set(v) for k, v in T["sets"].items()}
    ctx.log("TLC: %d states (%d lattice cells, %d points, %d trees) in %.1fs" % (r.distinct, len(cells), T["npoints"], T["nseeds"], r.wall))
    ctx.cov["exhaustive"] = True

    def tree(name, L):
        e = entries[name]
        return e["trees"][L if e["lmax"] else 0]

    # lattice points: exact base variables
    def pkey(p):
        return tuple((k, tuple(p[k]) if isinstance(p[k], (tuple, list)) else p[k]) for k in sorted(p))

    points = {}
    for p, bv, above, allopen in T["points"]:
        points[pkey(p)] = {"vars": {k: ls.rat(v) for k, v in bv.items()}, "above": bool(above), "allopen": bool(allopen)}

    def point_env(pt, m=None):
        b = {k: float(v) for k, v in pt["vars"].items()}
        b["theta0"] = math.atan2(b.pop("sin_theta0"), b.pop("cos_theta0"))
        if m is not None:
            b["m"] = m
            b["x"] = m
        return ls.bind_env(ev, b, derived, above_only, pt["above"])

    # decode the cells; vacuity of every theorem, counted on the states themselves
    vac = {k: 0 for k in ("im_positive", "nominal", "agree", "finite_below", "evaluable")}
    vac_by = {}
    exact = []  # (name, L, point, (re, im))
    for c in cells:
        pt = points[pkey(c["p"])]
        v = ls.cval(c["val"], base)
        pv = ls.cval(c["pval"], base)
        nm = ls.cval(c["nom"], base)
        name, L = c["e"], c["L"]
        exact.append((name, L, pt, v))
        if v is not None and name in sets["im_positive"] and pt["above"]:
            vac["im_positive"] += 1
            vac_by.setdefault(("im_positive", name), 0)
            vac_by[("im_positive", name)] += 1
            if not v[1] > 0:
                raise tlc.MachineryError("dump contradicts InvImPositive at %s L=%d" % (name, L))
        if v is not None and nm is not None:
            vac["nominal"] += 1
            vac_by[("nominal", name)] = vac_by.get(("nominal", name), 0) + 1
            if v != nm:
                raise tlc.MachineryError("dump contradicts InvNominal at %s L=%d" % (name, L))
        if v is not None and pv is not None:
            vac["agree"] += 1
            vac_by[("agree", name)] = vac_by.get(("agree", name), 0) + 1
        if v is not None and name in sets["claims_below"] and not pt["above"]:
            vac["finite_below"] += 1
            vac_by[("finite_below", name)] = vac_by.get(("finite_below", name), 0) + 1
        if v is not None:
            vac["evaluable"] += 1
    need = [("im_positive", n) for n in sets["im_positive"]] + [("finite_below", n) for n in sets["claims_below"]] + \
           [("agree", n) for n in ("BWR2", "BWR_below", "BWR_LS2", "MultiBWR_1", "Gamma2", "Bprime_q2", "Bprime_polynomial", "FlatteC", "BWR_LS_1of1")] + \
           [("nominal", n) for n in ("BW", "BWR", "BWR2", "BWR_below", "BWR_LS2", "MultiBWR_1", "BWR_normal", "BWR_LS_1of1", "BWR_LS_1of2",
                                     "BWR_LS_2of2", "Gamma", "Gamma2", "Bprime", "BprimeRad", "Bprime_q2", "barrier_factor")]
    missing = [k for k in need if vac_by.get(k, 0) == 0]
    if missing:
        raise tlc.MachineryError("vacuous theorems (antecedent never true on the lattice): %s" % missing)
    ctx.part("tlc_theorems", **{"cells_" + k: v for k, v in vac.items()},
             cells_total=len(cells), cells_without_exact_value=len(cells) - vac["evaluable"], max_limbs=max(len(c["val"]["den"]) for c in cells))

    # ------------------------------------------------------------------
    # 2. the generic evaluator reproduces TLC's exact values (self-test of the evaluator: machinery)
    # ------------------------------------------------------------------
    nself = 0
    worst_self = 0.0
    for name, L, pt, v in exact:
        if v is None:
            continue
        env = point_env(pt)
        with np.errstate(all="ignore"):
            got = complex(ev(tree(name, L), env))
        ref = complex(float(v[0]), float(v[1]))
        e = abs(got - ref) / (abs(ref) + 1e-300)
        if not (abs(got - ref) <= 1e-9 * abs(ref) + 1e-13):
            raise tlc.MachineryError("generic evaluator disagrees with TLC's exact value: %s L=%d point %s: %r vs %r" % (
                name, L, {k: str(x) for k, x in pt["vars"].items() if k in ("m", "m0", "g0", "d", "m1", "m2")}, got, ref))
        worst_self = max(worst_self, e)
        nself += 1
    ctx.log("evaluator self-test done")
    ctx.part("evaluator_selftest", cells=nself, max_rel_err=worst_self)

    import sympy as sym
    import tensorflow as tf  # noqa: F401

    from tf_pwa import breit_wigner as bw
    from tf_pwa import formula as fm
    from tf_pwa.amp import core as acore
    from tf_pwa.amp import flatte as aflatte

    F = Findings(ctx)
    validated = 0

    # ------------------------------------------------------------------
    # 3. tables, exact integers, L = 0..8
    # ------------------------------------------------------------------
    nint = 0
    for L in range(9):
        row = bwtab[L]
        # generator
        try:
            got = [int(x) for x in bw.get_bprime_coeff(L)]
            exact_int = all(sym.Integer(x) == x for x in bw.get_bprime_coeff(L))
        except Exception as ex:  # noqa: BLE001
            got, exact_int = repr(ex), False
        F.record("fn:get_bprime_coeff", "table", L, got == row and exact_int, lambda: {"L": L, "got": got, "expected": row})
        # Bprime_polynomial: the hard-coded table (L <= 5) and the generated rows, through exact integer points:
        # P_L(z), z = 0..L+1 determine the L+1 coefficients; every value is an integer < 2^53
        zs = list(range(L + 2))
        want = [sum(c * z ** (L - i) for i, c in enumerate(row)) for z in zs]
        try:
            g1 = [float(np.asarray(bw.Bprime_polynomial(L, np.float64(z)))) for z in zs]
        except Exception as ex:  # noqa: BLE001
            g1 = [repr(ex)]
        F.record("fn:Bprime_polynomial", "table", L, g1 == [float(w) for w in want], lambda: {"L": L, "z": zs, "got": g1, "expected": want})
        try:
            zsym = sym.Symbol("z")
            poly = sym.Poly(sym.nsimplify(sym.expand(fm.Bprime_polynomial(L, zsym))), zsym)
            g2 = [int(c) if c == int(c) else float(c) for c in poly.all_coeffs()]
            g2n = [fm.Bprime_polynomial(L, z) for z in zs]
        except Exception as ex:  # noqa: BLE001
            g2, g2n = repr(ex), None
        F.record("formula.Bprime_polynomial", "table", L, g2 == row and g2n is not None and all(a == b for a, b in zip(g2n, want)),
                 lambda: {"L": L, "got": g2, "expected": row})
        # reverse Bessel polynomial: coefficients of x^(L-k)
        try:
            xs = sym.Symbol("x")
            th = sym.Poly(bw.reverse_bessel_polynomials(L, xs), xs) if L > 0 else None
            g3 = [Fraction(int(c.p), int(c.q)) for c in th.all_coeffs()] if L > 0 else [Fraction(bw.reverse_bessel_polynomials(0, xs))]
        except Exception as ex:  # noqa: BLE001
            g3 = repr(ex)
        F.record("fn:reverse_bessel_polynomials", "table", L, g3 == [Fraction(a) for a in bessel[L]], lambda: {"L": L, "got": str(g3), "expected": bessel[L]})
        nint += 4
        ctx.count(4, distinct_key=("table", L))
    # exact rational lattice values of theta_L(x), x = m
    for name, L, pt, v in exact:
        if name == "reverse_bessel" and v is not None:
            x = pt["vars"]["m"]
            try:
                g = bw.reverse_bessel_polynomials(L, x)
            except Exception as ex:  # noqa: BLE001
                g = repr(ex)
            F.record("fn:reverse_bessel_polynomials", "lattice_exact", L, g == v[0], lambda: {"L": L, "x": str(x), "got": str(g), "expected": str(v[0])})
            nint += 1
    ctx.log("tables done")
    ctx.part("tables_exact", integer_comparisons=nint, L_max=8, c_8=bwtab[8])
    ctx.sample({"part": "table", "L": 8, "|theta_8(i w)|^2 coefficients (w^16 .. w^0)": bwtab[8], "theta_8 coefficients": bessel[8]})

    # ------------------------------------------------------------------
    # 4. bindings: formula name -> implementations claiming it
    # ------------------------------------------------------------------
    A = np.asarray

    def npc(x):
        return np.asarray(x).astype(complex)

    def like(x, e):
        return np.broadcast_to(npc(x), np.shape(e["m"]))

    pcache = {}

    def particle(model, L, e, two_ls=False, parent=None, **extra):
        key = (model, L, fl(e["m0"]), fl(e["g0"]), fl(e["m1"]), fl(e["m2"]), two_ls, parent, tuple(sorted((k, str(v)) for k, v in extra.items())))
        if key not in pcache:
            if len(pcache) > 4000:
                pcache.clear()
            pcache[key] = ls.build_particle(model, L, fl(e["m0"]), fl(e["g0"]), fl(e["m1"]), fl(e["m2"]), two_ls=two_ls, parent=parent, **extra)
        return pcache[key]

    def data_c(e):
        return {"|q|": e["q"], "|q|2": e["q2"], "|q0|": e["q0"], "|q0|2": e["q02"]}

    def both_paths(model, **kw):
        """a standard Particle: __call__(m) and get_amp(data, data_c) with the spec's momenta"""
        def call(e, L):
            p, _, _ = particle(model, L, e, **kw)
            return like(p(e["m"]), e)

        def amp(e, L):
            p, _, _ = particle(model, L, e, **kw)
            return like(p.get_amp({"m": e["m"]}, data_c(e)), e)
        return [("__call__", call), ("get_amp", amp)]

    def ls_paths(model, comp, two, **kw):
        def lsl(L):
            return [(L, 1), (L + 2, 1)] if two else [(L, 0)]

        def call(e, L):
            p, _, vm = particle(model, L, e, two_ls=two, **kw)
            if two:
                vm.set("R_theta0", fl(e["theta0"]))
            out = p(e["m"], l=L) if model == "BWR_LS2" else p(e["m"])
            return like(out[comp], e)

        def amp(e, L):
            p, _, vm = particle(model, L, e, two_ls=two, **kw)
            if two:
                vm.set("R_theta0", fl(e["theta0"]))
            return like(p.get_ls_amp(e["m"], lsl(L), e["q2"], e["q02"], D_PARTICLE)[comp], e)
        return [("__call__", call), ("get_ls_amp", amp)]

    def flatte_paths(model):
        def mk(e):
            ml = [[fl(e["ma_0"]), fl(e["mb_0"])], [fl(e["ma_1"]), fl(e["mb_1"])]]
            return particle(model, 0, e, mass_list=ml, g_0=fl(e["g_0"]), g_1=fl(e["g_1"]))

        def call(e, L):
            return like(mk(e)[0](e["m"]), e)

        def amp(e, L):
            return like(mk(e)[0].get_amp({"m": e["m"]}, {}), e)
        return [("__call__", call), ("get_amp", amp)]

    def with_params(model, names):
        def mk(e):
            p, _, vm = particle(model, 0, e)
            for n in names:
                vm.set("R_" + n, fl(e[n]))
            return p

        def call(e, L):
            return like(mk(e)(e["m"]), e)

        def amp(e, L):
            return like(mk(e).get_amp({"m": e["m"]}, {}), e)
        return [("__call__", call), ("get_amp", amp)]

    def below_paths():
        def par(e):
            return (fl(e["m_max"]) + 0.7, 0.7)   # parent mass M, spectator mass m3: m_max = M - m3

        def call(e, L):
            p, _, _ = particle("BWR_below", L, e, parent=par(e))
            return like(p(e["m"]), e)

        def amp(e, L):
            p, _, _ = particle("BWR_below", L, e, parent=par(e))
            return like(p.get_amp({"m": e["m"]}, data_c(e)), e)
        return [("__call__", call), ("get_amp", amp)]

    def multibwr_paths():
        def mk(e):
            return particle("MultiBWR", 0, e, mass_list=[fl(e["m0"])], width_list=[fl(e["g0"])])[0]

        def amp(e, L):
            return like(mk(e).get_ls_amp(e["m"], [(0, 0)], e["q2"], e["q02"], D_PARTICLE)[0], e)
        return [("get_ls_amp", amp)]

    def gs_paths():
        def mk(e):
            return particle("GS_rho", None if False else 0, e, bw_l=None)[0]

        def call(e, L):
            p, _, _ = particle("GS_rho", L, e, c_daug2Mass=fl(e["m1"]), c_daug3Mass=fl(e["m2"]))
            return like(p(e["m"]), e)

        def amp(e, L):
            p, _, _ = particle("GS_rho", L, e, c_daug2Mass=fl(e["m1"]), c_daug3Mass=fl(e["m2"]))
            return like(p.get_amp({"m": e["m"]}, data_c(e)), e)
        return [("__call__", call), ("get_amp", amp)]

    def fn(f):
        return [("call", lambda e, L: like(f(e, L), e))]

    def fm_num(f, *names):
        syms = sym.symbols(" ".join(names))
        lam = sym.lambdify(syms, f(*syms), "numpy")
        return lambda e, L: lam(*[npc(e[n]) for n in names])

    def rb_abs2(e, L):
        out = []
        for qq, dd in zip(np.ravel(e["q"]), np.ravel(np.broadcast_to(e["d"], np.shape(e["q"])))):
            out.append(abs(complex(bw.reverse_bessel_polynomials(L, 1j * float(qq) * float(dd)))) ** 2)
        return np.reshape(out, np.shape(e["q"]))

    def rb_val(e, L):
        return np.reshape([float(bw.reverse_bessel_polynomials(L, float(x))) for x in np.ravel(e["x"])], np.shape(e["x"]))

    # target: (key, formula name, needs d = 3, below-threshold judgement: "value" | "finite" | None, paths)
    TARGETS = [
        ("fn:BW", "BW", False, "value", fn(lambda e, L: bw.BW(e["m"], e["m0"], e["g0"]))),
        ("particle:BW", "BW", True, "value", both_paths("BW")),
        ("fn:BWR", "BWR", False, None, fn(lambda e, L: bw.BWR(e["m"], e["m0"], e["g0"], e["q"], e["q0"], L, e["d"]))),
        ("particle:BWR", "BWR", True, None, both_paths("BWR")),
        ("particle:default", "BWR", True, None, both_paths("default")),
        ("fn:BWR2", "BWR2", False, "finite", fn(lambda e, L: bw.BWR2(e["m"], e["m0"], e["g0"], e["q2"], e["q02"], L, e["d"]))),
        ("particle:BWR2", "BWR2", True, "finite", both_paths("BWR2")),
        ("particle:BWR_below", "BWR_below", True, "finite", below_paths()),
        ("fn:BWR_normal", "BWR_normal", False, None, fn(lambda e, L: bw.BWR_normal(e["m"], e["m0"], e["g0"], e["q2"], e["q02"], L, e["d"]))),
        ("particle:BWR_normal", "BWR_normal", True, None, both_paths("BWR_normal")),
        ("particle:BWR_coupling", "BWR_coupling", True, None, both_paths("BWR_coupling")),
        ("particle:BWR_LS", "BWR_LS_1of1", True, None, ls_paths("BWR_LS", 0, False)),
        ("particle:BWR_LS(l,l+2)[0]", "BWR_LS_1of2", True, None, ls_paths("BWR_LS", 0, True)),
        ("particle:BWR_LS(l,l+2)[1]", "BWR_LS_2of2", True, None, ls_paths("BWR_LS", 1, True)),
        ("particle:BWR_LS[fix_bug1=True]", "BWR_LS_1of1", True, None, ls_paths("BWR_LS", 0, False, fix_bug1=True)),
        ("particle:BWR_LS[fix_bug1=True](l,l+2)[0]", "BWR_LS_1of2", True, None, ls_paths("BWR_LS", 0, True, fix_bug1=True)),
        ("particle:BWR_LS[fix_bug1=True](l,l+2)[1]", "BWR_LS_2of2", True, None, ls_paths("BWR_LS", 1, True, fix_bug1=True)),
        ("particle:BWR_LS2", "BWR_LS2", True, "finite", ls_paths("BWR_LS2", 0, False)),
        ("particle:MultiBWR[one BWR]", "MultiBWR_1", True, None, multibwr_paths()),
        ("fn:GS", "GS_rho", False, None, fn(lambda e, L: bw.GS(e["m"], e["m0"], e["g0"], e["q"], e["q0"], L, e["d"], e["m1"], e["m2"]))),
        ("particle:GS_rho", "GS_rho", True, None, gs_paths()),
        ("particle:Flatte", "Flatte", True, "value", flatte_paths("Flatte")),
        ("particle:FlatteC", "FlatteC", True, "value", flatte_paths("FlatteC")),
        ("fn:one", "one", False, "value", fn(lambda e, L: bw.one(e["m"]))),
        ("particle:one", "one", True, "value", both_paths("one")),
        ("particle:exp", "exp", True, "value", with_params("exp", ["a"])),
        ("particle:exp_com", "exp_com", True, "value", with_params("exp_com", ["a", "b"])),
        ("particle:x", "x", True, "value", both_paths("x")[:1] + [("get_amp", lambda e, L: like(particle("x", 0, e)[0].get_amp({"m": e["m"]}), e))]),
        ("fn:Gamma", "Gamma", False, None, fn(lambda e, L: bw.Gamma(e["m"], e["g0"], e["q"], e["q0"], L, e["m0"], e["d"]))),
        ("fn:Gamma2", "Gamma2", False, "finite", fn(lambda e, L: bw.Gamma2(e["m"], e["g0"], e["q2"], e["q02"], L, e["m0"], e["d"]))),
        ("fn:Bprime", "Bprime", False, None, fn(lambda e, L: bw.Bprime(L, e["q"], e["q0"], e["d"]))),
        ("fn:Bprime^2", "BprimeRad", False, None, fn(lambda e, L: npc(bw.Bprime(L, e["q"], e["q0"], e["d"])) ** 2)),
        ("fn:Bprime_q2", "Bprime_q2", False, "finite", fn(lambda e, L: bw.Bprime_q2(L, e["q2"], e["q02"], e["d"]))),
        ("fn:barrier_factor", "barrier_factor", False, None, fn(lambda e, L: A(bw.barrier_factor(list(range(L + 1)), e["q"], e["q0"], e["d"]))[L])),
        ("fn:Bprime_polynomial", "Bprime_polynomial", False, "value", fn(lambda e, L: bw.Bprime_polynomial(L, e["z"]))),
        ("formula.Bprime_polynomial", "Bprime_polynomial", False, "value", fn(lambda e, L: fm.Bprime_polynomial(L, npc(e["z"])))),
        ("fn:reverse_bessel_polynomials(|theta(iqd)|^2)", "theta2", False, None, fn(rb_abs2)),
        ("fn:reverse_bessel_polynomials", "reverse_bessel", False, "value", fn(rb_val)),
        ("core.get_relative_p", "q", False, None, fn(lambda e, L: acore.get_relative_p(e["m"], e["m1"], e["m2"]))),
        ("formula.get_relative_p", "q", False, None, fn(fm_num(fm.get_relative_p, "m", "m1", "m2"))),
        ("core.get_relative_p2", "q2", False, "value", fn(lambda e, L: acore.get_relative_p2(e["m"], e["m1"], e["m2"]))),
        ("formula.get_relative_p2", "q2", False, "value", fn(fm_num(fm.get_relative_p2, "m", "m1", "m2"))),
        ("flatte.cal_monentum", "flatte_q", False, "value", fn(lambda e, L: aflatte.cal_monentum(tf.constant(A(e["m"], dtype=np.float64)), e["ma_0"], e["mb_0"]))),
        ("core._ad_hoc", "ad_hoc", False, "value", fn(lambda e, L: acore._ad_hoc(e["m0"], e["m_max"], e["m_min"]))),
    ]
    by_entry = {}
    for t in TARGETS:
        by_entry.setdefault(t[1], []).append(t)
    unbound = [n for n in entries if n not in by_entry]
    if unbound:
        raise tlc.MachineryError("formulas without a bound implementation: %s" % unbound)

    def evaluate(path_fn, e, L):
        try:
            with np.errstate(all="ignore"):
                return npc(path_fn(e, L)), None
        except Exception as ex:  # noqa: BLE001
            return None, repr(ex)[:300]

    def describe(e, i=None):
        out = {}
        for k in ("m", "m0", "g0", "m1", "m2", "d", "g_0", "g_1", "ma_1", "mb_1", "theta0", "a", "b", "m_max", "m_min"):
            if k in e:
                v = np.asarray(e[k])
                out[k] = float(v.ravel()[i if (i is not None and v.size > 1) else 0])
        return out

    def dev_alts(name, L, e, shape):
        """recognised deviations of the spec (not documentation), evaluated at the same inputs"""
        out = []
        for dv in entries[name].get("deviations", []):
            with np.errstate(all="ignore"):
                out.append((dv["name"], np.broadcast_to(npc(ev(dv["trees"][L if entries[name]["lmax"] else 0], e)), shape), dv["what"]))
        return out

    def compare(tkey, aspect, L, Lk, paths, e, ref, mask=None, judge="value", alts=()):
        """ref: complex array from the spec; judge 'value': implementation == ref; 'finite': implementation finite.
        L: order passed to the implementation; Lk: L for the violation key (None for formulas without L).
        alts: recognised specific deviations (name, reference, description); the complex conjugate of the documented
        formula is always one.  An implementation that fails but matches one of them on ALL points is reported under
        the deviation's own name, so that a listed finding never hides a different failure."""
        n = 0
        for pname, pf in paths:
            got, err = evaluate(pf, e, L)
            if got is None:
                F.record(tkey, aspect + ":raise", Lk, False, lambda: {"path": pname, "L": L, "error": err, "inputs": describe(e)})
                continue
            sel = np.ones(np.shape(got), dtype=bool) if mask is None else np.broadcast_to(mask, np.shape(got))
            if judge == "finite":
                ok = np.isfinite(got) | ~sel
                errv = 0.0
            else:
                ok = ls.close(got, ref, REL, ABS) | ~sel
                er = ls.relerr(got, ref)
                errv = float(np.max(np.where(sel & np.isfinite(er), er, 0.0))) if np.any(sel) else 0.0
            bad = np.where(~ok.ravel())[0]
            if bad.size and judge == "value":
                matched = False
                for aname, aref, awhat in list(alts) + [("conjugated", np.conj(np.broadcast_to(ref, got.shape)),
                                                         "equals the complex conjugate of the documented formula")]:
                    if np.all(ls.close(got, aref, REL, ABS) | ~sel):
                        F.record(tkey, aname, None, False, lambda got=got, bad=bad, pname=pname, awhat=awhat: {
                            "path": pname, "L": L, "inputs": describe(e, int(bad[0])), "got": cx(got.ravel()[int(bad[0])]),
                            "expected_from_documented_formula": cx(np.broadcast_to(ref, got.shape).ravel()[int(bad[0])]),
                            "max_rel_err": errv, "diagnosis": awhat})
                        matched = True
                        break
                if matched:
                    n += int(sel.sum())
                    continue

            def detail(bad=bad, got=got, pname=pname):
                i = int(bad[0])
                d = {"path": pname, "L": L, "inputs": describe(e, i), "got": cx(got.ravel()[i]), "n_failing": int(bad.size), "n_points": int(sel.sum())}
                if judge != "finite":
                    d["expected_from_documented_formula"] = cx(np.broadcast_to(ref, got.shape).ravel()[i])
                return d
            F.record(tkey, aspect, Lk, bad.size == 0, detail, errv)
            n += int(sel.sum())
        return n

    # ------------------------------------------------------------------
    # 5. (b) lattice: implementation vs TLC's exact values, every exactly evaluated cell
    # ------------------------------------------------------------------
    nlat = 0
    groups = {}
    for name, L, pt, v in exact:
        if v is not None and name != "GS_rho":
            groups.setdefault((name, L), []).append((pt, v))
            ctx.count(0, distinct_key=("lattice", name, L, id(pt)))

    def vector_env(items):
        """one environment for many lattice points (arrays over the points)"""
        names = [k for k in items[0][0]["vars"] if k not in ("cos_theta0", "sin_theta0")]
        bvec = {k: np.array([float(pt["vars"][k]) for pt, _ in items]) for k in names}
        v0 = items[0][0]["vars"]
        bvec["theta0"] = math.atan2(float(v0["sin_theta0"]), float(v0["cos_theta0"]))
        above = np.array([pt["above"] for pt, _ in items])
        return ls.bind_env(ev, bvec, derived, above_only, above), above

    for (name, L), items in sorted(groups.items()):
        Lk = L if entries[name]["lmax"] else None
        for tkey, _, needs_d3, below, paths in by_entry[name]:
            if not needs_d3:
                # low-level functions broadcast over every argument: one call for all points
                e, above = vector_env(items)
                ref = np.array([complex(float(v[0]), float(v[1])) for _, v in items])
                if above.any():
                    nlat += compare(tkey, "lattice", L, Lk, paths, e, ref, mask=above, judge="value", alts=dev_alts(name, L, e, ref.shape))
                if below is not None and (~above).any():
                    nlat += compare(tkey, "lattice_below", L, Lk, paths, e, ref, mask=~above, judge=below, alts=dev_alts(name, L, e, ref.shape))
                validated += len(items) if below is not None else int(above.sum())
            else:
                # a particle is built per (m0, Gamma0, daughters); its masses are evaluated together
                sub = {}
                for pt, v in items:
                    if float(pt["vars"]["d"]) != D_PARTICLE or (not pt["above"] and below is None):
                        continue
                    vv = pt["vars"]
                    sub.setdefault((vv["m0"], vv["g0"], vv["m1"], vv["m2"], pt["above"]), []).append((pt, v))
                for (_, _, _, _, ab), its in sub.items():
                    e = point_env(its[0][0], m=np.array([float(pt["vars"]["m"]) for pt, _ in its]))
                    ref = np.array([complex(float(v[0]), float(v[1])) for _, v in its])
                    nlat += compare(tkey, "lattice" if ab else "lattice_below", L, Lk, paths, e, ref, judge="value" if ab else below,
                                    alts=dev_alts(name, L, e, ref.shape))
                    validated += len(its)
    ctx.count(nlat)
    ctx.log("lattice done")
    ctx.part("lattice_vs_implementation", comparisons=nlat, cells_compared=validated)
    mid = next((x for x in exact if x[0] == "BWR" and x[1] == 3 and x[3] is not None and x[2]["vars"]["m"] != x[2]["vars"]["m0"] and x[2]["vars"]["m1"] > 0), None)
    if mid:
        ctx.sample({"part": "lattice", "formula": "BWR", "L": 3, "point": {k: str(mid[2]["vars"][k]) for k in ("m", "m0", "g0", "m1", "m2", "d")},
                    "exact_value": [str(mid[3][0]), str(mid[3][1])]})

    # ------------------------------------------------------------------
    # 6. (a) seeded random continuous points: implementation vs the spec's trees
    # ------------------------------------------------------------------
    nset = 3 if quick else 16
    nm = 60 if quick else 500

    def random_base(d3):
        m1, m2 = rng.uniform(0.1, 1.2, 2)
        k = rng.integers(0, 4)
        if k == 0:
            m2 = m1
        elif k == 1:
            m1 = 0.0
        thr = m1 + m2
        m0 = thr + rng.uniform(0.15, 2.0)
        b = {"m0": m0, "g0": rng.uniform(0.02, 0.6), "m1": m1, "m2": m2, "d": D_PARTICLE if d3 else rng.uniform(0.5, 5.0),
             "g_0": rng.uniform(0.1, 1.0) * rng.choice([-1, 1]), "g_1": rng.uniform(0.1, 1.0) * rng.choice([-1, 1]),
             "ma_0": m1, "mb_0": m2, "ma_1": rng.uniform(0.1, 1.5), "mb_1": rng.uniform(0.1, 1.5), "gamma_i": 1.0, "mpi": (m1 + m2) / 2,
             "theta0": rng.uniform(-3.0, 3.0), "a": rng.uniform(-1.5, 1.5), "b": rng.uniform(-3, 3), "m_max": m0 + rng.uniform(0.1, 2.0), "m_min": thr}
        return b, thr

    def masses(thr, m1, m2, n, where):
        if where == "above":
            m = thr + np.concatenate([rng.uniform(0.003, 0.3, n // 3), rng.uniform(0.3, 4.0, n - n // 3)])
        else:
            lo = abs(m1 - m2) + 0.02 * thr + 1e-3
            m = rng.uniform(lo, thr * (1 - 2e-3), n)
        return m

    nrand = 0
    ndist = 0
    for tkey, name, d3, below, paths in TARGETS:
        ent = entries[name]
        Ls = list(range(ent["lmax"] + 1)) if ent["lmax"] else [0]
        for L in Ls:
            for s in range(nset):
                b, thr = random_base(d3)
                if name == "GS_rho":
                    # the pion masses reach GS through tf.cast(<python float>) = single precision: use masses that are
                    # exactly representable in float32 so that only the formula is judged
                    if b["m1"] == 0.0:
                        b["m1"] = 0.3
                    b["m1"], b["m2"] = float(np.float32(b["m1"])), float(np.float32(b["m2"]))
                    b["ma_0"], b["mb_0"] = b["m1"], b["m2"]
                    thr = b["m1"] + b["m2"]
                    b["mpi"] = thr / 2
                    b["m0"] = thr + rng.uniform(0.15, 2.0)
                    b["m_min"] = thr
                    if s == 0:
                        # one fixed parameter set (independent of the seed) so that the verdict on GS is deterministic
                        # (1 + D Gamma0/m0 = 0.09 here: the numerator carries float32(pi) at 3e-7 relative for every m and L)
                        b.update(m1=0.5, m2=0.5, ma_0=0.5, mb_0=0.5, mpi=0.5, m0=1.15, g0=0.6, m_min=1.0)
                        thr = 1.0
                for where in ("above", "below"):
                    if where == "below" and (below is None or b["m1"] == 0.0 or b["m2"] == 0.0 and False):
                        continue
                    m = masses(thr, b["m1"], b["m2"], nm, where)
                    if name == "GS_rho" and s == 0:
                        m = np.linspace(thr + 0.05, thr + 4.0, nm)
                    if name == "ad_hoc":
                        b2 = dict(b, m0=rng.uniform(b["m_min"] - 1.0, b["m_max"] + 1.0, nm))
                        m = np.asarray(b2["m0"])
                    else:
                        b2 = b
                    e = ls.bind_env(ev, dict(b2, m=m, x=rng.uniform(-3, 3, m.shape)), derived, above_only, where == "above")
                    with np.errstate(all="ignore"):
                        ref = np.broadcast_to(npc(ev(tree(name, L), e)), m.shape)
                    judge = "value" if where == "above" else below
                    if judge == "value" and not np.all(np.isfinite(ref)):
                        raise tlc.MachineryError("documented formula %s L=%d not finite at a sampled point" % (name, L))
                    alts = dev_alts(name, L, e, m.shape)
                    if name == "GS_rho":
                        pi32 = float(np.float32(math.pi))
                        with np.errstate(all="ignore"):
                            alts.append(("pi_float32", np.broadcast_to(npc(ev(tree(name, L), dict(e, pi=pi32))), m.shape),
                                         "matches the documented formula with pi replaced by float32(pi) = %.10f" % pi32))
                    k = compare(tkey, "value" if where == "above" else ("value_below" if judge == "value" else "finite_below"),
                                L, L if ent["lmax"] else None, paths, e, ref, judge=judge, alts=alts)
                    nrand += k
                ndist += 1
                ctx.count(0, distinct_key=("rand", tkey, L, s))
    ctx.count(nrand)
    ctx.sample({"part": "tree", "formula": "BW", "documented": entries["BW"]["doc"], "tree": tree("BW", 0)})
    sb, _ = random_base(False)
    se = ls.bind_env(ev, dict(sb, m=np.array([sb["m0"] + 0.1]), x=np.array([0.0])), derived, above_only, True)
    ctx.sample({"part": "random", "formula": "BWR", "L": 2, "inputs": describe(se, 0),
                "documented_formula_value": cx(npc(ev(tree("BWR", 2), se))[0]),
                "breit_wigner.BWR": cx(npc(bw.BWR(se["m"], se["m0"], se["g0"], se["q"], se["q0"], 2, se["d"]))[0])})
    ctx.log("random done")
    ctx.part("random_vs_trees", comparisons=nrand, parameter_sets=ndist, masses_per_set=nm, targets=len(TARGETS))

    # ------------------------------------------------------------------
    # 7. the theorems of the property, directly on the implementation
    # ------------------------------------------------------------------
    nth = 0
    fam = [t for t in TARGETS if t[1] in ("BW", "BWR", "BWR2", "BWR_below", "BWR_LS2", "MultiBWR_1")]
    for tkey, name, d3, below, paths in fam:
        ent = entries[name]
        for L in (list(range(ent["lmax"] + 1)) if ent["lmax"] else [0]):
            for s in range(nset):
                b, thr = random_base(d3)
                m = masses(thr, b["m1"], b["m2"], nm // 2, "above")
                m[0] = b["m0"]     # the pole position itself
                e = ls.bind_env(ev, dict(b, m=m, x=m), derived, above_only, True)
                for pname, pf in paths:
                    got, err = evaluate(pf, e, L)
                    if got is None:
                        continue
                    Lk = L if ent["lmax"] else None
                    F.record(tkey, "im_positive", Lk, bool(np.all(np.imag(got) > 0)),
                             lambda got=got, pname=pname, e=e: {"path": pname, "L": L, "inputs": describe(e, int(np.argmin(np.imag(got)))),
                                                               "got": cx(got[int(np.argmin(np.imag(got)))]), "claim": "Im BW(m) > 0 for Gamma0 > 0"})
                    pole = 1j / (b["m0"] * b["g0"])
                    F.record(tkey, "pole_value", Lk, bool(ls.close(got[0], pole, REL, ABS)),
                             lambda got=got, pname=pname, e=e, pole=pole: {"path": pname, "L": L, "inputs": describe(e, 0), "got": cx(got[0]),
                                                                          "expected i/(m0 Gamma0)": cx(pole)})
                    nth += got.size + 1
    # Gamma(m0) = Gamma0 ; B(q0) = 1 ; q^L B_L' = q0^L ; q^2-based == q-based above threshold
    for L in range(9):
        for s in range(nset):
            b, thr = random_base(False)
            m = masses(thr, b["m1"], b["m2"], nm // 2, "above")
            m[0] = b["m0"]
            e = ls.bind_env(ev, dict(b, m=m, x=m), derived, above_only, True)

            def g(f):
                v, err = evaluate(lambda e_, L_: like(f(), e_), e, L)
                return v, err
            for key, f, want in (("fn:Gamma", lambda: bw.Gamma(e["m"], e["g0"], e["q"], e["q0"], L, e["m0"], e["d"]), b["g0"]),
                                 ("fn:Gamma2", lambda: bw.Gamma2(e["m"], e["g0"], e["q2"], e["q02"], L, e["m0"], e["d"]), b["g0"]),
                                 ("fn:Bprime", lambda: bw.Bprime(L, e["q"], e["q0"], e["d"]), 1.0),
                                 ("fn:Bprime_q2", lambda: bw.Bprime_q2(L, e["q2"], e["q02"], e["d"]), 1.0),
                                 ("fn:barrier_factor", lambda: A(bw.barrier_factor([L], e["q"], e["q0"], e["d"]))[0], float(e["q0"]) ** L)):
                v, err = g(f)
                if v is None:
                    F.record(key, "nominal:raise", L, False, lambda: {"L": L, "error": err})
                    continue
                F.record(key, "nominal", L, bool(ls.close(v[0], want, REL, ABS)),
                         lambda v=v, want=want: {"L": L, "inputs": describe(e, 0), "got_at_m=m0": cx(v[0]), "expected": want})
                nth += 1
            for key, f2, f1 in (("fn:Gamma2", lambda: bw.Gamma2(e["m"], e["g0"], e["q2"], e["q02"], L, e["m0"], e["d"]),
                                 lambda: bw.Gamma(e["m"], e["g0"], e["q"], e["q0"], L, e["m0"], e["d"])),
                                ("fn:BWR2", lambda: bw.BWR2(e["m"], e["m0"], e["g0"], e["q2"], e["q02"], L, e["d"]),
                                 lambda: bw.BWR(e["m"], e["m0"], e["g0"], e["q"], e["q0"], L, e["d"])),
                                ("fn:Bprime_q2", lambda: bw.Bprime_q2(L, e["q2"], e["q02"], e["d"]), lambda: bw.Bprime(L, e["q"], e["q0"], e["d"]))):
                v2, _ = g(f2)
                v1, _ = g(f1)
                if v1 is None or v2 is None:
                    continue
                ok = ls.close(v2, v1, REL, ABS)
                F.record(key, "q2_vs_q", L, bool(np.all(ok)),
                         lambda v1=v1, v2=v2, ok=ok: {"L": L, "inputs": describe(e, int(np.argmin(ok))), "q2_based": cx(v2[int(np.argmin(ok))]),
                                                      "q_based": cx(v1[int(np.argmin(ok))]), "claim": "q^2-based variant equals the q-based one above threshold"})
                nth += v1.size
    # python-float scalars (m0, Gamma0, q0, d given as plain python numbers, the most natural call of a documented
    # function): a FIXED probe, independent of the seed, so that the verdict is deterministic
    probe = {"m0": 2.081631691152029, "g0": 0.5715627526358612, "m1": 0.3123456789, "m2": 0.4123456789, "d": 2.71828182845,
             "ma_0": 0.3123456789, "mb_0": 0.4123456789, "ma_1": 0.5, "mb_1": 0.6, "g_0": 0.3, "g_1": 0.2, "gamma_i": 1.0, "mpi": 0.3623456789,
             "theta0": 0.3, "a": 0.5, "b": 0.25, "m_max": 3.0, "m_min": 0.7246913578}
    pm = probe["m0"] + np.array([-0.9, -0.3, -0.05, 0.0, 0.04, 0.2, 0.7, 1.9])
    pe = ls.bind_env(ev, dict(probe, m=pm, x=pm), derived, above_only, True)
    pe_py = {k: (float(v) if np.ndim(v) == 0 else v) for k, v in pe.items()}
    for tkey, name, d3, below, paths in TARGETS:
        if not tkey.startswith("fn:") or name in ("GS_rho", "one", "reverse_bessel", "theta2"):
            continue
        ent = entries[name]
        for L in (list(range(ent["lmax"] + 1)) if ent["lmax"] else [0]):
            with np.errstate(all="ignore"):
                ref = np.broadcast_to(npc(ev(tree(name, L), pe)), pm.shape)
            if JUDGE_PYTHON_FLOAT_SCALARS:
                nth += compare(tkey, "python_float_scalars", L, None, paths, pe_py, ref)
    ctx.count(nth)
    ctx.log("theorems done")
    ctx.part("theorems_on_implementation", evaluations=nth)

    # ------------------------------------------------------------------
    # 8. sympy denominators: denominator * numeric line shape = 1
    # ------------------------------------------------------------------
    ndom = 0

    def flat(x):
        out = []
        for i in x:
            if isinstance(i, (list, tuple)):
                out += flat(i)
            else:
                out.append(i)
        return out

    def dom_particle(p, m, **kw):
        var = p.get_sympy_var()
        expr = p.get_sympy_dom(*var, **kw)
        fv = flat(var)
        vals = [float(np.asarray(x)) for x in flat(list(p.get_num_var()))]
        lam = sym.lambdify(fv, expr, "numpy")
        return npc(lam(npc(m), *vals)) * np.ones(np.shape(m))

    def dom_check(tkey, L, Lk, e, dom_f, num_f, ref_tree=None):
        nonlocal ndom
        try:
            with np.errstate(all="ignore"):
                dv = npc(dom_f())
        except Exception as ex:  # noqa: BLE001
            F.record(tkey, "sympy_dom:raise", Lk, False, lambda: {"L": L, "error": repr(ex)[:300], "inputs": describe(e)})
            return
        nv, err = evaluate(lambda e_, L_: num_f(), e, L)
        if nv is None:
            return
        prod = dv * nv
        ok = ls.close(prod, 1.0, REL, ABS)
        F.record(tkey, "sympy_dom", Lk, bool(np.all(ok)),
                 lambda: {"L": L, "inputs": describe(e, int(np.argmin(ok))), "denominator": cx(dv.ravel()[int(np.argmin(ok))]),
                          "numeric_line_shape": cx(nv.ravel()[int(np.argmin(ok))]), "product": cx(prod.ravel()[int(np.argmin(ok))]), "expected_product": 1.0},
                 float(np.max(ls.relerr(prod, 1.0))))
        if ref_tree is not None:
            with np.errstate(all="ignore"):
                rv = npc(ev(ref_tree, e))
            ok2 = ls.close(dv * rv, 1.0, REL, ABS)
            F.record(tkey, "sympy_dom_vs_documented", Lk, bool(np.all(ok2)),
                     lambda: {"L": L, "inputs": describe(e, int(np.argmin(ok2))), "denominator": cx(dv.ravel()[int(np.argmin(ok2))]),
                              "documented_line_shape": cx(rv.ravel()[int(np.argmin(ok2))])})
        ndom += dv.size

    ms, m0s, g0s, m1s, m2s, ds = sym.symbols("m m0 g0 m1 m2 d")
    nds = 2 if quick else 6
    ndm = 12 if quick else 60
    for L in range(9):
        for s in range(nds):
            b, thr = random_base(True)
            m = masses(thr, b["m1"], b["m2"], ndm, "above")
            e = ls.bind_env(ev, dict(b, m=m, x=m), derived, above_only, True)
            if L == 0:
                lam = sym.lambdify((ms, m0s, g0s), fm.BW_dom(ms, m0s, g0s), "numpy")
                dom_check("formula.BW_dom", 0, None, e, lambda: lam(npc(m), b["m0"], b["g0"]), lambda: bw.BW(e["m"], e["m0"], e["g0"]), tree("BW", 0))
                p = particle("BW", 0, e)[0]
                dom_check("particle:BW", 0, None, e, lambda: dom_particle(p, m), lambda: like(p(m), e), tree("BW", 0))
            lam2 = sym.lambdify((ms, m0s, g0s, m1s, m2s, ds), fm.BWR_dom(ms, m0s, g0s, L, m1s, m2s, ds), "numpy")
            eb = ls.bind_env(ev, dict(b, d=2.0, m=m, x=m), derived, above_only, True)
            dom_check("formula.BWR_dom", L, L, eb, lambda: lam2(npc(m), b["m0"], b["g0"], b["m1"], b["m2"], 2.0),
                      lambda: bw.BWR(eb["m"], eb["m0"], eb["g0"], eb["q"], eb["q0"], L, eb["d"]), tree("BWR", L))
            lam3 = sym.lambdify((ms, m0s, g0s, m1s, m2s, ds), fm.BWR_coupling_dom(ms, m0s, g0s, L, m1s, m2s, ds), "numpy")
            pc = particle("BWR_coupling", L, e)[0]
            dom_check("formula.BWR_coupling_dom", L, L, e, lambda: lam3(npc(m), b["m0"], b["g0"], b["m1"], b["m2"], D_PARTICLE), lambda: like(pc(m), e), tree("BWR_coupling", L))
            for model, ent in (("BWR", "BWR"), ("default", "BWR"), ("BWR2", "BWR2"), ("BWR_below", "BWR_below"), ("BWR_coupling", "BWR_coupling")):
                kw = {"parent": (b["m_max"] + 0.7, 0.7)} if model == "BWR_below" else {}
                p = particle(model, L, e, **kw)[0]
                dom_check("particle:" + model, L, L, e, lambda p=p: dom_particle(p, m), lambda p=p: like(p(m), e), tree(ent, L))
            # BWR_LS: denominator of get_ls_amp_frac (one and two (l,s)), default and fix_bug1
            for fix in (False, True):
                for two in (False, True):
                    if two and L > 6:
                        continue
                    p, dec, vm = particle("BWR_LS", L, e, two_ls=two, **({"fix_bug1": True} if fix else {}))
                    if two:
                        vm.set("R_theta0", b["theta0"])
                    lsl = [(L, 1), (L + 2, 1)] if two else [(L, 0)]
                    tk = "particle:BWR_LS%s%s" % ("[fix_bug1=True]" if fix else "", "(l,l+2)" if two else "")
                    dom_check(tk, L, L, e, lambda p=p: dom_particle(p, m),
                              lambda p=p, lsl=lsl: 1.0 / npc(p.get_ls_amp_frac(e["m"], lsl, e["q2"], e["q02"], D_PARTICLE)[0]))
        ctx.count(0, distinct_key=("dom", L))
    # Flatte: the sheet argument selects the sign of every channel momentum; all bits set = the documented +q_i
    for s in range(nds * 3):
        b, thr = random_base(True)
        m = np.concatenate([masses(thr, b["m1"], b["m2"], ndm, "above"), masses(thr, b["m1"], b["m2"], ndm, "below") if b["m1"] * b["m2"] > 0 else []])
        e = ls.bind_env(ev, dict(b, m=m, x=m), derived, above_only, True)
        for model in ("Flatte", "FlatteC"):
            ml = [[b["ma_0"], b["mb_0"]], [b["ma_1"], b["mb_1"]]]
            p = particle(model, 0, e, mass_list=ml, g_0=b["g_0"], g_1=b["g_1"])[0]
            dom_check("particle:" + model, 0, None, e, lambda p=p: dom_particle(p, m, sheet=3), lambda p=p: like(p(m), e), tree(model, 0))
    ctx.count(ndom)
    ctx.log("sympy done")
    ctx.part("sympy_denominators", products=ndom)

    # ------------------------------------------------------------------
    # 9. explicit option bw_l: the L of the documented formula is the CONFIGURED bw_l, also when the particle's own
    #    decay does not allow that l (minimal l of the decay != bw_l).  Every model that takes bw_l; each object is
    #    evaluated repeatedly (a replacement of the option would persist on the object), then its symbolic denominator.
    # ------------------------------------------------------------------
    nbl = 0
    for model, ent, has_dom in (("BWR", "BWR", True), ("default", "BWR", True), ("BWR2", "BWR2", True), ("BWR_below", "BWR_below", True),
                                ("BWR_coupling", "BWR_coupling", True), ("BWR_normal", "BWR_normal", False), ("GS_rho", "GS_rho", False)):
        for decL, bwl in ((1, 0), (2, 0), (0, 2), (1, 2)):
            b, _ = random_base(True)
            thr = 0.75
            b.update(m1=0.5, m2=0.25, ma_0=0.5, mb_0=0.25, mpi=0.375, m_min=thr, m0=thr + rng.uniform(0.15, 2.0))
            b["m_max"] = b["m0"] + 1.0
            m = masses(thr, 0.5, 0.25, nm, "above")
            e = ls.bind_env(ev, dict(b, m=m, x=m), derived, above_only, True)
            with np.errstate(all="ignore"):
                ref = np.broadcast_to(npc(ev(tree(ent, bwl), e)), m.shape)
            extra = {"bw_l": bwl}
            if model == "GS_rho":
                extra.update(c_daug2Mass=0.5, c_daug3Mass=0.25)
            tk = "particle:" + model
            try:
                pp, dec, _ = ls.build_particle(model, decL, fl(e["m0"]), fl(e["g0"]), 0.5, 0.25,
                                               parent=(fl(e["m_max"]) + 0.7, 0.7) if model == "BWR_below" else None, **extra)
                lmin = min(dec.get_l_list())
            except Exception as ex:  # noqa: BLE001
                F.record(tk, "explicit_bw_l:raise", bwl, False, lambda ex=ex: {"bw_l": bwl, "decay_min_l": decL, "error": repr(ex)[:300]})
                continue
            if lmin != decL or lmin == bwl:
                raise tlc.MachineryError("explicit bw_l probe: decay of J=%d has minimal l %d" % (decL, lmin))
            paths = [("__call__ (1st evaluation)", lambda e_, L_, pp=pp: like(pp(e_["m"]), e_)),
                     ("get_amp (2nd evaluation)", lambda e_, L_, pp=pp: like(pp.get_amp({"m": e_["m"]}, data_c(e_)), e_)),
                     ("__call__ (3rd evaluation)", lambda e_, L_, pp=pp: like(pp(e_["m"]), e_))]
            nbl += compare(tk, "explicit_bw_l", bwl, bwl, paths, e, ref)
            F.record(tk, "explicit_bw_l:option_replaced", bwl, pp.bw_l == bwl,
                     lambda pp=pp: {"configured_bw_l": bwl, "decay_min_l": decL, "bw_l_after_evaluation": pp.bw_l})
            if has_dom:
                try:
                    with np.errstate(all="ignore"):
                        dv = dom_particle(pp, m)
                    okd = ls.close(dv * ref, 1.0, REL, ABS)
                    F.record(tk, "explicit_bw_l:sympy_dom", bwl, bool(np.all(okd)),
                             lambda dv=dv, okd=okd, ref=ref: {"configured_bw_l": bwl, "decay_min_l": decL, "inputs": describe(e, int(np.argmin(okd))),
                                                              "denominator": cx(dv.ravel()[int(np.argmin(okd))]),
                                                              "documented_line_shape_with_L=bw_l": cx(ref.ravel()[int(np.argmin(okd))])})
                except Exception as ex:  # noqa: BLE001
                    F.record(tk, "explicit_bw_l:sympy_dom:raise", bwl, False, lambda ex=ex: {"bw_l": bwl, "error": repr(ex)[:300]})
                nbl += m.size
            ctx.count(0, distinct_key=("bw_l", model, decL, bwl))
    ctx.count(nbl)
    ctx.log("explicit bw_l done")
    ctx.part("explicit_bw_l", comparisons=nbl, models=7, combinations_decay_min_l_vs_bw_l=[[1, 0], [2, 0], [0, 2], [1, 2]])

    F.emit()
    worst = {"%s:%s" % k: v for k, v in sorted(F.worst.items()) if k not in F.fail}
    ctx.part("max_rel_err_passing", **{k: v for k, v in worst.items() if v > 1e-11})
    ctx.cov["traces_validated_against_impl"] = validated
    ctx.cov["rule"] = (
        "EXACT/EXHAUSTIVE: every (documented formula, L, lattice point) is one TLC state (%d cells on %d points with rational break-up momenta, "
        "L = 0..8); the rational sub-language is evaluated in exact limb arithmetic and the theorems of the property are invariants; "
        "the coefficient table |theta_L(i w)|^2, L = 0..8, is compared with Bprime_polynomial / get_bprime_coeff / reverse_bessel_polynomials as integers; "
        "every exactly evaluated cell is compared with every implementation claiming the formula (1e-8 rel + 1e-12 abs). "
        "SAMPLED (seeded): %d parameter sets x %d masses per (implementation, L) against the spec's trees through a generic evaluator, "
        "the property's theorems on the implementation, sympy denominators x numeric line shape = 1. "
        "distinct = (implementation, L, parameter set) and lattice cells"
        % (len(cells), T["npoints"], nset, nm))
    ctx.assume("oracle = the doc strings (transcribed in spec/LineShape.tla); q is the two-body break-up momentum "
               "sqrt((m^2-(m1+m2)^2)(m^2-(m1-m2)^2))/(2m) as written out in Flatte's doc string and formula.get_relative_p")
    ctx.assume("continuous arguments are sampled (seeded): masses up to 4 above threshold, m0 0.15..2 above threshold, Gamma0 0.02..0.6, "
               "daughter masses 0..1.2 (equal, unequal, one massless), d 0.5..5 for functions and 3 for particle models, L = 0..8")
    ctx.assume("below threshold (|m1-m2| < m < m1+m2, m0 above): BWR2, BWR_below, BWR_LS2, Gamma2, Bprime_q2 are judged FINITE only "
               "(the documentation does not fix the branch of q); Flatte, FlatteC, cal_monentum, get_relative_p2, Bprime_polynomial, BW are judged by value; "
               "q-based functions are not evaluated there; a nominal mass below threshold is not judged for any model")
    ctx.assume("not judged (no closed formula documented, or outside the property's list): MultiBWR beyond one s-wave component with coefficient 1, "
               "MultiBW, Kmatrix*, LASS, FlatteGen, Flatte2, barrier_factor2 ('???'), Bprime_num, the overall normalisation options width_norm / running_width=False; "
               "BWR_LS2's undefined gamma_i is taken as 1; GS_rho is judged with the particle's daughter masses equal to c_daug2Mass/c_daug3Mass and m_pi = their mean")
    ctx.assume("sympy denominators are judged where the model provides its own formula or shares the documented one: BW, BWR/default, BWR2, BWR_below, "
               "BWR_coupling, BWR_LS, Flatte/FlatteC with sheet = all channels on the +q_i branch (the doc strings do not define `sheet`; "
               "default sheet=0 flips every q_i). BWR_normal, GS_rho, one, exp, exp_com, x inherit Particle.get_sympy_dom (a plain BWR denominator): not 'provided', not judged")
    ctx.assume("explicit bw_l is judged for the models whose get_amp reads it (BWR/default, BWR2, BWR_below, BWR_coupling, BWR_normal, GS_rho) "
               "with bw_l in {0, 2} on decays whose minimal l is 1, 2, 0, 1; bw_l is an option of Particle.__init__ without a doc string of its own: "
               "reading = the L of the documented Gamma(m) / barrier factor is the configured value")
    ctx.assume("np.Inf shim of harness/prelude.py")


def replay(ctx, path):
    run(ctx)
