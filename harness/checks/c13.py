"""C13 -- (l,s) selection is sound, complete and non-redundant.

Spec: spec/LSCoupling.tla.  TLC checks |Allowed| = NHel (and the fermion-number,
parity-partition and C-partition lemmas) on every configuration and prints the
complete table; the harness compares GetA2BC_LS_list / Decay.get_ls_list /
HelicityDecay.get_ls_list (with l_list, ls_list) entry by entry, and checks
that the coupling -> helicity-amplitude map has rank |Allowed| (= NHel by the
TLC theorem).
"""
import itertools
import os
import random
from fractions import Fraction

import numpy as np

from .. import tlc

LEVEL = "model_checking"


def _cfg(ctx, maxj2):
    p = os.path.join(ctx.work, "ls_%d.cfg" % maxj2)
    with open(p, "w") as f:
        f.write(
            "CONSTANTS MaxJ2 = %d\nINIT Init\nNEXT Next\nINVARIANT CountMatches\nINVARIANT FermionNumber\n"
            "INVARIANT ParityPartition\nINVARIANT CPartition\nPOSTCONDITION Post\nCHECK_DEADLOCK FALSE\n" % maxj2
        )
    return p


def spin(j2):
    return j2 // 2 if j2 % 2 == 0 else j2 / 2


def run(ctx):
    from tf_pwa.particle import BaseParticle, Decay, GetA2BC_LS_list

    quick = ctx.tier == "quick"
    maxj2 = 4 if quick else 8
    rank_max = 3 if quick else 5
    r = tlc.run("LSCoupling", _cfg(ctx, maxj2), work=ctx.work, workers=16, timeout=1800)
    if r.violation:
        raise tlc.MachineryError("LSCoupling spec violates its own theorem %s" % r.violation)
    ctx.tlc(r, "LSCoupling MaxJ2=%d" % maxj2)
    table = r.out["table"]
    if len(table) != r.distinct:
        raise tlc.MachineryError("table size %d != states %d" % (len(table), r.distinct))
    ctx.cov["exhaustive"] = True
    rng = random.Random(ctx.seed)
    n_nonempty = 0
    n_rank = 0
    n_restrict = 0
    for (ja2, jb2, jc2, pa, pb, pc, pbreak, ca), allowed, nhel in table:
        exp = set((l, spin(s2)) for l, s2 in allowed)
        key = "ls:ja2=%d,jb2=%d,jc2=%d,pa=%d,pb=%d,pc=%d,pbreak=%d,ca=%d" % (ja2, jb2, jc2, pa, pb, pc, pbreak, ca)
        ja, jb, jc = spin(ja2), spin(jb2), spin(jc2)
        try:
            got = GetA2BC_LS_list(ja, jb, jc, pa, pb, pc, p_break=bool(pbreak), ca=(None if ca == 0 else ca))
        except Exception as e:
            ctx.violation(key + ":raise", {"error": repr(e)})
            continue
        gotn = [(int(l), (int(s) if float(s).is_integer() else float(s))) for l, s in got]
        ctx.count(1, distinct_key=key, nontrivial=bool(exp))
        n_nonempty += bool(exp)
        if len(set(gotn)) != len(gotn):
            ctx.violation(key + ":duplicate", {"got": gotn})
        if set(gotn) != exp:
            ctx.violation(key, {"got": sorted(gotn), "expected": sorted(exp)})
            continue
        # through the Decay objects (same rule via particle attributes, c_break flag)
        A = BaseParticle("A", J=ja, P=pa, C=(None if ca == 0 else ca))
        B = BaseParticle("B", J=jb, P=pb)
        C = BaseParticle("C", J=jc, P=pc)
        d = Decay(A, [B, C], p_break=bool(pbreak), c_break=(ca == 0), disable=True)
        got2 = set((int(l), (int(s) if float(s).is_integer() else float(s))) for l, s in d.get_ls_list())
        if got2 != exp or len(d.get_ls_list()) != len(exp):
            ctx.violation(key + ":Decay", {"got": sorted(got2), "expected": sorted(exp)})
        if ca == 0 and len(exp) != nhel:
            raise tlc.MachineryError("TLC table inconsistent with its own theorem at %s" % key)
    ctx.part("ls_tables", configurations=len(table), nonempty=n_nonempty)
    ctx.sample({"config": table[len(table) // 2][0], "allowed(l,2s)": table[len(table) // 2][1], "nhel": table[len(table) // 2][2]})

    # ---- HelicityDecay: l_list / ls_list restrictions, rank of the CG matrix ----
    from tf_pwa.amp import HelicityDecay, Particle

    for (ja2, jb2, jc2, pa, pb, pc, pbreak, ca), allowed, nhel in table:
        if ca != 0 or not allowed:
            continue
        if max(ja2, jb2, jc2) > rank_max:
            continue
        if pa == -1 and (pb, pc) != (1, 1) and not pbreak and max(ja2, jb2, jc2) > 2 and quick:
            continue  # thin the quick tier
        key = "hel:ja2=%d,jb2=%d,jc2=%d,pa=%d,pb=%d,pc=%d,pbreak=%d" % (ja2, jb2, jc2, pa, pb, pc, pbreak)
        exp = sorted((l, spin(s2)) for l, s2 in allowed)
        ja, jb, jc = spin(ja2), spin(jb2), spin(jc2)

        def mk(**kw):
            A = Particle("A", J=ja, P=pa)
            B = Particle("B", J=jb, P=pb)
            C = Particle("C", J=jc, P=pc)
            return HelicityDecay(A, [B, C], p_break=bool(pbreak), disable=True, **kw)

        d = mk()
        ls = [(int(l), (int(s) if float(s).is_integer() else float(s))) for l, s in d.get_ls_list()]
        if sorted(ls) != exp:
            ctx.violation(key + ":HelicityDecay", {"got": sorted(ls), "expected": exp})
            continue
        m = np.asarray(d.get_cg_matrix(), dtype=float)
        mat = m.reshape(m.shape[0], -1)
        sv = np.linalg.svd(mat, compute_uv=False)
        rank = int(np.sum(sv > 1e-9 * max(sv.max(), 1e-300))) if sv.size else 0
        n_rank += 1
        ctx.count(1, distinct_key=key)
        if rank != len(exp) or rank != nhel:
            ctx.violation(key + ":rank", {"rank": rank, "n_ls": len(exp), "n_hel": nhel, "singular": sv.tolist()})
        # number of linearly independent helicity amplitudes = rank of the column space as well
        # restrictions
        ls_l = sorted(set(l for l, _ in exp))
        for sub in ([ls_l[0]], ls_l[-1:], ls_l[::2]):
            d2 = mk(l_list=list(sub))
            got = sorted((int(l), (int(s) if float(s).is_integer() else float(s))) for l, s in d2.get_ls_list())
            want = [x for x in exp if x[0] in sub]
            n_restrict += 1
            if got != want:
                ctx.violation(key + ":l_list=%s" % sub, {"got": got, "expected": want})
            # the restriction holds for every later use of the same object: repeated call, l list,
            # number of coupling rows of the CG matrix (= number of fit parameters created)
            again = sorted((int(l), (int(s) if float(s).is_integer() else float(s))) for l, s in d2.get_ls_list())
            rows = np.asarray(d2.get_cg_matrix(), dtype=float).shape[0]
            ls_of = sorted(int(l) for l in d2.get_l_list())
            if again != want or rows != len(want) or ls_of != sorted(l for l, _ in want):
                ctx.violation(key + ":l_list=%s:later_use" % sub, {"second_call": again, "cg_rows": rows, "l_list": ls_of, "expected": want})
        sub = exp[:: max(1, len(exp) // 2)]
        d3 = mk(ls_list=[list(x) for x in sub])
        got = sorted((int(l), (int(s) if float(s).is_integer() else float(s))) for l, s in d3.get_ls_list())
        n_restrict += 1
        if got != sorted(sub):
            ctx.violation(key + ":ls_list", {"got": got, "expected": sorted(sub)})
        again = sorted((int(l), (int(s) if float(s).is_integer() else float(s))) for l, s in d3.get_ls_list())
        if again != sorted(sub) or np.asarray(d3.get_cg_matrix(), dtype=float).shape[0] != len(sub):
            ctx.violation(key + ":ls_list:later_use", {"second_call": again, "expected": sorted(sub)})
    ctx.part("rank", decays=n_rank, restrictions=n_restrict, rank_max_2j=rank_max)
    _cut_part(ctx, table, quick, rng)
    ctx.cov["traces_validated_against_impl"] = len(table)
    ctx.cov["rule"] = (
        "every (2ja,2jb,2jc,pa,pb,pc,p_break,ca) with 2j<=%d is one TLC state (invariants CountMatches, FermionNumber, "
        "ParityPartition, CPartition); GetA2BC_LS_list and Decay.get_ls_list compared with Allowed for every state; "
        "HelicityDecay CG-matrix rank (SVD, rel. 1e-9) and l_list/ls_list restrictions for 2j<=%d. "
        "non-trivial = configuration with non-empty Allowed" % (maxj2, rank_max)
    )
    ctx.assume("C-parity constraint only offered where s is an integer (2jb+2jc even)")
    ctx.assume("rank is a floating-point SVD rank with relative threshold 1e-9")
    ctx.assume("NHel formula is the specification's reading of the helicity-amplitude counting; TLC proves it equal to |Allowed| on the whole domain")


def _cut_part(ctx, table, quick, rng):
    """chains that contain a decay without any allowed (l,s) are removed by the configuration loader -- also when the
    decay object is shared by several chains (4-body cascades) -- and every other chain is kept; the oracle for
    'has an allowed (l,s)' is the TLC table"""
    import contextlib
    import io

    from tf_pwa.config_loader.decay_config import DecayConfig

    nonempty = {tuple(k): bool(a) for k, a, _ in table}

    def ok(core, b, c):
        return nonempty[(2 * core[0], 2 * b[0], 2 * c[0], core[1], b[1], c[1], 0, 0)]

    pool = [(0, -1), (0, 1), (1, -1), (1, 1), (2, 1), (2, -1)]
    fin = (0, -1)
    combos = [(a, x, y, r1, r2) for a in [(0, -1), (1, -1), (1, 1)] for x in pool for y in pool for r1 in pool[:4] for r2 in pool[:4] if x != y and r1 != r2]
    rng.shuffle(combos)
    n_done = n_cut = 0
    want_n = 14 if quick else 120
    for a, x, y, r1, r2 in combos:
        if n_done >= want_n:
            break
        decs = {"AXd": ok(a, x, fin), "AYd": ok(a, y, fin), "XR1c": ok(x, r1, fin), "XR2c": ok(x, r2, fin), "YR1c": ok(y, r1, fin),
                "R1ab": ok(r1, fin, fin), "R2ab": ok(r2, fin, fin)}
        expect = set()
        if decs["AXd"] and decs["XR1c"] and decs["R1ab"]:
            expect.add(("X", "R1"))
        if decs["AXd"] and decs["XR2c"] and decs["R2ab"]:
            expect.add(("X", "R2"))
        if decs["AYd"] and decs["YR1c"] and decs["R1ab"]:
            expect.add(("Y", "R1"))
        if not expect or len(expect) == 3:
            continue  # nothing survives (the loader has nothing to build) / nothing to cut
        if quick and all(decs[k] for k in ("AXd", "AYd")) and n_cut * 2 < n_done:
            pass
        mk = lambda jp, **kw: dict({"J": jp[0], "P": jp[1]}, **kw)
        config = {
            "decay": {"A": [["X", "d"], ["Y", "d"]], "X": [["R1", "c"], ["R2", "c"]], "Y": [["R1", "c"]], "R1": ["a", "b"], "R2": ["a", "b"]},
            "particle": {
                "$top": {"A": mk(a, mass=5.0)},
                "$finals": {n: mk(fin, mass=0.1) for n in "abcd"},
                "X": mk(x, mass=3.0, width=0.1), "Y": mk(y, mass=3.1, width=0.1), "R1": mk(r1, mass=1.0, width=0.1), "R2": mk(r2, mass=1.1, width=0.1),
            },
        }
        key = "decay_cut:A=%s:X=%s:Y=%s:R1=%s:R2=%s" % (a, x, y, r1, r2)
        key = key.replace(" ", "")
        try:
            with contextlib.redirect_stdout(io.StringIO()):
                chains = list(DecayConfig(config).get_decay(full=True))
        except Exception as e:
            ctx.violation(key + ":raise", {"error": repr(e)[:300], "expected_chains": sorted(expect)})
            n_done += 1
            continue
        got = set()
        empty = []
        for ch in chains:
            names = sorted(str(p) for p in ch.inner)
            got.add(tuple(names))
            for d in ch:
                if len(d.get_ls_list()) == 0:
                    empty.append(str(d))
        n_done += 1
        n_cut += 1 if len(expect) < 3 else 0
        ctx.count(1, distinct_key=key)
        if got != set(tuple(sorted(e)) for e in expect) or empty:
            ctx.violation(key, {"chains_kept": sorted(got), "expected": sorted(expect), "decays_without_ls_kept": empty, "allowed_by_table": decs})
    ctx.part("decay_cut", cards=n_done)
    if n_done == 0:
        raise tlc.MachineryError("no decay-cut card generated")


def replay(ctx, path):
    run(ctx)
