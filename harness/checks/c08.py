"""C08 -- a returned fit result and the model state describe the same point.

Spec: spec/FitSession.tla (adversarial minimiser, per-method epilogues
transcribed from tf_pwa/fit.py, early exit, repeated fits, save -> load).
TLC checks ResultEqualsModel, MinIsNllOfResult, InsideBounds,
EveryMethodReturns, SaveLoadIdentity over all sessions of up to two fits.
Binding B1: every (previous method, method, stop kind) reachable in the model
is realised as real ConfigLoader.fit calls on a small three-chain model with a
constraint set (fixed, tied, two-/one-sided bounds, Gaussian constraint); after
every return the observers of C08 are evaluated on the real objects, and the
result / the parameters are written to a file and loaded into a freshly built
model.
"""
import json
import os
import random
import time

import numpy as np

from .. import models, tlc

LEVEL = "model_checking"

# constants of the specification that mirror tf_pwa/fit.py (TRUE = repaired behaviour)
CODE = {"LbfgsAssigns": True, "MinuitSyncs": True, "MinuitBounded": True}
INVS = ["ResultEqualsModel", "MinIsNllOfResult", "InsideBounds", "EveryMethodReturns", "SaveLoadIdentity"]

R1 = "A->R_BD.CR_BD->B.D_total_0r"
I1 = "A->R_BD.CR_BD->B.D_total_0i"
R2 = "A->R_CD.BR_CD->C.D_total_0r"
I2 = "A->R_CD.BR_CD->C.D_total_0i"

CONSTRAINT_SETS = {
    "plain": {},
    "fixed+tied": {"fix_var": {R2: 0.8}, "var_equal": [[I1, I2]]},
    "two-sided": {"var_range": {R1: [0.2, 1.5]}},
    "one-sided+gauss": {"var_range": {R1: [0.1, None], R2: [None, 2.5]}, "gauss_constr": {I1: [0.3, 0.5]}},
    "all": {"fix_var": {I2: -0.4}, "var_range": {R1: [0.2, 1.5], R2: [0.1, None]}, "gauss_constr": {I1: [0.3, 0.5]}},
    # a bound end at exactly zero, with a Gaussian constraint pulling the parameter beyond it
    "zero-bound": {"var_range": {I1: [0, 3], R1: [0, None]}, "gauss_constr": {I1: [-1.0, 0.2]}},
    # Hessian-based minimisers always run to convergence (fit_newton_cg has no iteration limit): few free parameters
    "small": {"fix_var": {I2: -0.4, R2: 0.8}, "var_range": {R1: [0.2, 1.5]}, "gauss_constr": {I1: [0.3, 0.5]}},
    "small-plain": {"fix_var": {I2: -0.4, R2: 0.8, I1: 0.2}},
    # resonance parameters floated by the particle card: mass only / width only (bounded by m_min, m_max)
    "float-mass": {"fix_var": {I2: -0.4, R2: 0.8}, "_particle": {"R_BD": {"float": ["m"], "m_min": 2.3, "m_max": 2.6}}},
    "float-width": {"fix_var": {I2: -0.4, R2: 0.8}, "_particle": {"R_BD": {"float": ["g"], "g_min": 0.05, "g_max": 0.6}}},
}
NEWTON = ("Newton-CG", "trust-krylov", "trust-ncg", "trust-exact", "Newton-CG-p", "trust-krylov-p", "trust-ncg-p", "iminuit")


def cfg_text(has_bounds, max_eval=3, max_fits=2, invs=INVS, code=None):
    code = code or CODE
    b = lambda x: "TRUE" if x else "FALSE"
    return (
        "CONSTANTS MaxEval = %d\n MaxFits = %d\n HasBounds = %s\n LbfgsAssigns = %s\n MinuitSyncs = %s\n MinuitBounded = %s\n"
        "INIT Init\nNEXT Next\nCHECK_DEADLOCK FALSE\n" % (max_eval, max_fits, b(has_bounds), b(code["LbfgsAssigns"]), b(code["MinuitSyncs"]), b(code["MinuitBounded"]))
        + "".join("INVARIANT %s\n" % i for i in invs)
    )


def build(cset, seed, n_data, n_phsp):
    cs = dict(CONSTRAINT_SETS[cset])
    pextra = cs.pop("_particle", None)
    d = models.toy_dict(extra={"constrains": dict({"particle": None, "decay": None}, **cs)})
    if pextra:
        for k, v in pextra.items():
            d["particle"][k].update(v)
    config = models.make_config(d)
    amp = config.get_amplitude()
    rng = np.random.RandomState(seed)
    start = {}
    ranges = dict(cs.get("var_range") or {})
    for n in amp.vm.trainable_vars:
        if n.endswith("_mass") or n.endswith("_width"):
            continue  # resonance parameters start at their configured values
        if n.endswith("r"):
            start[n] = float(rng.uniform(0.5, 1.2))
        else:
            start[n] = float(rng.uniform(-1.0, 1.0))
        if n in ranges:  # a fit starts inside the declared range
            lo, hi = ranges[n]
            lo = -1e9 if lo is None else lo
            hi = 1e9 if hi is None else hi
            if not (lo < start[n] < hi):
                start[n] = float(min(max(start[n], lo), hi)) * 0.5 + 0.5 * (0.5 * (max(lo, start[n] - 1) + min(hi, start[n] + 1)))
            if not (lo < start[n] < hi):
                start[n] = 0.5 * (max(lo, -2.0) + min(hi, 2.0))
    amp.set_params(start)
    return d, config, amp


def nll_at(fcn, params):
    return float(fcn(params))


def run_fit(config, data, phsp, meth, stop, grad_scale=None):
    from tf_pwa.fit import LargeNumberError

    kw = {}
    if grad_scale is not None:
        kw["grad_scale"] = grad_scale
    if stop == "maxiter":
        kw["maxiter"] = 2
    elif stop == "large":
        cnt = {"n": 0}

        def cb(x, fcn):
            cnt["n"] += 1
            if cnt["n"] >= 2:
                raise LargeNumberError("injected by the harness at iteration 2")

        kw["callback"] = cb
        kw["maxiter"] = 10
    else:
        kw["maxiter"] = 60
    import contextlib
    import io

    buf = io.StringIO()
    with contextlib.redirect_stdout(buf):
        res = config.fit(data=[data], phsp=[phsp], method=meth, print_init_nll=False, **kw)
    return res


def observe(ctx, key, config, amp, fcn, res, before, nll_start, cset, dct, data, phsp, work, tag, above_start=True, ranges_now=None):
    """the clauses of C08 on the real objects; returns number of problems reported"""
    probs = []
    now = {k: float(v) for k, v in config.get_params().items()}
    listed = {k: float(v) for k, v in res.params.items()}
    # (a) the model holds exactly the values listed in the result
    bad = [k for k in listed if k not in now or abs(listed[k] - now[k]) > 1e-12 * max(1.0, abs(now[k]))]
    if bad:
        probs.append(("result_vs_model", {"names": bad[:4], "result": [listed[k] for k in bad[:4]], "model": [now.get(k) for k in bad[:4]]}))
    # (f) bounded parameters inside their bounds (checked before any further evaluation moves the model)
    ranges = dict(CONSTRAINT_SETS[cset].get("var_range") or {})
    for pn, pv in (CONSTRAINT_SETS[cset].get("_particle") or {}).items():
        if "m" in pv.get("float", []):
            ranges[pn + "_mass"] = [pv.get("m_min"), pv.get("m_max")]
        if "g" in pv.get("float", []):
            ranges[pn + "_width"] = [pv.get("g_min"), pv.get("g_max")]
    if ranges_now:
        ranges.update(ranges_now)  # the range declared at the time of this fit
    for n, (lo, hi) in ranges.items():
        v = now[n]
        if (lo is not None and v < lo - 1e-9) or (hi is not None and v > hi + 1e-9):
            probs.append(("outside_bounds", {"name": n, "value": v, "bounds": [lo, hi]}))
    # (d) fixed unchanged
    free = set(amp.vm.trainable_vars)
    tied = [set(g) for g in amp.vm.same_list]
    for n, v in before.items():
        cls = next((g for g in tied if n in g), {n})
        if not (cls & free) and abs(now[n] - v) > 1e-12 * max(1.0, abs(v)):
            probs.append(("fixed_changed", {"name": n, "before": v, "after": now[n]}))
    # (e) tied equal
    for g in tied:
        vals = [now[n] for n in g if n in now]
        if vals and max(vals) - min(vals) > 1e-12:
            probs.append(("tied_differ", {"group": sorted(g), "values": vals}))
    # (b) reported minimum = NLL at the listed values; (c) not above the start
    full = dict(now)
    full.update(listed)
    nll_res = nll_at(fcn, full)
    if abs(nll_res - res.min_nll) > 1e-8 * max(1.0, abs(nll_res)):
        probs.append(("min_nll_vs_params", {"min_nll": res.min_nll, "nll_at_result": nll_res}))
    if above_start and res.min_nll > nll_start + 1e-8 * max(1.0, abs(nll_start)):
        probs.append(("above_start", {"min_nll": res.min_nll, "start": nll_start}))
    # (g) file -> freshly built model
    for route in ("save_as", "save_params"):
        fn = os.path.join(work, "fit_%s_%s.json" % (tag, route))
        amp.set_params(full)
        if route == "save_as":
            res.save_as(fn)
        else:
            config.save_params(fn)
        fresh = models.make_config(json.loads(json.dumps(dct)))
        ok = fresh.set_params(fn)
        got = {k: float(v) for k, v in fresh.get_params().items()}
        ref = {k: float(v) for k, v in config.get_params().items()}
        bad = [k for k in ref if k not in got or abs(got[k] - ref[k]) > 1e-12 * max(1.0, abs(ref[k]))]
        if not ok or bad:
            probs.append(("save_load:%s" % route, {"names": bad[:4], "loaded": [got.get(k) for k in bad[:4]], "model": [ref[k] for k in bad[:4]]}))
        else:
            f2 = fresh.get_fcn([[data], [phsp], None, None])
            n2 = nll_at(f2, {})
            if abs(n2 - nll_res) > 1e-9 * max(1.0, abs(nll_res)):
                probs.append(("save_load_nll:%s" % route, {"fresh": n2, "model": nll_res}))
    amp.set_params(full)
    for kind, detail in probs:
        ctx.violation("%s:%s" % (key, kind), detail)
    return len(probs)


SCIPY_METHODS = ("BFGS", "CG", "Nelder-Mead", "L-BFGS-B", "Newton-CG", "trust-krylov", "trust-ncg", "trust-exact", "Newton-CG-p", "trust-krylov-p", "trust-ncg-p")


class Adversary:
    """The minimiser of FitSession.tla on the real epilogues: stands in for scipy.optimize.minimize inside tf_pwa.fit.
    It evaluates the objective at the start (point 0) and at `n_eval` further points (Eval; each evaluation moves the
    model parameters), calls the callback after each, and reports point `b` (Finish(b)) -- in general not the last one."""

    def __init__(self, n_eval, b, converged, rng):
        self.n_eval, self.b, self.converged, self.rng = n_eval, b, converged, rng
        self.calls = 0

    def __call__(self, fun, x0, args=(), method=None, jac=None, hess=None, hessp=None, bounds=None, callback=None, options=None, **kw):
        from scipy.optimize import OptimizeResult

        self.calls += 1
        x0 = np.array(x0, dtype=float)
        pts = [x0.copy()]
        for k in range(1, self.n_eval + 1):
            step = np.array([self.rng.uniform(-1.0, 1.0) for _ in x0]) * 0.08
            x = x0 + step
            if bounds is not None:  # native bounds (L-BFGS-B): a bounded minimiser stays inside
                for i, (lo, hi) in enumerate(bounds):
                    if lo is not None and x[i] <= lo:
                        x[i] = lo + 0.25 * (x0[i] - lo)
                    if hi is not None and x[i] >= hi:
                        x[i] = hi - 0.25 * (hi - x0[i])
            pts.append(x)
        vals = []
        for k, x in enumerate(pts):
            v = fun(x.copy())
            f, g = (float(v[0]), np.array(v[1], dtype=float)) if isinstance(v, tuple) else (float(v), np.zeros_like(x))
            vals.append((f, g))
            if callback is not None and k >= 1:
                callback(x.copy())
        f, g = vals[self.b]
        out = OptimizeResult(x=pts[self.b].copy(), fun=f, jac=g, success=bool(self.converged), status=0 if self.converged else 1,
                             message="adversarial minimiser of FitSession.tla", nit=self.n_eval, nfev=len(pts), njev=len(pts))
        if method == "BFGS":
            out["hess_inv"] = np.eye(len(x0))
        return out


def adversary_part(ctx, rng, cases, quick):
    """Finish(b) of FitSession.tla for every scipy-based method name on the real epilogue code: the adversary replaces
    scipy.optimize.minimize, everything else (bound installation, transformed coordinates, set_trans_var, remove_bound,
    standard_complex, FitResult, except_result, save / load into a fresh model) is the library's."""
    import tf_pwa.fit as tfit

    n_data, n_phsp = 40, 160
    p_data = models.phsp_p4(n_data, ctx.seed % 1000 + 31)
    p_phsp = models.phsp_p4(n_phsp, ctx.seed % 1000 + 32)
    cases = sorted(cases)
    if quick:
        # stratified: for every (method, bounds declared) one case whose reported point is not the last evaluated one,
        # plus a seeded sample of the rest
        must, rest = [], []
        seen = set()
        for c in cases:
            meth, stop, evals, b, hb = c
            k = (meth, hb)
            if k not in seen and stop != "large" and evals >= 2 and 0 < b < evals:
                seen.add(k)
                must.append(c)
            else:
                rest.append(c)
        cases = must + rng.sample(rest, min(len(rest), 10))
    csets = {True: ["two-sided", "all", "float-mass"], False: ["plain", "fixed+tied", "small-plain"]}
    built = {}
    n = 0
    real_minimize = tfit.minimize
    try:
        for meth, stop, evals, b, hb in cases:
            cset = csets[hb][n % len(csets[hb])] if not quick else csets[hb][(n // 2) % len(csets[hb])]
            if cset not in built:
                dct, config, amp = build(cset, ctx.seed % 1000 + 40 + len(built), n_data, n_phsp)
                data = config.data.cal_angle(p_data)
                phsp = config.data.cal_angle(p_phsp)
                built[cset] = (dct, config, amp, data, phsp, {k: float(v) for k, v in config.get_params().items()})
            dct, config, amp, data, phsp, start = built[cset]
            amp.vm.remove_bound()
            amp.set_params(start)
            fcn = config.get_fcn([[data], [phsp], None, None])
            key = "adversary:%s:%s:evals=%d:reports=%d:%s" % (meth, stop, evals, b, cset)
            before = dict(start)
            nll_start = nll_at(fcn, {})
            adv = Adversary(evals, b, stop == "converged", random.Random(ctx.seed * 1000 + n))
            tfit.minimize = adv
            # the objective handed to the minimiser may be scaled (ConfigLoader.fit(grad_scale=...)): every other case
            gs = 2.5 if n % 2 else None
            if gs:
                key += ":grad_scale=2.5"
            try:
                res = run_fit(config, data, phsp, meth, stop, grad_scale=gs)
            except Exception as e:
                tfit.minimize = real_minimize
                ctx.violation(key + ":raises", {"error": repr(e)[:300]})
                n += 1
                continue
            finally:
                tfit.minimize = real_minimize
            if adv.calls != 1:
                raise tlc.MachineryError("the adversary was called %d times in %s (fit.py no longer calls scipy.optimize.minimize once)" % (adv.calls, key))
            observe(ctx, key, config, amp, fcn, res, before, nll_start, cset, dct, data, phsp, ctx.work, "a%d" % n, above_start=False)
            ctx.count(1, distinct_key=key)
            n += 1
    finally:
        tfit.minimize = real_minimize
    ctx.part("adversarial_minimiser", cases=n, methods=len(set(c[0] for c in cases)))
    return n


def rebound_part(ctx, quick):
    """a second fit after the declared range of a parameter was changed: bounds left installed by the previous fit (the
    Newton-type epilogues of FitSession.tla keep `installed`) must not survive the new declaration"""
    n_data, n_phsp = 60, 240
    p_data = models.phsp_p4(n_data, ctx.seed % 1000 + 61)
    p_phsp = models.phsp_p4(n_phsp, ctx.seed % 1000 + 62)
    n = 0
    for prev in (("Newton-CG-p",) if quick else ("Newton-CG-p", "trust-ncg", "BFGS")):
        dct, config, amp = build("small", ctx.seed % 1000 + 70 + n, n_data, n_phsp)
        data = config.data.cal_angle(p_data)
        phsp = config.data.cal_angle(p_phsp)
        fcn = config.get_fcn([[data], [phsp], None, None])
        key = "refit_after_range_change:%s>BFGS" % prev
        try:
            run_fit(config, data, phsp, prev, "converged" if prev != "BFGS" else "maxiter")
            cur = float(config.get_params()[R1])
            lo2, hi2 = (cur + 0.1, 1.5) if cur + 0.15 < 1.5 else (0.2, cur - 0.1)
            config.bound_dic[R1] = (lo2, hi2)
            before = {k: float(v) for k, v in config.get_params().items()}
            nll_start = nll_at(fcn, {})
            res = run_fit(config, data, phsp, "BFGS", "maxiter")
        except Exception as e:  # noqa: BLE001
            ctx.violation(key + ":raises", {"error": repr(e)[:300]})
            n += 1
            continue
        observe(ctx, key, config, amp, fcn, res, before, nll_start, "small", dct, data, phsp, ctx.work, "rb%d" % n, above_start=False, ranges_now={R1: [lo2, hi2]})
        ctx.count(1, distinct_key=key)
        n += 1
    ctx.part("refit_after_range_change", scenarios=n)
    return n


def run(ctx):
    quick = ctx.tier == "quick"
    rng = random.Random(ctx.seed)
    # ---------------- the model ----------------------------------------------
    reach = set()
    adv_cases = set()
    for hb in (False, True):
        p = os.path.join(ctx.work, "fit_%s.cfg" % hb)
        with open(p, "w") as f:
            f.write(cfg_text(hb, 3, 2))
        dump = os.path.join(ctx.work, "fit_states_%s" % hb)
        r = tlc.run("FitSession", p, work=ctx.work, workers=8, timeout=900, expect_violation=True, dump_states=dump)
        ctx.tlc(r, "FitSession HasBounds=%s" % hb, vacuity_actions=None if r.violation else ["StartFit", "Eval", "Finish", "LargeStop", "Save", "Load"])
        if r.violation:
            # the model (mirroring the code) violates C08: realised below on the real code through the scenario list
            ctx.log("FitSession violates %s: %s" % (r.violation, [(a, g) for a, g, _ in r.trace]))
            raise tlc.MachineryError("FitSession (repaired-code constants) violates %s: the constants no longer mirror a correct epilogue" % r.violation)
        for st in tlc.parse_dump(dump):
            if st["pc"] == "returned":
                reach.add((st["prev"], st["meth"], st["stop"], hb))
                if st["prev"] == "none" and st["meth"] in SCIPY_METHODS and st["nfit"] == 1 and st["saved"]["at"] == -1:
                    adv_cases.add((st["meth"], st["stop"], int(st["evals"]), int(st["res"]["paramsAt"]), hb))
    ctx.cov["exhaustive"] = True
    ctx.part("model", reachable_returns=len(reach))

    # ---------------- real fits ------------------------------------------------
    n_data, n_phsp = (60, 240) if quick else (150, 600)
    p_data = models.phsp_p4(n_data, ctx.seed % 1000 + 21)
    p_phsp = models.phsp_p4(n_phsp, ctx.seed % 1000 + 22)
    if quick:
        singles = ["BFGS", "CG", "L-BFGS-B", "Newton-CG-p"]
        pairs = [("Newton-CG-p", "BFGS"), ("BFGS", "L-BFGS-B")]
        stops = {"BFGS": ["converged", "maxiter", "large"], "CG": ["maxiter"], "L-BFGS-B": ["maxiter"], "Newton-CG-p": ["converged"], "trust-ncg-p": ["converged"]}
        skip = {("BFGS", "maxiter", "zero-bound"), ("BFGS", "large", "zero-bound"), ("BFGS", "large", "float-mass"), ("BFGS", "converged", "float-mass"), ("BFGS", "large", "fixed+tied")}
        csets = {"BFGS": ["all", "fixed+tied", "zero-bound", "float-mass"], "CG": ["two-sided", "float-width"], "L-BFGS-B": ["all"], "Newton-CG-p": ["small"]}
    else:
        singles = ["BFGS", "CG", "Nelder-Mead", "L-BFGS-B", "Newton-CG", "trust-krylov", "trust-ncg", "trust-exact", "Newton-CG-p", "trust-krylov-p", "trust-ncg-p", "iminuit"]
        pairs = [("trust-ncg-p", "BFGS"), ("BFGS", "L-BFGS-B"), ("Newton-CG-p", "iminuit"), ("L-BFGS-B", "CG"), ("trust-ncg-p", "trust-ncg-p"), ("BFGS", "BFGS")]
        stops = {m: ["converged", "maxiter"] for m in singles}
        for m in ("BFGS", "CG", "Nelder-Mead"):
            stops[m] = ["converged", "maxiter", "large"]
        csets = {m: list(CONSTRAINT_SETS) for m in singles}
        for m in NEWTON:
            csets[m] = ["small", "small-plain"]
            stops[m] = ["converged"]
        csets["Nelder-Mead"] = ["small", "plain"]
    scenarios = []
    for m in singles:
        for s in stops[m]:
            for cs in csets[m]:
                if quick and (m, s, cs) in skip:
                    continue
                scenarios.append((("none", m, s), cs))
    for a, b in pairs:
        scenarios.append(((a, b, "converged" if b in NEWTON else "maxiter"), "small"))
    only = os.environ.get("VERIF_C08_ONLY")
    if only:
        scenarios = [sc for sc in scenarios if only in sc[0]]
    nrun = 0
    for (prev, meth, stop), cset in scenarios:
        hb = bool(CONSTRAINT_SETS[cset].get("var_range")) or bool(CONSTRAINT_SETS[cset].get("_particle"))
        if (prev if prev != "none" else "none", meth, stop, hb) not in reach and ("none", meth, stop, hb) not in reach:
            raise tlc.MachineryError("scenario %s/%s/%s not reachable in the model" % (prev, meth, stop))
        key = "fit:%s%s:%s:%s" % (prev + ">" if prev != "none" else "", meth, stop, cset)
        t0 = time.time()
        dct, config, amp = build(cset, ctx.seed % 1000 + nrun, n_data, n_phsp)
        data = config.data.cal_angle(p_data)
        phsp = config.data.cal_angle(p_phsp)
        fcn = config.get_fcn([[data], [phsp], None, None])
        try:
            if prev != "none":
                run_fit(config, data, phsp, prev, "maxiter")
            before = {k: float(v) for k, v in config.get_params().items()}
            nll_start = nll_at(fcn, {})
            res = run_fit(config, data, phsp, meth, stop)
        except Exception as e:
            ctx.violation(key + ":raises", {"error": repr(e)[:300]})
            nrun += 1
            continue
        observe(ctx, key, config, amp, fcn, res, before, nll_start, cset, dct, data, phsp, ctx.work, "s%d" % nrun)
        installed = sorted(amp.vm.bnd_dic)
        if installed:
            ctx.part("observation_bounds_left_installed", **{meth: 1})
        nrun += 1
        ctx.count(1, distinct_key=key)
        if nrun == 1:
            ctx.sample({"scenario": key, "min_nll": res.min_nll, "start_nll": nll_start, "n_params": len(res.params)})
        ctx.log("%s %.1fs" % (key, time.time() - t0))
    ctx.part("real_fits", scenarios=nrun)
    # ---------------- the adversarial minimiser of the model on the real epilogues --------
    if not adv_cases:
        raise tlc.MachineryError("no returned state of FitSession.tla to realise with the adversary")
    nadv = adversary_part(ctx, rng, adv_cases, quick)
    nadv += rebound_part(ctx, quick)
    ctx.cov["traces_validated_against_impl"] = nrun + nadv
    ctx.cov["rule"] = (
        "FitSession.tla: all sessions of <= 2 fits x 12 method names x stop kinds x <= 3 adversarial evaluations, with and "
        "without declared bounds, are TLC states; every reachable (previous method, method, stop) used by the tier is realised "
        "as real ConfigLoader.fit calls on a 3-chain spin-0 model with one of 5 constraint sets; distinct = scenario key"
    )
    ctx.assume("NLL comparisons at relative 1e-8; 'not above the start' trusts that scipy/Minuit report the best point they evaluated and is asserted on every real fit")
    ctx.assume("early exit is injected by a user callback raising tf_pwa.fit.LargeNumberError at iteration 2")
    ctx.assume("bounds left installed after Newton-type fits are recorded as an observation (not a clause of C08)")


def replay(ctx, path):
    run(ctx)
