"""C03 -- amplitudes superpose linearly; fit fractions obey the sum rule.

Spec: spec/Superpose.tla (exact Gaussian-integer algebra: Linearity,
Proportional, SumRule, BatchIndependent checked by TLC in every scenario =
couplings x chain-to-resonance assignment x batch size; the selection tables
SelAny / SelOnly) and the selection part of spec/Session.tla.
Binding: the TLC scenarios are realised on real decay groups: per-chain
amplitude tensors measured under set_used_chains([k]) must add up to the
amplitude of every subset, set_used_res must select exactly the chains of the
TLC table, a chain's amplitude must scale with its own coupling, fit fractions
(old / new method, cal_fitfractions, ConfigLoader.cal_fitfractions) must be
batch independent and obey the sum rule where the resonances partition the
chains.
"""
import itertools
import math
import os
import random

import numpy as np

from .. import models, tlc

LEVEL = "model_checking"


def four_body_dict():
    # A -> R1 R2, R1 -> B C, R2 -> D E ; A -> R1 R3, R3 -> D E ; A -> R4 E, R4 -> R1 D
    fin = {"J": 0, "P": -1}
    return {
        "data": {"dat_order": ["B", "C", "D", "E"]},
        "decay": {
            "A": [["R1", "R2"], ["R1", "R3"], ["R4", "E"]],
            "R1": ["B", "C"],
            "R2": ["D", "E"],
            "R3": ["D", "E"],
            "R4": ["R1", "D"],
        },
        "particle": {
            "$top": {"A": {"J": 0, "P": -1, "mass": 5.3}},
            "$finals": {"B": dict(fin, mass=0.5), "C": dict(fin, mass=0.14), "D": dict(fin, mass=0.5), "E": dict(fin, mass=0.14)},
            "R1": {"J": 1, "Par": -1, "m0": 0.9, "g0": 0.05},
            "R2": {"J": 1, "Par": -1, "m0": 1.0, "g0": 0.2},
            "R3": {"J": 1, "Par": -1, "m0": 0.9, "g0": 0.06},
            "R4": {"J": 1, "Par": -1, "m0": 1.4, "g0": 0.2},
        },
        "constrains": {"particle": None, "decay": None},
    }


def total_names(amp, k):
    v = amp.decay_group.chains[k].total
    return v.name + "_0r", v.name + "_0i"


def set_coupling(amp, k, c):
    """complex coupling of chain k (the `total` variable) in the form the manager currently uses"""
    nr, ni = total_names(amp, k)
    polar = amp.vm.complex_vars.get(nr[:-1], True)
    if polar:
        amp.vm.set(nr, abs(c), val_in_fit=False)
        amp.vm.set(ni, math.atan2(c.imag, c.real), val_in_fit=False)
    else:
        amp.vm.set(nr, c.real, val_in_fit=False)
        amp.vm.set(ni, c.imag, val_in_fit=False)


def get_coupling(amp, k):
    nr, ni = total_names(amp, k)
    r, i = float(amp.vm.get(nr, val_in_fit=False)), float(amp.vm.get(ni, val_in_fit=False))
    polar = amp.vm.complex_vars.get(nr[:-1], True)
    return complex(r * math.cos(i), r * math.sin(i)) if polar else complex(r, i)


def chain_amps(dg, data):
    old = list(dg.chains_idx)
    out = []
    for k in range(len(dg.chains)):
        dg.set_used_chains([k])
        out.append(np.asarray(dg.get_amp(data)))
    dg.set_used_chains(old)
    return out


def close(a, b, rel=1e-9):
    a, b = np.asarray(a), np.asarray(b)
    if a.shape != b.shape:
        return False
    scale = max(float(np.max(np.abs(a))), float(np.max(np.abs(b))), 1e-300)
    return float(np.max(np.abs(a - b))) <= rel * scale


def run(ctx):
    quick = ctx.tier == "quick"
    rng = random.Random(ctx.seed)
    # ---------------- TLC: the exact algebra + scenario space ------------------
    cfgp = os.path.join(ctx.work, "superpose.cfg")
    with open(cfgp, "w") as f:
        f.write("CONSTANTS K = 3\n NEv = %d\n NHel = 2\nINIT Init\nNEXT Next\nINVARIANT Linearity\nINVARIANT Proportional\nINVARIANT SumRule\n"
                "INVARIANT BatchIndependent\nPOSTCONDITION Post\nCHECK_DEADLOCK FALSE\n" % (4 if quick else 5))
    dump = os.path.join(ctx.work, "superpose_states")
    r = tlc.run("Superpose", cfgp, work=ctx.work, workers=16, timeout=3000, dump_states=dump)
    if r.violation:
        raise tlc.MachineryError("Superpose violates its own theorem %s" % r.violation)
    ctx.tlc(r, "Superpose")
    scen = tlc.parse_dump(dump)
    if len(scen) != r.distinct:
        raise tlc.MachineryError("scenario dump incomplete")
    seltab = {frozenset(rs): (frozenset(a), frozenset(o)) for rs, a, o in r.out["selection"]}
    ctx.cov["exhaustive"] = True

    # ---------------- real groups ----------------------------------------------
    d3cfg = models.toy_dict(spin0=False)
    for rn in ("R_BC", "R_BD", "R_CD"):
        d3cfg["particle"][rn].update({"J": 1, "Par": 1})
    cfg3 = models.make_config(d3cfg)
    amp3 = cfg3.get_amplitude()
    models.set_reproducible_params(cfg3, ctx.seed % 997)
    p3 = models.phsp_p4(40 if quick else 120, ctx.seed % 1000 + 3)
    d3 = cfg3.data.cal_angle(p3)
    cfg4 = models.make_config(four_body_dict())
    amp4 = cfg4.get_amplitude()
    models.set_reproducible_params(cfg4, ctx.seed % 991)
    p4 = models.phsp_p4(24 if quick else 60, ctx.seed % 1000 + 4, masses=(0.5, 0.14, 0.5, 0.14), m0=5.3)
    d4 = cfg4.data.cal_angle(p4)
    RES4 = {1: "R1", 2: "R2", 3: "R3", 4: "R4"}

    # ---- (1) selection by resonance names: exactly the TLC table -------------
    dg4 = amp4.decay_group
    if len(dg4.chains) != 3 or len(amp3.decay_group.chains) != 3:
        raise tlc.MachineryError("test groups do not have the expected three chains")
    nsel = 0
    for rs, (exp_any, exp_only) in sorted(seltab.items(), key=lambda x: sorted(x[0])):
        if not rs:
            continue
        names = [RES4[i] for i in sorted(rs)]
        dg4.set_used_res(names)
        got = frozenset(i + 1 for i in dg4.chains_idx)
        nsel += 1
        if got != exp_any or len(dg4.chains_idx) != len(set(dg4.chains_idx)):
            ctx.violation("set_used_res:%s" % "+".join(names), {"got": sorted(got), "expected": sorted(exp_any)})
        dg4.set_used_res(names, only=True)
        got = frozenset(i + 1 for i in dg4.chains_idx)
        if got != exp_only:
            ctx.violation("set_used_res_only:%s" % "+".join(names), {"got": sorted(got), "expected": sorted(exp_only)})
        with amp4.temp_used_res(names):
            got = frozenset(i + 1 for i in dg4.chains_idx)
        if got != exp_any:
            ctx.violation("temp_used_res:%s" % "+".join(names), {"got": sorted(got), "expected": sorted(exp_any)})
    dg4.set_used_chains([0, 1, 2])
    ctx.count(nsel * 3, distinct_key="selection")
    ctx.part("selection_table", subsets=nsel)

    # ---- (2) linearity: every subset / order / selection route ---------------
    nlin = 0
    for label, amp, data in (("3body", amp3, d3), ("4body", amp4, d4)):
        dg = amp.decay_group
        A = chain_amps(dg, data)
        K = len(A)
        if any(float(np.max(np.abs(a))) == 0 for a in A):
            raise tlc.MachineryError("a chain amplitude vanishes identically: vacuous linearity test")
        for n in range(1, K + 1):
            for sub in itertools.permutations(range(K), n):
                dg.set_used_chains(list(sub))
                got = np.asarray(dg.get_amp(data))
                nlin += 1
                if not close(got, sum(A[k] for k in sub)):
                    ctx.violation("linearity:%s:chains=%s" % (label, list(sub)), {"max_abs_diff": float(np.max(np.abs(got - sum(A[k] for k in sub))))})
        dg.set_used_chains(list(range(K)))
        full = np.asarray(dg.get_amp(data))
        dens = np.asarray(amp.pdf(data))
        # density = sum over helicities of |amplitude|^2 (unpolarised)
        ref = np.sum(np.abs(full.reshape(full.shape[0], -1)) ** 2, axis=1)
        if not close(dens, ref, 1e-9):
            ctx.violation("density_is_squared_sum:%s" % label, {"max_rel": float(np.max(np.abs(dens - ref) / ref))})
        # proportionality to the chain's own coupling, lattice values of the specification
        for k in range(K):
            c0 = get_coupling(amp, k)
            for lam in (1j, -1.0, 2.0, 1 + 1j):
                set_coupling(amp, k, c0 * lam)
                Ak = chain_amps(dg, data)
                nlin += 1
                ok = close(Ak[k], lam * A[k]) and all(close(Ak[j], A[j]) for j in range(K) if j != k)
                if not ok:
                    ctx.violation("proportional:%s:chain=%d:lambda=%s" % (label, k, lam), {})
            set_coupling(amp, k, c0)
    ctx.count(nlin, distinct_key="linearity")
    ctx.part("linearity", evaluations=nlin)

    # ---- (2b) partial sums under every amplitude-evaluation strategy ------------
    # (amp_model, preprocessor) pairs admitted by spec/Strategies.tla's PairOK: selecting a subset of
    # chains must give the default model's density for that subset, whatever strategy evaluates it
    pairs = [("cached_amp", "cached_amp"), ("cached_shape", "cached_shape"), ("p4_directly", "p4_directly"), ("base_factor", "default")]
    params3 = {k: float(v) for k, v in amp3.get_params().items()}
    ref = {}
    dg3 = amp3.decay_group
    subsets = [list(c) for n in range(1, 4) for c in itertools.combinations(range(3), n)]
    # the selection is a SEQUENCE: non-ascending orders (set_used_chains([2, 1]), the (i, j), i > j pairs of the
    # fit-fraction loops) must give the same partial sum under every strategy
    subsets += [[2, 1], [1, 0], [2, 0], [2, 0, 1], [1, 2, 0]]
    for sub in subsets:
        dg3.set_used_chains(sub)
        ref[tuple(sub)] = np.asarray(amp3.pdf(d3))
        asc = tuple(sorted(sub))
        if asc in ref and not close(ref[tuple(sub)], ref[asc], 1e-9):
            ctx.violation("subset_order:default:chains=%s" % sub, {"max_rel": float(np.max(np.abs(ref[tuple(sub)] - ref[asc]) / np.abs(ref[asc])))})
    dg3.set_used_chains([0, 1, 2])
    nstr = 0
    for am, pre in pairs:
        dcfg = models.toy_dict(spin0=False, data={"amp_model": am, "preprocessor": pre})
        for rn in ("R_BC", "R_BD", "R_CD"):
            dcfg["particle"][rn].update({"J": 1, "Par": 1})
        try:
            cfgs = models.make_config(dcfg)
            amps = cfgs.get_amplitude()
            amps.set_params(params3)
            ds = cfgs.data.cal_angle(p3)
        except Exception as e:
            ctx.part("strategy_subsets", **{"not_buildable_%s" % am: 1})
            continue
        for sub in subsets:
            amps.set_used_chains(sub)
            try:
                got = np.asarray(amps.pdf(ds))
            except Exception as e:
                ctx.violation("subset_under_strategy:%s:chains=%s:raises" % (am, sub), {"error": repr(e)[:200]})
                continue
            nstr += 1
            if not close(got, ref[tuple(sub)], 1e-8):
                ctx.violation("subset_under_strategy:%s:chains=%s" % (am, sub), {"max_rel": float(np.max(np.abs(got - ref[tuple(sub)]) / np.abs(ref[tuple(sub)])))})
        amps.set_used_chains([0, 1, 2])
    ctx.count(nstr, distinct_key="strategy_subsets")
    ctx.part("strategy_subsets", evaluations=nstr)

    # ---- (3) fit fractions: sum rule and batch independence -------------------
    from tf_pwa.applications import fit_fractions
    from tf_pwa.fitfractions import cal_fitfractions, cal_fitfractions_no_grad

    # fit fractions are expensive (gradient tapes per batch): a smaller sample of the same events
    nfe = 10 if quick else 16
    d3 = cfg3.data.cal_angle([x[:nfe] for x in p3])
    d4 = cfg4.data.cal_angle([x[:nfe] for x in p4])
    p4 = [x[:nfe] for x in p4]
    N = nfe
    # scenarios of the specification: couplings (lattice) and batch class; chains = resonances here
    usable = [s for s in scen if any(tuple(c) != (0, 0) for c in s["coup"]) and tuple(s["resOf"]) == (1, 2, 3)]
    rng.shuffle(usable)
    nsc = 3 if quick else 10
    batch_of = {1: 1, 2: 7, 3: N - 1, 4: N, 5: N + 3, 6: 2 * N}
    nff = 0
    res3 = ["R_BC", "R_BD", "R_CD"]
    base_coup = [get_coupling(amp3, k) for k in range(3)]
    done_coup = set()
    for s in usable:
        ck = tuple(tuple(c) for c in s["coup"])
        if ck in done_coup:
            continue
        done_coup.add(ck)
        if len(done_coup) > nsc:
            break
        for k in range(3):
            set_coupling(amp3, k, complex(*ck[k]) * (0.7 + 0.2 * k))
        ref = None
        batches = [1, N] if quick else [1, 7, N - 1, N, N + 3]
        batches = sorted(set(batches + [batch_of[s["batch"]]]))
        for b in batches:
            for method in ("old", "new", "direct", "nograd"):
                if quick and method in ("nograd",) and b != N:
                    continue
                if method == "old":
                    frac, _ = fit_fractions(amp3, d3, res=res3, batch=b, method="old")
                elif method == "new":
                    ff = fit_fractions(amp3, d3, res=res3, batch=b, method="new")
                    frac, _ = ff.get_frac(error_matrix=None, sum_diag=False)
                elif method == "direct":
                    frac, _ = cal_fitfractions(amp3, d3, res=res3, batch=b)
                else:
                    frac = cal_fitfractions_no_grad(amp3, d3, res=res3, batch=b)
                    frac = {(tuple(k.split("x")) if "x" in k else k): v for k, v in frac.items()}
                nff += 1
                vals = {str(k): float(v) for k, v in frac.items()}
                total = sum(vals.values())
                key = "fitfrac:coup=%s:batch=%s:%s" % (ck, "N%+d" % (b - N) if b >= N - 1 else b, method)
                if not abs(total - 1.0) <= 1e-9:
                    ctx.violation(key + ":sum_rule", {"sum": total, "fractions": vals})
                if ref is None:
                    ref = vals
                else:
                    for kk in ref:
                        if kk not in vals or abs(vals[kk] - ref[kk]) > 1e-9 * max(1.0, abs(ref[kk])):
                            ctx.violation(key + ":batch_or_method_dependence", {"entry": kk, "value": vals.get(kk), "reference": ref[kk]})
                            break
        ctx.count(0, distinct_key=("ffscen", ck))
        if len(done_coup) == 1:
            ctx.sample({"couplings": [list(c) for c in ck], "fractions": ref})
    for k in range(3):
        set_coupling(amp3, k, base_coup[k])
    # 4-body: R1 is in every chain (fraction 1); R2, R3, R4 partition the chains
    for b in ([5, len(p4[0])] if quick else [1, 5, len(p4[0]) - 1, len(p4[0]), len(p4[0]) + 3]):
        frac, _ = cal_fitfractions(amp4, d4, res=["R1"], batch=b)
        nff += 1
        if abs(float(frac["R1"]) - 1.0) > 1e-9:
            ctx.violation("fitfrac:4body:R1:batch=%d" % b, {"R1": float(frac["R1"])})
        frac, _ = cal_fitfractions(amp4, d4, res=["R2", "R3", "R4"], batch=b)
        nff += 1
        tot = sum(float(v) for v in frac.values())
        if abs(tot - 1.0) > 1e-9:
            ctx.violation("fitfrac:4body:partition:batch=%d" % b, {"sum": tot})
    # proper subsets of the resonances, and a partial chain selection active at the time of the call: the fractions of
    # the listed resonances and their pairs add up to one (the total is their partial sum) through every route
    subsets = [["R_BC", "R_BD"], ["R_CD", "R_BC"], ["R_BD", "R_CD"], list(res3)]
    actives = [None, ["R_BC"], ["R_CD", "R_BD"]]
    combos = [(sub, act) for sub in subsets for act in actives if not (len(sub) == 3 and act is None)]
    if quick:
        rng.shuffle(combos)
        combos = sorted(combos[:4], key=repr)
    for sub, act in combos:
        ref = None
        for method in ("old", "new", "direct", "nograd"):
            amp3.set_used_res(act if act else list(res3))
            try:
                if method == "old":
                    frac, _ = fit_fractions(amp3, d3, res=list(sub), batch=7, method="old")
                elif method == "new":
                    frac, _ = fit_fractions(amp3, d3, res=list(sub), batch=7, method="new").get_frac(error_matrix=None, sum_diag=False)
                elif method == "direct":
                    frac, _ = cal_fitfractions(amp3, d3, res=list(sub), batch=7)
                else:
                    frac = cal_fitfractions_no_grad(amp3, d3, res=list(sub), batch=7)
                    frac = {(tuple(k.split("x")) if "x" in k else k): v for k, v in frac.items()}
            finally:
                amp3.set_used_res(list(res3))
            nff += 1
            vals = {str(k): float(v) for k, v in frac.items()}
            total = sum(vals.values())
            key = "fitfrac:res=%s:active=%s:%s" % ("+".join(sub), "+".join(act) if act else "all", method)
            if not abs(total - 1.0) <= 1e-9:
                ctx.violation(key + ":sum_rule", {"sum": total, "fractions": vals})
            if ref is None:
                ref = vals
            elif any(kk not in vals or abs(vals[kk] - ref[kk]) > 1e-9 * max(1.0, abs(ref[kk])) for kk in ref):
                ctx.violation(key + ":method_dependence", {"fractions": vals, "reference(old)": ref})
    # one FitFractions object integrated again (another sample / changed parameters): the totals
    # must start from zero every time
    ff = fit_fractions(amp3, d3, res=res3, batch=7, method="new")
    first, _ = ff.get_frac(error_matrix=None, sum_diag=False)
    for rep in range(2):
        ff.integral(d3, batch=N if rep else 4)
        again, _ = ff.get_frac(error_matrix=None, sum_diag=False)
        nff += 1
        tot = sum(float(v) for v in again.values())
        bad = [str(k) for k in first if abs(float(first[k]) - float(again[k])) > 1e-9 * max(1.0, abs(float(first[k])))]
        if abs(tot - 1.0) > 1e-9 or bad:
            ctx.violation("fitfrac:FitFractions.integral:repeated", {"sum": tot, "changed": bad[:4]})
            break
    # through the configuration object
    frac, _ = cfg3.cal_fitfractions(mcdata=d3, res=res3, batch=7)
    tot = sum(float(v) for v in frac.values())
    nff += 1
    if abs(tot - 1.0) > 1e-9:
        ctx.violation("fitfrac:ConfigLoader.cal_fitfractions", {"sum": tot})
    ctx.count(nff, distinct_key="fitfractions")
    ctx.part("fit_fractions", calls=nff, coupling_scenarios=len(done_coup) - (1 if len(done_coup) > nsc else 0))
    ctx.cov["traces_validated_against_impl"] = nsel + nlin + nff
    ctx.cov["rule"] = (
        "Superpose.tla: every (couplings in the 6-value lattice)^3 x chain-to-resonance assignment x batch size is one TLC "
        "state with Linearity/Proportional/SumRule/BatchIndependent as invariants; selection tables for a group with shared "
        "resonances; on real 3-body (spin-1 finals) and 4-body groups: all ordered subsets of chains, all resonance subsets, "
        "lattice coupling factors, fit fractions for a seeded sample of TLC coupling scenarios x batch sizes x 4 routes"
    )
    ctx.assume("amplitude identities compared at relative 1e-9 of the tensor's largest entry; fit-fraction identities at 1e-9")
    ctx.assume("events and non-coupling parameters are sampled (seeded); the discrete quantifier (subsets, orders, batch classes, lattice couplings) is enumerated")


def replay(ctx, path):
    run(ctx)
