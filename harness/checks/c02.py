"""C02 -- the density does not depend on unphysical bookkeeping conventions.

Spec: spec/Symmetry.tla, machine InitBook/NextBook: states are (structure,
chain order, option vector, event frame); actions are the bookkeeping changes
(adjacent transposition of the chain list, toggles of align_ref / random_z /
center_mass / only_left_angle).  TLC checks the reference rule Ref(order, leaf)
(aligned_angle_ref_rule1 transcribed), the non-vacuity theorem
SensitiveIffRefMoves and the admissibility table, and writes them out.
Binding B3 (numeric): for every enumerated state one ConfigLoader is built from
the permuted / re-optioned dict, the same parameters are set by name, the same
four-momenta (given both in the parent rest frame and in a boosted laboratory
frame) are evaluated, and the density is compared with the baseline state
(declared order, default options) of the same frame.  Inadmissible states are
evaluated too and recorded as outside-quantifier observations, never violations.
The implementation's own choice of reference chain is read off its angle data
(the chain without an 'aligned_angle' entry) and compared with Ref: a mismatch is
reported as model drift, not as a violation (the property is about the density).
"""
import itertools
import json
import os
import zlib

import numpy as np

from .. import symmetry_c01 as S
from .. import tlc

LEVEL = "exploration"
REL = 1e-6
ABS = 1e-12


def _cfg(ctx, thin, offset):
    p = os.path.join(ctx.work, "book_%d_%d.cfg" % (thin, offset))
    with open(p, "w") as f:
        f.write(
            "CONSTANTS MaxJ2 = 4\n MaxFinJ2 = 2\n FinBudget3 = 3\n FinBudget4 = 2\n NSet = {3, 4}\n"
            " MaxWord = 0\n Thin = %d\n Offset = %d\n Reps3 = 4\n Reps4 = 1\n NModels = %d\n"
            "INIT InitBook\nNEXT NextBook\n"
            "INVARIANT TypeOKBook\nINVARIANT RefRule\nINVARIANT SensitiveIffRefMoves\nINVARIANT BaselineAdmissible\nINVARIANT JudgeableTrivial\n"
            "POSTCONDITION PostBook\nCHECK_DEADLOCK FALSE\n" % (thin, offset, len(S.MODEL_TAGS))
        )
    return p


def opt_dict(o):
    ar, rz, cm, ol = o
    d = {"random_z": bool(rz), "center_mass": bool(cm), "only_left_angle": bool(ol)}
    if ar == "cm":
        d["align_ref"] = "center_mass"
    return d


def opt_key(o):
    ar, rz, cm, ol = o
    return "align_ref=%s,random_z=%d,center_mass=%d,only_left_angle=%d" % ("center_mass" if ar == "cm" else "None", rz, cm, ol)


DEFAULT = ("none", True, False, False)
CMOPT = ("cm", True, True, False)
ALL_OPTS = [(ar, rz, cm, ol) for ar in ("none", "cm") for rz in (True, False) for cm in (False, True) for ol in (False, True)]


def features(e):
    s = e["s"]
    f = {("n", s["n"]), ("nch", len(s["chains"])), ("sensitive", e["sensitive"]), ("orphan", bool(e["orphans"])), ("multi", bool(e["multis"])), ("pb", s["pb"]), ("model", s["model"])}
    f |= {("fin", x[0]) for x in s["fin"]}
    f |= {("orphanspin", s["fin"][l - 1][0]) for l in e["orphans"]}
    f |= {("multispin", s["fin"][l - 1][0]) for l in e["multis"]}
    f |= {("res", j2) for c in s["chains"] for _, j2, _ in c["res"]}
    f.add(("nclasses", len({S.fz(c["form"]) for c in s["chains"]})))
    if e.get("needsalign"):
        f.add(("idgroups", len(s["ident"])))
        f.add(("idsize", max(len(g) for g in s["ident"])))
        f.add(("identspin", max(s["fin"][i - 1][0] for g in s["ident"] for i in g)))
        f.add(("aligned_orders", sum(1 for v in e["refs"].values() if v[2]) > 0))
    return f


def select_ident(entries, k, rng):
    """structures with declared identical particles and a spinning final (spec: NeedsAlign): first those with an
    exchange-symmetric rule-1 reference (align_ref None <-> center_mass is judgeable there), then alignment-sensitive
    ones (the chain order moves the reference; judged among the align_ref = center_mass states), then a feature cover"""
    idx = [i for i in rng.permutation(len(entries)) if entries[i].get("needsalign")]
    chosen = []
    aligned = [i for i in idx if any(v[2] for v in entries[i]["refs"].values())]
    chosen += aligned[: max(1, k // 3)]
    sens = [i for i in idx if i not in chosen and entries[i]["sensitive"] and max(entries[i]["s"]["fin"][j - 1][0] for g in entries[i]["s"]["ident"] for j in g) > 0]
    chosen += sens[: max(1, k // 3)]
    feats = {i: features(entries[i]) for i in idx}
    todo = set().union(*feats.values()) if feats else set()
    for i in chosen:
        todo -= feats[i]
    while todo and len(chosen) < k:
        best = max((i for i in idx if i not in chosen), key=lambda i: len(feats[i] & todo), default=None)
        if best is None or not feats[best] & todo:
            break
        chosen.append(best)
        todo -= feats[best]
    for i in idx:
        if len(chosen) >= k:
            break
        if i not in chosen:
            chosen.append(i)
    return [int(i) for i in chosen[:k]]


def select(entries, k, rng):
    order = [i for i in rng.permutation(len(entries)) if not entries[i].get("needsalign")]
    feats = {i: features(entries[i]) for i in order}
    todo = set().union(*feats.values())
    chosen = []
    # mandatory first: alignment-sensitive structures whose orphan final has spin 1/2
    for want in (("orphanspin", 1), ("orphanspin", 2), ("multi", True), ("sensitive", False)):
        for i in order:
            if want in feats[i] and i not in chosen:
                chosen.append(i)
                todo -= feats[i]
                break
    while todo and len(chosen) < k:
        best = max((i for i in order if i not in chosen), key=lambda i: len(feats[i] & todo))
        if not feats[best] & todo:
            break
        chosen.append(best)
        todo -= feats[best]
    for i in order:
        if len(chosen) >= k:
            break
        if i not in chosen and entries[i]["sensitive"]:
            chosen.append(i)
    return sorted(int(i) for i in chosen[:k])


def impl_refs(data, names, tag):
    """which topology class carries no 'aligned_angle' for each final particle (= tf_pwa's reference)"""
    out = {}
    for chain, cdata in data["decay"].items():
        table = chain.sorted_table()
        form = frozenset(frozenset(names.index(str(x)) + 1 for x in v) for k, v in table.items() if len(v) > 1)
        for dec, ddata in cdata.items():
            if not hasattr(dec, "outs"):
                continue
            for part in dec.outs:
                if str(part) in names and isinstance(ddata.get(part), dict):
                    if "aligned_angle" not in ddata[part]:
                        out.setdefault(names.index(str(part)) + 1, []).append(form)
    return out


def evaluate(ctx, e, nev, states):
    """states: list of (perm tuple, option tuple).  Returns densities per state on [rest | lab] events."""
    from tf_pwa.config_loader import ConfigLoader

    s = e["s"]
    key = S.skey(s)
    h = zlib.crc32(key.encode())
    tag = "_%08x" % h
    rng = np.random.default_rng([ctx.seed % (2**32), h, 2])
    names = S.leaf_names(s["n"], tag)
    p_rest = S.phsp_events(s, nev, (ctx.seed + h) % (2**31))
    L = S.lorentz_boost(rng.normal(size=3) / 3.0 ** 0.5 * rng.uniform(0.2, 0.5)) @ S.lorentz_rot(S.rot_axis(rng.normal(size=3), rng.uniform(0.3, 3.0)))
    p_lab = [x @ L.T for x in p_rest]
    p4 = {nm: np.concatenate([a, b]) for nm, a, b in zip(names, p_rest, p_lab)}
    params = None
    out = {"key": key, "dens": {}, "refs": {}, "param_problem": None}
    for perm, o in states:
        dic = S.build_config(s, order=perm, options=opt_dict(o), tag=tag)
        config = ConfigLoader(dic)
        amp = config.get_amplitude()
        if len(list(config.get_decay())) != len(s["chains"]):
            out["param_problem"] = "chain set differs for order %s" % (perm,)
            return out
        cur = config.get_params()
        if params is None:
            params = S.draw_params(cur, rng)
            out["param_names"] = sorted(cur)
        elif sorted(cur) != out["param_names"]:
            out["param_problem"] = "parameter names depend on the chain order: %s" % sorted(set(cur) ^ set(out["param_names"]))[:6]
            return out
        config.set_params(params)
        back = config.get_params()
        if any(abs(back[k] - v) > 1e-12 for k, v in params.items()):
            out["param_problem"] = "set_params by name did not take for order %s" % (perm,)
            return out
        data = config.data.cal_angle(p4)
        out["dens"][(perm, o)] = np.asarray(amp(data), dtype=np.float64)
        if o == DEFAULT:
            out["refs"][perm] = impl_refs(data, names, tag)
    return out


def run(ctx):
    from ..prelude import import_tf_quiet

    quick = ctx.tier == "quick"
    thin = 6 if quick else 1
    nsel = 12 if quick else 85
    nsel_id = 3 if quick else 15
    nev = 32
    offset = ctx.seed % 100000
    r = tlc.run("Symmetry", _cfg(ctx, thin, offset), work=ctx.work, workers=16, timeout=1500)
    if r.violation:
        raise tlc.MachineryError("Symmetry spec violates its own theorem %s" % r.violation)
    if r.out is None:
        raise tlc.MachineryError("Symmetry (book family) wrote no table:\n" + r.stdout[-1500:])
    ctx.tlc(r, "Symmetry/book Thin=%d Offset=%d" % (thin, offset), vacuity_actions=["SwapChains", "ToggleAlignRef", "ToggleRandomZ", "ToggleCenterMass", "ToggleOnlyLeft"])
    out = r.out
    # non-vacuity: permutations must move the reference for some structures, orphan kind with spin 1/2 mandatory
    if out["norphan"] < 1 or out["norphanhalf"] < 1:
        raise tlc.MachineryError("vacuous scenario family: no alignment-sensitive structure (orphans=%d, spin-1/2 orphans=%d)" % (out["norphan"], out["norphanhalf"]))
    entries = out["structures"]
    import math

    expect = sum(2 * 16 * math.factorial(len(e["s"]["chains"])) for e in entries)
    if expect != r.distinct:
        raise tlc.MachineryError("state expansion (%d) disagrees with TLC's state space (%d)" % (expect, r.distinct))
    adm = {(a[0], bool(a[1]), bool(a[2]), bool(a[3]), a[4]): bool(a[5]) for a in out["admissible"]}
    if len(adm) != 32 or not all(adm[DEFAULT + (fr,)] for fr in ("rest", "lab")):
        raise tlc.MachineryError("admissibility table incomplete")
    for e in entries:
        e["s"]["ident"] = [sorted(pr) for pr in e["s"]["ident"]]
        e["refs"] = {tuple(p): ([S.fz(f) for f in refs], bool(diff), bool(al)) for p, refs, diff, al in e["refs"]}
        e["judgeable"] = {(tuple(j[0]), j[1], bool(j[2]), bool(j[3]), bool(j[4]), j[5]) for j in e["judgeable"]}
        e["baseopt"] = (e["baseopt"][0], bool(e["baseopt"][1]), bool(e["baseopt"][2]), bool(e["baseopt"][3]))
    entries.sort(key=lambda e: S.skey(e["s"]))
    ctx.log("TLC: %d structures (%d alignment-sensitive, %d with a spin-1/2 orphan, %d multi-producer), %d states" % (out["n"], out["nsensitive"], out["norphanhalf"], out["nmulti"], r.distinct))

    import_tf_quiet()
    rng = np.random.default_rng(ctx.seed % (2**32))
    chosen = select(entries, nsel, rng)
    chosen_id = select_ident(entries, nsel_id, rng)
    n_needs = sum(1 for e in entries if e["needsalign"])
    if n_needs and not chosen_id:
        raise tlc.MachineryError("identical-particle structures in the family but none selected")
    chosen = chosen + chosen_id
    n_id_states = n_id_cmp = n_id_skipped = n_id_none_vs_cm = 0
    ctx.cov["exhaustive"] = False
    n_states = n_adm = n_inadm = n_inadm_differ = n_refmoved = n_refcheck = n_drift = 0
    max_nerr = 0.0
    featset = set()
    for cnt, i in enumerate(chosen):
        e = entries[i]
        s = e["s"]
        key = S.skey(s)
        nch = len(s["chains"])
        perms = list(itertools.permutations(range(1, nch + 1)))
        ident = tuple(range(1, nch + 1))
        base_state = (ident, e["baseopt"])
        if quick and e["needsalign"]:
            # identical particles: all orders x {default, center_mass reference}, a few toggles on the declared order
            few = [("cm", True, False, False), ("cm", False, True, True), ("none", False, False, False), ("none", True, True, False), ("none", True, False, True)]
            states = [(p, o) for p in perms for o in (DEFAULT, CMOPT)] + [(ident, o) for o in few]
        elif quick:
            # all orders with the default options; all option vectors on the declared order;
            # single toggles and everything toggled on the reversed order
            few = [("cm", True, False, False), ("none", False, False, False), ("none", True, True, False), ("none", True, False, True), ("cm", False, True, True)]
            states = [(p, DEFAULT) for p in perms] + [(ident, o) for o in ALL_OPTS if o != DEFAULT] + [(ident[::-1], o) for o in few]
        else:
            states = [(p, o) for p in perms for o in ALL_OPTS]
        try:
            res = evaluate(ctx, e, nev, states)
        except Exception as ex:
            ctx.violation("%s:raise" % key, {"structure": s, "error": repr(ex)[:500]})
            continue
        if res["param_problem"]:
            ctx.violation("%s:parameters-by-name" % key, {"structure": s, "problem": res["param_problem"]})
            continue
        featset |= features(e)
        base = res["dens"][base_state]
        scale = float(np.median(np.abs(base)))
        for (perm, o), d in res["dens"].items():
            n_states += 1
            for fi, fr in enumerate(("rest", "lab")):
                a, b = d[fi * nev : (fi + 1) * nev], base[fi * nev : (fi + 1) * nev]
                ok_num = bool(np.all(np.isfinite(a)) and np.all(a >= 0))
                tol = REL * (np.maximum(np.abs(a), np.abs(b)) + scale) + ABS
                ne = float(np.max(np.abs(a - b) / tol)) if ok_num else float("inf")
                admissible = adm[o + (fr,)]
                moved = e["refs"][perm][1]
                if e["needsalign"]:
                    n_id_states += fi == 0
                    if admissible and (perm, o[0], o[1], o[2], o[3], fr) not in e["judgeable"]:
                        # rule-1 reference not exchange symmetric under this order: known C01 finding, not judged
                        n_id_skipped += 1
                        continue
                    if admissible:
                        n_id_cmp += 1
                        n_id_none_vs_cm += o[0] != e["baseopt"][0]
                if admissible:
                    n_adm += 1
                    n_refmoved += moved and o[0] == "none"
                    ctx.count(nev, distinct_key=(key, perm, o, fr), nontrivial=((perm, o) != base_state))
                    if ne > 1:
                        ev = int(np.argmax(np.abs(a - b) / tol)) if ok_num else 0
                        ctx.violation(
                            "%s:order=%s:%s:%s" % (key, "".join(map(str, perm)), opt_key(o), fr),
                            {"structure": s, "described": S.describe(s), "order": list(perm), "options": opt_dict(o), "frame": fr, "normalised_error": ne, "event": ev,
                             "density": float(a[ev]), "baseline_density": float(b[ev]), "reference_moved": moved, "tolerance": "|d'-d| <= %g*(max+median)+%g" % (REL, ABS)},
                        )
                    else:
                        max_nerr = max(max_nerr, ne)
                else:
                    n_inadm += 1
                    n_inadm_differ += ne > 1
        # discrete binding of the reference rule (model drift only)
        for perm, refs in res["refs"].items():
            exp_refs = e["refs"][perm][0]
            for l in range(1, s["n"] + 1):
                got = refs.get(l, [])
                n_refcheck += 1
                if got != [exp_refs[l - 1]]:
                    n_drift += 1
                    if len(ctx.notes) < 5:
                        ctx.notes.append("model_drift: reference class of leaf %d under order %s is %s, spec says %s (%s)" % (l, perm, [sorted(map(sorted, g)) for g in got], sorted(map(sorted, exp_refs[l - 1])), key))
        if cnt < 4:
            ctx.sample({"structure": S.describe(s), "alignment_sensitive": e["sensitive"], "orphans": e["orphans"], "states_replayed": len(states), "events": "%d rest + %d lab" % (nev, nev)})
        ctx.log("%d/%d %s: %d states, max normalised error %.2e" % (cnt + 1, len(chosen), key, len(states), max_nerr))
    if n_refmoved == 0:
        raise tlc.MachineryError("no replayed state moved the alignment reference: comparison vacuous")
    ctx.part("structures", family=out["n"], sensitive=out["nsensitive"], spin_half_orphans=out["norphanhalf"], multi_producer=out["nmulti"], evaluated=len(chosen))
    ctx.part("states", tlc_states=r.distinct, replayed=n_states, admissible_comparisons=n_adm, with_reference_moved=n_refmoved)
    ctx.part("identical_particles", family=n_needs, evaluated=len(chosen_id), states_replayed=n_id_states, judgeable_comparisons=n_id_cmp,
             across_align_ref=n_id_none_vs_cm, not_judgeable_known_C01_finding=n_id_skipped)
    ctx.part("outside_quantifier", inadmissible_comparisons=n_inadm, of_which_density_differs=n_inadm_differ)
    ctx.part("ref_binding", leaves_checked=n_refcheck, model_drift=n_drift)
    ctx.cov["parts"]["margin"] = {"max_normalised_density_error": max_nerr, "tolerance_rel": REL, "tolerance_abs": ABS}
    ctx.cov["parts"]["features_covered"] = sorted("%s=%s" % f for f in featset)
    ctx.cov["traces_validated_against_impl"] = n_states
    ctx.cov["rule"] = (
        "TLC enumerates every (structure, chain order, option vector, frame) state of the bookkeeping machine on a slice (Thin=%d, Offset=%d) "
        "of the structure product (>= 2 chains, a spinning final particle); %d structures (identical-particle ones judged on the states the spec's Judgeable table admits; greedy feature cover, "
        "alignment-sensitive ones first) are replayed: %s; each state on %d rest-frame + %d laboratory-frame events, compared with the "
        "declared order / default options of the same frame: |d'-d| <= %g*(max+median)+%g. distinct non-trivial = admissible "
        "(structure, order, options, frame) cells other than the baseline" % (thin, offset, len(chosen), "all orders x default options, declared order x all 16 option vectors, reversed order x 5 option vectors" if quick else "all orders x all 16 option vectors", nev, nev, REL, ABS)
    )
    ctx.assume("np.Inf shim (harness/prelude.py); tf_pwa imported from the working tree")
    ctx.assume("admissibility table of spec/Symmetry.tla: align_ref=center_mass only with rest-frame events or center_mass=True; r_boost=False is outside the property")
    ctx.assume("events and couplings are sampled (seeded); parameters are set by name on every configuration")
    ctx.assume("with declared identical particles and a spinning final only the states of spec Judgeable are compared (align_ref=center_mass, or a rule-1 reference that the exchange maps onto itself); the rest is the known C01 finding")


def replay(ctx, path):
    run(ctx)
