"""C16 -- parameter constraints survive every sequence of updates.

Spec: spec/Params.tla (implementation-shaped model of VarsManager).
1. TLC checks each stated property of C16 on the model (one run per property so
   that each design-level counterexample is obtained separately); every
   counterexample is replayed on a real VarsManager and is a violation only if
   the observer fails on the real object as well.
2. B1: the labelled state graph of the exhaustive configurations is dumped and
   every edge is executed on a real VarsManager (projection compared, observers
   of C16 evaluated on the real object after every step).
3. B1 (deep): TLC -simulate behaviours of length 25 replayed the same way.
4. C16-b (numeric): bound transformations of every kind: x2y(y2x(y)) = y on the
   allowed range, clipping outside, reported slope = finite difference.
"""
import glob
import math
import os
import random
import time

import numpy as np

from .. import tlc
from ..params_replay import Ambiguous, Drift, Replayer, fmt_step, run_path

LEVEL = "model_checking"

INVS = ["TypeOK", "TiedEqual", "TiedCountOnce", "BoundInverse"]
PROPS = ["PropFixed", "PropTieKeepsFree", "PropReadWrite", "PropComplex", "PropStandardForm", "PropFitStepLocal"]
ALL_ACTIONS = [
    "SetFix", "SetFixCurrent", "Unfix", "SetSame", "SetShareR", "SetBound", "RemoveBound", "Set", "WriteBack",
    "SetAllListAt", "SetTransVarAt", "Refresh", "Rp2xy", "Xy2rp", "Rp2xyAll", "Xy2rpAll", "StdPolar",
    "StandardComplex", "StdPolarAll", "MaskEnter", "MaskExit",
]
# spec constant StdPolarWraps mirrors tf_pwa/variable.py std_polar (TRUE since the fix commit)
STD_POLAR_WRAPS = True


def mc_files(reals, cplx, V, depth, invs=(), props=(), view=True):
    mod = (
        "---- MODULE MCParams ----\nEXTENDS Params\nMC_RealSeq == <<%s>>\nMC_CplxSeq == <<%s>>\nMC_V == {%s}\n====\n"
        % (",".join('"%s"' % x for x in reals), ",".join('"%s"' % x for x in cplx), ",".join(map(str, V)))
    )
    cfg = (
        "CONSTANTS\n RealSeq <- MC_RealSeq\n CplxSeq <- MC_CplxSeq\n V <- MC_V\n StdPolarWraps = %s\n Lo = 0\n Hi = 3\n"
        " MaxDepth = %d\n None = None\nINIT Init\nNEXT Next\nCHECK_DEADLOCK FALSE\n" % ("TRUE" if STD_POLAR_WRAPS else "FALSE", depth)
    )
    if view:
        cfg += "VIEW DepthView\n"
    cfg += "".join("INVARIANT %s\n" % i for i in invs) + "".join("PROPERTY %s\n" % i for i in props)
    return mod, cfg


def run_tlc(ctx, conf, invs, props, label, **kw):
    mod, cfg = mc_files(conf["reals"], conf["cplx"], conf["V"], conf["depth"], invs, props)
    cfgp = os.path.join(ctx.work, "params_%s.cfg" % label.replace(" ", "_").replace("/", "_"))
    with open(cfgp, "w") as f:
        f.write(cfg)
    return tlc.run("MCParams", cfgp, work=ctx.work, workers=16, timeout=3000, expect_violation=True, extra_files={"MCParams.tla": mod}, **kw)


def history_key(path, upto):
    return ";".join(fmt_step(a, g) for a, g, _ in path[1 : upto + 1])


class Collector:
    """keeps the shortest failing history per (observer, failing action)"""

    def __init__(self):
        self.found = {}

    def add(self, observer, path, idx, msg, kind):
        act = path[idx][0]
        k = (observer, act)
        h = history_key(path, idx)
        cur = self.found.get(k)
        if cur is None or (len(h.split(";")), h) < (len(cur["history"].split(";")), cur["history"]):
            self.found[k] = {"observer": observer, "history": h, "message": msg, "kind": kind,
                             "names": getattr(self, "names", None),
                             "path": tlc.to_jsonable([[a, g, st] for a, g, st in path[: idx + 1]])}

    def report(self, ctx):
        for (ob, act), d in sorted(self.found.items()):
            ctx.violation("%s:%s" % (ob, d["history"]), d)


def replay_counterexample(ctx, conf, trace, prop, coll):
    if coll is not None:
        coll.names = {"reals": conf["reals"], "cplx": conf["cplx"]}
    rep = Replayer(conf["reals"], conf["cplx"])
    hits = []

    def on_fail(kind, ob, i, msg):
        hits.append((kind, ob, i, msg))

    path = [(a, g, st) for a, g, st in trace]
    try:
        run_path(rep, path, on_fail)
    except Drift as e:
        raise tlc.MachineryError("counterexample of %s cannot be replayed: %s" % (prop, e))
    return hits, path


def run(ctx):
    quick = ctx.tier == "quick"
    rng = random.Random(ctx.seed)
    coll = Collector()
    ctx.flush_hooks.append(lambda: coll.report(ctx))
    if quick:
        confs = [
            dict(name="ties", reals=["a", "b", "c"], cplx=[], V=[1, 2], depth=4, walk=2500),
            dict(name="complex", reals=["a"], cplx=["z", "w"], V=[-1, 2], depth=3, walk=3000),
            dict(name="mixed", reals=["a", "b"], cplx=["z"], V=[-1, 0, 2], depth=3, walk=2000),
        ]
        prop_confs = [
            dict(name="ties", reals=["a", "b", "c", "d"], cplx=[], V=[1, 2], depth=5),
            dict(name="complex", reals=["a"], cplx=["z", "w"], V=[-1, 2], depth=3),
            dict(name="mixed", reals=["a", "b"], cplx=["z"], V=[-1, 0, 2], depth=3),
        ]
        sim_n, sim_depth = 120, 25
    else:
        confs = [
            dict(name="ties", reals=["a", "b", "c", "d"], cplx=[], V=[1, 2], depth=4, walk=40000),
            dict(name="complex", reals=["a"], cplx=["z", "w"], V=[-1, 1, 2], depth=3, walk=40000),
            dict(name="mixed", reals=["a", "b"], cplx=["z"], V=[-1, 0, 2], depth=3, walk=30000),
        ]
        prop_confs = [
            dict(name="ties", reals=["a", "b", "c", "d"], cplx=[], V=[1, 2], depth=6),
            dict(name="complex", reals=["a"], cplx=["z", "w"], V=[-1, 1, 2], depth=5),
            dict(name="mixed", reals=["a", "b"], cplx=["z"], V=[-1, 0, 2], depth=5),
        ]
        sim_n, sim_depth = 1500, 30

    # ---------------- 1. the properties on the model --------------------------
    # fast path: one TLC run with every invariant and action property; only when it
    # reports a violation are the properties re-run one by one so that every
    # design-level counterexample is obtained and replayed on the real code
    seen_actions = set()
    design_findings = 0
    for conf in prop_confs:
        r = run_tlc(ctx, conf, INVS, PROPS, "%s all d%d" % (conf["name"], conf["depth"]))
        ctx.tlc(r, "Params/%s all properties depth %d" % (conf["name"], conf["depth"]))
        seen_actions |= {a for a, n in r.coverage.items() if n}
        results = []
        if r.violation:
            for inv in INVS:
                results.append((inv, run_tlc(ctx, conf, [inv], [], "%s %s" % (conf["name"], inv), coverage=False)))
            for prop in PROPS:
                results.append((prop, run_tlc(ctx, conf, [], [prop], "%s %s" % (conf["name"], prop), coverage=False)))
        for prop, rr in results:
            if not rr.violation:
                continue
            design_findings += 1
            hits, path = replay_counterexample(ctx, conf, rr.trace, prop, coll)
            ctx.log("model violates %s in %s: %s -> on real code: %s" % (prop, conf["name"], history_key(path, len(path) - 1), hits[:2]))
            if not hits:
                raise tlc.MachineryError("TLC counterexample for %s (%s) does not reproduce on the real VarsManager: %s" % (prop, conf["name"], history_key(path, len(path) - 1)))
            for kind, ob, i, msg in hits:
                coll.add(ob, path, i, msg, kind)
            ctx.count(1, distinct_key=("cex", conf["name"], prop))
    ctx.part("model_properties", configurations=len(prop_confs), properties=len(INVS) + len(PROPS), design_level_counterexamples=design_findings)

    # ---------------- 2. edge-covering replay of the state graph --------------
    total_edges = 0
    replayed = 0
    for conf in confs:
        dot = os.path.join(ctx.work, "graph_%s.dot" % conf["name"])
        r = run_tlc(ctx, conf, [], [], "%s graph d%d" % (conf["name"], conf["depth"]), dump_dot=dot)
        ctx.tlc(r, "Params/%s graph depth %d" % (conf["name"], conf["depth"]))
        seen_actions |= {a for a, n in r.coverage.items() if n}
        nodes, edges, inits = tlc.parse_dot(dot)
        os.remove(dot)
        total_edges += len(edges)
        if conf["name"] == "ties":
            ties_graph = (nodes, edges, inits, conf)
        out = {}
        for u, v, lab in edges:
            out.setdefault(u, []).append((v, lab))
        # BFS tree
        parent = {i: None for i in inits}
        order = list(inits)
        qi = 0
        while qi < len(order):
            u = order[qi]
            qi += 1
            for v, lab in out.get(u, []):
                if v not in parent:
                    parent[v] = (u, lab)
                    order.append(v)
        budget = conf["walk"]
        edge_list = [(u, v, lab) for u in order for v, lab in out.get(u, [])]
        if len(edge_list) > budget:
            # stratified seeded sample: edges are grouped by (action, abstract context of the source
            # state) and the budget is spread evenly over the groups, so that rare combinations
            # (a refresh of a tied group that contains a fixed name, a coordinate switch with tied
            # components, ...) are replayed as surely as the common ones
            groups = {}
            for e in edge_list:
                groups.setdefault(edge_signature(nodes[e[0]], e[2]), []).append(e)
            keys = sorted(groups, key=repr)
            for k in keys:
                rng.shuffle(groups[k])
            picked = []
            rnd = 0
            while len(picked) < budget and any(groups[k] for k in keys):
                for k in keys:
                    if groups[k] and len(picked) < budget:
                        picked.append(groups[k].pop())
                rnd += 1
            edge_list = picked
            ctx.part("graph_walk_%s" % conf["name"], strata=len(keys))
        by_src = {}
        for u, v, lab in edge_list:
            by_src.setdefault(u, []).append((v, lab))
        rep = Replayer(conf["reals"], conf["cplx"])
        coll.names = {"reals": conf["reals"], "cplx": conf["cplx"]}
        t0 = time.time()
        for u in order:
            if u not in by_src:
                continue
            # path to u
            chain = []
            x = u
            while parent[x] is not None:
                p, lab = parent[x]
                chain.append((lab[0], lab[1], nodes[x]))
                x = p
            path = [("Init", (), nodes[x])] + chain[::-1]
            fails = []
            try:
                ok = run_path(rep, path, lambda kind, ob, i, msg: fails.append((kind, ob, i, msg)), cleanup=False)
            except Drift as e:
                raise tlc.MachineryError("walk: %s" % e)
            for kind, ob, i, msg in fails:
                coll.add(ob, path, i, msg, kind)
            if not ok:
                continue
            sv = rep.save()
            snap_u = rep.snapshot()
            for v, lab in by_src[u]:
                step = (lab[0], lab[1], nodes[v])
                p2 = path + [step]
                fails = []
                ok = step_from(rep, snap_u, nodes[u], step, lambda kind, ob, msg: fails.append((kind, ob, len(p2) - 1, msg)))
                for kind, ob, i, msg in fails:
                    coll.add(ob, p2, i, msg, kind)
                replayed += 1
                rep.restore(sv)
        ctx.part("graph_walk_%s" % conf["name"], states=len(nodes), edges=len(edges), edges_replayed=len(edge_list), wall_s=round(time.time() - t0, 1))
        for u, v, lab in edge_list:
            ctx.count(1, distinct_key=(conf["name"], u, v, lab), nontrivial=(u != v))
        if conf is confs[0] and order:
            # a written-out sample behaviour
            u = order[min(len(order) - 1, 200)]
            chain = []
            x = u
            while parent[x] is not None:
                p, lab = parent[x]
                chain.append(fmt_step(lab[0], lab[1]))
                x = p
            ctx.sample({"behaviour": chain[::-1], "final_model_state": {k: str(v) for k, v in nodes[u].items()}})
    missing = [a for a in ALL_ACTIONS if a not in seen_actions]
    if missing:
        raise tlc.MachineryError("actions never taken in any Params configuration: %s" % missing)

    # ---------------- 2b. the same constraint prefixes applied by a configuration ---------
    config_binding(ctx, ties_graph, rng, 120 if quick else 1500, coll)

    # ---------------- 3. long simulated behaviours ------------------------------
    nsim = 0
    for conf in confs:
        simdir = os.path.join(ctx.work, "sim_%s" % conf["name"])
        os.makedirs(simdir, exist_ok=True)
        c2 = dict(conf)
        c2["depth"] = sim_depth
        mod, cfg = mc_files(c2["reals"], c2["cplx"], c2["V"], c2["depth"], [], [], view=False)
        cfgp = os.path.join(ctx.work, "sim_%s.cfg" % conf["name"])
        with open(cfgp, "w") as f:
            f.write(cfg)
        per = max(1, sim_n // 3)
        rs = tlc.run("MCParams", cfgp, work=ctx.work, workers=1, timeout=900, simulate="file=%s/tr,num=%d" % (simdir, per), depth=sim_depth + 1,
                     seed=ctx.seed % 100000, extra_files={"MCParams.tla": mod}, coverage=False)
        files = sorted(glob.glob(simdir + "/tr*"))
        rep = Replayer(conf["reals"], conf["cplx"])
        coll.names = {"reals": conf["reals"], "cplx": conf["cplx"]}
        for fn in files:
            path = tlc.parse_sim_trace(fn)
            if len(path) < 2:
                continue
            fails = []
            try:
                run_path(rep, path, lambda kind, ob, i, msg: fails.append((kind, ob, i, msg)))
            except Drift as e:
                raise tlc.MachineryError("simulation replay: %s" % e)
            for kind, ob, i, msg in fails:
                coll.add(ob, path, i, msg, kind)
            nsim += 1
            ctx.cov["transitions"] += len(path) - 1
        ctx.count(len(files), distinct_key=("sim", conf["name"]))
    ctx.part("simulated_behaviours", replayed=nsim, depth=sim_depth)
    ctx.assume("behaviours are not followed beyond a state in which a polar parameter has modulus zero and the implementation's phase differs from the model's (atan2 of signed zeros)")
    ctx.cov["traces_validated_against_impl"] = replayed + nsim

    coll.report(ctx)

    # ---------------- 4. C16-b: bound maps (numeric) ----------------------------
    bound_numeric(ctx, quick)

    ctx.cov["rule"] = (
        "Params.tla explored exhaustively per configuration (depth bound, VIEW without the depth counter); each stated "
        "property checked in its own TLC run; every edge of the dumped state graph (or a seeded sample when above the tier's "
        "budget) and every simulated behaviour executed on a real VarsManager with projection comparison and observers; "
        "distinct = distinct graph edges / behaviours / grid points executed on the real object (non-trivial: the edge changes the model state); bound maps on a numeric grid"
    )
    ctx.assume("complex values restricted to the lattice r*i^k (Cartesian form on an axis); bound in the state machine is the custom expression x+1 on [0,3]; analytic bound kinds only in the numeric part")
    ctx.assume("histories follow the order create, fix/free, tie, bound, then arbitrary interleaving (phase variable)")
    ctx.assume("ReadWriteIdentity is stated for sessions without an active mask block")


CONFIG_ACTIONS = ("SetFix", "SetFixCurrent", "Unfix", "SetSame", "SetBound")


def config_binding(ctx, graph, rng, budget, coll):
    """Behaviours made of fix/free, tie and bound operations only are also what a configuration's
    `constrains` section expresses (fix_var, free_var, var_equal, var_range).  Each such behaviour is
    written as a configuration, loaded by the real ConfigLoader (which applies the sections in its
    own order) and the resulting parameter manager is compared with the model state."""
    from .. import models

    nodes, edges, inits, conf = graph
    out = {}
    for u, v, lab in edges:
        if lab[0] in CONFIG_ACTIONS:
            out.setdefault(u, []).append((v, lab))
    # all behaviours (paths) of config actions from the initial states, depth-first, no repeated name per section
    REAL = {
        "a": "A->R_BD.CR_BD->B.D_total_0r",
        "b": "A->R_BD.CR_BD->B.D_total_0i",
        "c": "A->R_CD.BR_CD->C.D_total_0r",
        "d": "A->R_CD.BR_CD->C.D_total_0i",
    }
    REAL = {k: v for k, v in REAL.items() if k in conf["reals"]}
    paths = []

    def dfs(u, path):
        if path:
            paths.append(list(path))
        if len(path) >= conf["depth"]:
            return
        for v, lab in out.get(u, []):
            if v == u:
                continue
            path.append((lab, v))
            dfs(v, path)
            path.pop()

    for i in inits:
        dfs(i, [])

    def expressible(path):
        fixed, freed, bounded = set(), set(), set()
        for (act, args), _ in path:
            if act in ("SetFix", "SetFixCurrent"):
                if args[0] in fixed or args[0] in freed:
                    return False
                fixed.add(args[0])
            elif act == "Unfix":
                if args[0] in freed or args[0] in fixed:
                    return False
                freed.add(args[0])
            elif act == "SetBound":
                if args[0] in bounded:
                    return False
                bounded.add(args[0])
        return all(n in REAL for (act, args), _ in path for n in ([args[0]] if act != "SetSame" else list(args[0])))

    paths = [p for p in paths if expressible(p)]
    total = len(paths)
    # stratify by the multiset of actions
    groups = {}
    for p in paths:
        groups.setdefault(tuple(sorted(a for (a, _), _ in p)), []).append(p)
    keys = sorted(groups)
    for k in keys:
        rng.shuffle(groups[k])
    picked = []
    while len(picked) < budget and any(groups[k] for k in keys):
        for k in keys:
            if groups[k] and len(picked) < budget:
                picked.append(groups[k].pop())
    n = 0
    for path in picked:
        st = nodes[path[-1][1]]
        cons = {"fix_var": {}, "free_var": [], "var_equal": [], "var_range": {}}
        for (act, args), _ in path:
            if act == "SetFix":
                cons["fix_var"][REAL[args[0]]] = float(args[1])
            elif act == "SetFixCurrent":
                cons["fix_var"][REAL[args[0]]] = None
            elif act == "Unfix":
                cons["free_var"].append(REAL[args[0]])
            elif act == "SetSame":
                cons["var_equal"].append([REAL[x] for x in args[0]])
            elif act == "SetBound":
                cons["var_range"][REAL[args[0]]] = [0.0, 3.0]
        d = models.toy_dict(extra={"constrains": dict({"particle": None, "decay": None}, **cons)})
        hist = ";".join(fmt_step(a, g) for (a, g), _ in path)
        try:
            import contextlib
            import io

            with contextlib.redirect_stdout(io.StringIO()):
                config = models.make_config(d)
                amp = config.get_amplitude()
        except Exception as e:
            coll.found[("ConfigRaises", hist)] = {"observer": "Exception", "history": "config:" + hist, "message": repr(e)[:200], "kind": "exception"}
            continue
        vm = amp.vm
        n += 1
        inv = {v: k for k, v in REAL.items()}
        free_impl = sorted(inv[x] for x in vm.trainable_vars if x in inv)
        free_model = sorted(st["free"])
        problems = []
        if free_impl != free_model or len([x for x in vm.trainable_vars if x in inv]) != len(free_model):
            problems.append("free names: config gives %s, model %s" % (free_impl, free_model))
        # tie classes by variable identity observed through a perturbation
        cls_model = {}
        for k in REAL:
            cls_model.setdefault(st["cell"][k], set()).add(k)
        for members in cls_model.values():
            head = sorted(members)[0]
            old = float(vm.get(REAL[head], val_in_fit=False))
            vm.set(REAL[head], old + 0.37, val_in_fit=False)
            moved = {k for k in REAL if abs(float(vm.get(REAL[k], val_in_fit=False)) - (old + 0.37)) < 1e-12}
            vm.set(REAL[head], old, val_in_fit=False)
            if moved != members:
                problems.append("tie class of %s: config gives %s, model %s" % (head, sorted(moved), sorted(members)))
        # fixed names hold the configured value and are no optimiser coordinate
        free_cells = {st["cell"][x] for x in st["free"]}
        for (act, args), _ in path:
            # (only while the name still owns its variable: a later tie makes it follow the group's head)
            if act == "SetFix" and st["cell"][args[0]] not in free_cells and st["cell"][args[0]] == args[0]:
                if abs(float(vm.get(REAL[args[0]], val_in_fit=False)) - float(st["store"][st["cell"][args[0]]])) > 1e-12:
                    problems.append("fixed value of %s" % args[0])
        # one optimiser step on every coordinate: fixed names stay, tied names stay equal
        before = {k: float(vm.get(REAL[k], val_in_fit=False)) for k in REAL}
        xs = [float(x) + 0.11 * (i + 1) for i, x in enumerate(vm.get_all_val(False))]
        vm.set_all(xs)
        after = {k: float(vm.get(REAL[k], val_in_fit=False)) for k in REAL}
        for k in REAL:
            if st["cell"][k] not in free_cells and abs(after[k] - before[k]) > 1e-12:
                problems.append("fixed %s moved with the optimiser coordinates" % k)
        for members in cls_model.values():
            vals = [after[k] for k in members]
            if max(vals) - min(vals) > 1e-12:
                problems.append("tied %s differ after a step" % sorted(members))
        bm = sorted(k for k in REAL if st["bnd"][k])
        bi = sorted(inv[x] for x in config.bound_dic if x in inv)
        if bm != bi:
            problems.append("bounds: config gives %s, model %s" % (bi, bm))
        if problems:
            sig = ("ConfigBinding", problems[0].split(":")[0])
            cur = coll.found.get(sig)
            if cur is None or len(hist) < len(cur["history"]):
                coll.found[sig] = {"observer": "ConfigBinding", "history": "config:" + hist, "message": "; ".join(problems[:3]), "kind": "projection"}
    ctx.part("config_binding", behaviours=total, replayed=n)
    ctx.count(n, distinct_key="config_binding")


def edge_signature(st, lab):
    """abstract context of a transition: action + what kind of state it starts from"""
    free = set(st["free"])
    cells = st["cell"]
    names = list(cells)
    free_cells = {cells[n] for n in free}
    fixed = [n for n in names if cells[n] not in free_cells]
    tie_groups = {}
    for n in names:
        tie_groups.setdefault(cells[n], []).append(n)
    tied = [g for g in tie_groups.values() if len(g) > 1]
    comp = lambda n: len(n) > 1 and n[-1] in "ri" and n[:-1] in (dict(st["polar"]) if st["polar"] else {})
    pol = dict(st["polar"]) if st["polar"] else {}
    arg0 = lab[1][0] if lab[1] else None
    target = arg0 if isinstance(arg0, str) else (arg0[0] if isinstance(arg0, tuple) and arg0 and isinstance(arg0[0], str) else None)
    # value context of coordinate / standardising actions: a negative radius, a partner of a tie whose other
    # component holds the same number (distinct variables with equal values), a zero component
    val = lambda n: st["store"][cells[n]]
    coord = lab[0] in ("StdPolar", "StdPolarAll", "StandardComplex", "Rp2xy", "Xy2rp", "Rp2xyAll", "Xy2rpAll", "Refresh")
    zs = sorted(pol)
    neg_r = coord and any(pol[z] and val(z + "r") < 0 for z in zs)
    partners_equal = coord and any(
        z < w and ((cells[z + "r"] == cells[w + "r"]) != (cells[z + "i"] == cells[w + "i"]))
        and (val(z + "i") == val(w + "i") if cells[z + "r"] == cells[w + "r"] else val(z + "r") == val(w + "r"))
        for z in zs for w in zs)
    return (
        lab[0],
        neg_r,
        partners_equal,
        bool(fixed),
        bool(tied),
        any(cells[g[0]] not in free_cells for g in tied),                       # a tied group that is fixed
        any(comp(n) for g in tied for n in g),                                   # tie involving complex components
        any(st["bnd"].values()),
        any(v != "None" for v in st["mask"].values()),
        tuple(sorted(pol.values())),
        any(st["store"][cells[n]] != 1 for n in fixed if not comp(n)),           # a fixed real away from its start value
        (target in fixed) if target else None,
        (any(target in g for g in tied)) if target else None,
    )


def step_from(rep, snap_u, st_u, step, on_fail):
    action, args, st = step
    try:
        rep.apply(action, args, st_u)
    except Drift:
        raise
    except Exception as e:
        on_fail("exception", "Exception", "%s raised %r" % (fmt_step(action, args), e))
        return False
    if action == "Refresh":
        mid = rep.snapshot()
        for ob, msg in rep.observe(action, args, snap_u, mid, st_u):
            on_fail("observer", ob, msg)
        return True
    snap = rep.snapshot()
    fails = rep.observe(action, args, snap_u, snap, st_u)
    for ob, msg in fails:
        on_fail("observer", ob, msg)
    try:
        diffs = rep.compare(snap, st)
    except Ambiguous:
        rep.ambiguous = getattr(rep, "ambiguous", 0) + 1
        return False
    if diffs:
        on_fail("projection", "Projection", "; ".join(diffs[:3]))
        return False
    return not fails


def bound_numeric(ctx, quick):
    from tf_pwa.variable import Bound

    kinds = [
        ("two-sided", dict(a=-1.0, b=2.5)),
        ("two-sided", dict(a=0.0, b=1e-3)),
        ("two-sided", dict(a=-2.0, b=0.0)),
        ("lower", dict(a=0.0, b=None)),
        ("upper", dict(a=None, b=0.0)),
        ("lower", dict(a=0.5, b=None)),
        ("upper", dict(a=None, b=-2.0)),
        ("none", dict(a=None, b=None)),
        ("custom", dict(a=0.0, b=3.0, func="x+1")),
        ("custom", dict(a=-1.0, b=1.0, func="a+(b-a)/(1+exp(-x))")),
        ("custom", dict(a=0.0, b=None, func="a+exp(x)")),
    ]
    n = 9 if quick else 41
    nchk = 0
    for kind, kw in kinds:
        bd = Bound(**kw)
        lo = kw["a"] if kw["a"] is not None else (kw["b"] - 5.0 if kw["b"] is not None else -3.0)
        hi = kw["b"] if kw["b"] is not None else (kw["a"] + 5.0 if kw["a"] is not None else 3.0)
        key = "bound:%s:%s" % (kind, kw.get("func", "default"))
        ys = np.linspace(lo, hi, n)
        if kw.get("func") in ("a+(b-a)/(1+exp(-x))", "a+exp(x)"):
            ys = ys[1:-1] if kw["b"] is not None else ys[1:]  # open range: the limits are not attained
        if kind == "custom" and kw.get("func") == "x+1":
            pass
        for y in ys:
            nchk += 1
            x = bd.get_y2x(float(y))
            y2 = bd.get_x2y(x)
            if not (abs(y2 - y) <= 1e-8 * max(1.0, abs(y))):
                ctx.violation(key + ":inverse", {"y": float(y), "x": x, "x2y(y2x(y))": y2})
                break
            # slope = analytic derivative: central difference with Richardson
            h = 1e-4
            d1 = (bd.get_x2y(x + h) - bd.get_x2y(x - h)) / (2 * h)
            d2 = (bd.get_x2y(x + h / 2) - bd.get_x2y(x - h / 2)) / h
            fd = (4 * d2 - d1) / 3
            an = bd.get_dydx(x)
            if abs(fd - an) > 1e-6 * max(1.0, abs(an)):
                ctx.violation(key + ":slope", {"x": x, "dydx": an, "finite_difference": fd})
                break
        # the transformation maps every fit coordinate into the declared range
        for x in np.linspace(-7.3, 7.3, n) if "func" not in kw else ():  # (a custom expression is the user's responsibility)
            nchk += 1
            y = bd.get_x2y(float(x))
            if (kw["a"] is not None and y < kw["a"] - 1e-9 * max(1.0, abs(kw["a"]))) or (kw["b"] is not None and y > kw["b"] + 1e-9 * max(1.0, abs(kw["b"]))):
                ctx.violation(key + ":range", {"x": float(x), "y": y, "bounds": [kw["a"], kw["b"]]})
                break
        # clipping outside the range
        if kw["a"] is not None and kw.get("func") not in ("a+(b-a)/(1+exp(-x))", "a+exp(x)"):
            x_out = bd.get_y2x(kw["a"] - 1.0)
            x_edge = bd.get_y2x(kw["a"])
            nchk += 1
            if abs(x_out - x_edge) > 1e-9:
                ctx.violation(key + ":clip_low", {"y2x(a-1)": x_out, "y2x(a)": x_edge})
        if kw["b"] is not None and kw.get("func") not in ("a+(b-a)/(1+exp(-x))", "a+exp(x)"):
            x_out = bd.get_y2x(kw["b"] + 1.0)
            x_edge = bd.get_y2x(kw["b"])
            nchk += 1
            if abs(x_out - x_edge) > 1e-9:
                ctx.violation(key + ":clip_high", {"y2x(b+1)": x_out, "y2x(b)": x_edge})
        ctx.count(0, distinct_key=key)
    ctx.count(nchk)
    ctx.part("bound_numeric", kinds=len(kinds), points=nchk)


def replay(ctx, path):
    """re-execute the stored behaviour of one reported violation on a real VarsManager"""
    import json

    with open(path) as f:
        j = json.load(f)
    d = j["detail"]
    if "path" not in d or not d.get("names"):
        return run(ctx)
    steps = [tuple(x) for x in tlc.from_jsonable(d["path"])]
    rep = Replayer(d["names"]["reals"], d["names"]["cplx"])
    fails = []
    run_path(rep, steps, lambda kind, ob, i, msg: fails.append((kind, ob, i, msg)))
    ctx.count(len(steps), distinct_key=("replay", j["key"]))
    ctx.count(1, distinct_key=("replay2", j["key"]))
    ctx.cov["states"] = len(steps)
    ctx.cov["transitions"] = len(steps) - 1
    ctx.cov["traces_validated_against_impl"] = 1
    ctx.sample({"replayed": d["history"], "failures": [list(map(str, x)) for x in fails]})
    ctx.cov["rule"] = "replay of one stored behaviour"
    for kind, ob, i, msg in fails:
        ctx.violation(j["key"] if ob == d["observer"] else "%s:%s" % (ob, history_key(steps, i)), {"observer": ob, "message": msg, "history": history_key(steps, i)})
