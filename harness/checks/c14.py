"""C14 -- decay topologies are enumerated and identified correctly.

Spec: spec/Topology.tla (edge-insertion step machine of from_particles, the
declarative canonical forms CF(n), refinement between them, counting law,
identical-particle signatures).  Binding B3 (exact, exhaustive):
the implementation's chain set / topology_same / sorted_table round trip /
class maps are compared entry by entry with the TLC tables.
"""
import itertools
import json
import os
import random

from .. import tlc

LEVEL = "model_checking"


def _cfg(ctx, n, name_n, law_n, post="Post", nxt="Next", view=None):
    p = os.path.join(ctx.work, "topo_%d_%s%s.cfg" % (n, post, "_v" if view else ""))
    with open(p, "w") as f:
        f.write("CONSTANTS N = %d\n NameN = %d\n LawN = %d\nINIT Init\nNEXT %s\n" % (n, name_n, law_n, nxt))
        if nxt == "Next":
            f.write("INVARIANT TypeOK\nINVARIANT BinaryTree\nINVARIANT Refinement\nINVARIANT CanonDetermines\n")
        if view:
            f.write("VIEW %s\n" % view)
        f.write("POSTCONDITION %s\nCHECK_DEADLOCK FALSE\n" % post)
    return p


def dfact(k):
    return 1 if k <= 1 else k * dfact(k - 2)


def canon_of_chain(chain, leaf_id):
    """projection impl -> spec: frozenset of frozensets of leaf ids, from sorted_table()"""
    st = chain.sorted_table()
    out = set()
    for k, v in st.items():
        if k in leaf_id:
            continue
        out.add(frozenset(leaf_id[p] for p in v))
    return frozenset(out)


def tree_of_chain(chain, leaf_id):
    """core leaf set -> set of daughters' leaf sets, from the decays themselves"""
    st = chain.sorted_table()
    ls = {k: frozenset(leaf_id[p] for p in v) for k, v in st.items()}
    return frozenset((ls[d.core], frozenset(ls[o] for o in d.outs)) for d in chain)


def build_chain(form, leaves, top, rename=None, tag="R"):
    """build a real DecayChain for a canonical form (set of leaf-id sets)"""
    from tf_pwa.particle import BaseDecay, BaseParticle, DecayChain

    n = len(leaves)
    full = frozenset(range(1, n + 1))
    groups = sorted(form, key=lambda s: (len(s), sorted(s)))
    part = {}
    for g in groups:
        if g == full:
            part[g] = top
        else:
            nm = "%s_%s" % (tag, "".join(str(i) for i in sorted(g)))
            if rename:
                nm = rename(nm)
            part[g] = BaseParticle(nm)
    for i in range(1, n + 1):
        part[frozenset([i])] = leaves[i - 1]
    allsets = list(form) + [frozenset([i]) for i in range(1, n + 1)]
    decs = []
    for g in sorted(form, key=lambda s: (-len(s), sorted(s))):
        sub = [s for s in allsets if s < g]
        kids = [s for s in sub if not any(s < s2 for s2 in sub)]
        decs.append(BaseDecay(part[g], [part[k] for k in sorted(kids, key=sorted)], disable=True))
    return DecayChain(decs)


def fz(form_json):
    return frozenset(frozenset(g) for g in form_json)


def run(ctx):
    from tf_pwa.particle import BaseParticle, DecayChain, DecayGroup

    quick = ctx.tier == "quick"
    nmax = 6 if quick else 7
    rng = random.Random(ctx.seed)
    forms_by_n = {}
    trees_by_n = {}
    names_tab = {}
    # ---------------- TLC: step machine + declarative forms -----------------
    for n in range(2, nmax + 1):
        r = tlc.run("Topology", _cfg(ctx, n, 5, 7), work=ctx.work, workers=16, timeout=1800)
        if r.violation:
            raise tlc.MachineryError("Topology spec violates its own invariant %s at N=%d" % (r.violation, n))
        ctx.tlc(r, "Topology N=%d" % n, vacuity_actions=["Next"] if n > 1 else None)
        expect_states = sum(dfact(2 * k - 3) for k in range(1, n + 1))
        if r.distinct != expect_states or r.generated != r.distinct:
            raise tlc.MachineryError("Topology N=%d: %d distinct/%d generated states, expected %d" % (n, r.distinct, r.generated, expect_states))
        # VIEW on the canonical form: distinct canonical forms per level must
        # equal the number of graphs (no two graphs share a canonical form)
        rv = tlc.run("Topology", _cfg(ctx, n, 0, 0, view="CanonView"), work=ctx.work, workers=16, timeout=1800, coverage=False)
        if rv.distinct != expect_states:
            raise tlc.MachineryError("Topology N=%d: canonical forms collide (%d != %d)" % (n, rv.distinct, expect_states))
        forms = [fz(f) for f in r.out["forms"]]
        assert len(set(forms)) == len(forms) == dfact(2 * n - 3) == r.out["dfact"]
        forms_by_n[n] = forms
        trees_by_n[n] = {fz(c): frozenset((frozenset(T), frozenset(frozenset(k) for k in kids)) for T, kids in tr) for c, tr in r.out["trees"]}
        if n <= 5:
            nt = r.out["names"]
            tforms = [fz(f) for f in nt["forms"]]
            names_tab[n] = (tforms, [(tuple(nm), [json.dumps(s, sort_keys=True) for s in sigs]) for nm, sigs in nt["namings"]])
    ctx.cov["exhaustive"] = True
    ctx.part("tlc", max_n=nmax, forms={n: len(f) for n, f in forms_by_n.items()})

    # ---------------- B3.1 from_particles == CF(n) --------------------------
    chains_by_n = {}
    for n in range(2, nmax + 1):
        top = BaseParticle("A")
        leaves = [BaseParticle("f%d" % i) for i in range(1, n + 1)]
        leaf_id = {p: i + 1 for i, p in enumerate(leaves)}
        chains = DecayChain.from_particles(top, leaves)
        canon = [canon_of_chain(c, leaf_id) for c in chains]
        exp = set(forms_by_n[n])
        key = "from_particles:n=%d" % n
        ctx.count(len(chains), distinct_key=("fp", n))
        if len(chains) != dfact(2 * n - 3):
            ctx.violation(key + ":count", {"got": len(chains), "expected": dfact(2 * n - 3)})
        if len(set(canon)) != len(canon):
            ctx.violation(key + ":duplicates", {"distinct": len(set(canon)), "chains": len(canon)})
        if len(set(chains)) != len(chains):
            ctx.violation(key + ":equal_chain_objects", {"distinct": len(set(chains))})
        if set(canon) != exp:
            miss = [sorted(map(sorted, f)) for f in list(exp - set(canon))[:3]]
            extra = [sorted(map(sorted, f)) for f in list(set(canon) - exp)[:3]]
            ctx.violation(key + ":set", {"missing": miss, "extra": extra})
        for c, cf in zip(chains, canon):
            ok = c.top == top and sorted(c.outs) == sorted(leaves) and len(c.chain) == n - 1 and all(len(d.outs) == 2 for d in c)
            if ok and cf in trees_by_n[n]:
                ok = tree_of_chain(c, leaf_id) == trees_by_n[n][cf]
            if not ok:
                ctx.violation(key + ":shape", {"chain": str(c)})
                break
        chains_by_n[n] = (top, leaves, leaf_id, chains, canon)
        if n == 4:
            ctx.sample({"n": 4, "chain": str(chains[0]), "canonical": sorted(map(sorted, canon[0]))})

    # ---------------- B3.2 sorted_table <-> chain ----------------------------
    nrt = 0
    for n in range(2, min(nmax, 6) + 1):
        top, leaves, leaf_id, chains, canon = chains_by_n[n]
        for c, cf in zip(chains, canon):
            st = c.sorted_table()
            try:
                c2 = DecayChain.from_sorted_table(st)
                good = c2 == c and canon_of_chain(c2, leaf_id) == cf and tree_of_chain(c2, leaf_id) == trees_by_n[n].get(cf)
            except Exception as e:
                good = False
            nrt += 1
            if not good:
                ctx.violation("roundtrip:n=%d:%s" % (n, sorted(map(sorted, cf))), {"chain": str(c)})
                break
        # chains built from the TLC form (other decay order / inner names) give the TLC form back
        for f in forms_by_n[n][: (200 if quick else 2000)]:
            ch = build_chain(f, leaves, top)
            nrt += 1
            if canon_of_chain(ch, leaf_id) != f or tree_of_chain(ch, leaf_id) != trees_by_n[n][f]:
                ctx.violation("table_of_built_chain:n=%d:%s" % (n, sorted(map(sorted, f))), {"chain": str(ch)})
                break
    ctx.count(nrt, distinct_key="roundtrip")
    ctx.part("roundtrip", chains=nrt)

    # ---------------- B3.3 topology_same, all pairs, all namings, n <= 5 -----
    npairs = 0
    for n in sorted(names_tab):
        tforms, namings = names_tab[n]
        top = BaseParticle("A")
        for nm, sigs in namings:
            # identical particles: same name, different id ("x1:1", "x1:2")
            cnt = {}
            leaves = []
            for i, g in enumerate(nm):
                cnt[g] = cnt.get(g, 0) + 1
                leaves.append(BaseParticle("x%d:%d" % (g, cnt[g])))
            chains = [build_chain(f, leaves, top, tag="R%d" % (j % 3)) for j, f in enumerate(tforms)]
            bad = None
            for i in range(len(chains)):
                for j in range(i, len(chains)):
                    npairs += 1
                    exp_id = sigs[i] == sigs[j]
                    exp_plain = i == j
                    got_id = chains[i].topology_same(chains[j], identical=True)
                    got_plain = chains[i].topology_same(chains[j], identical=False)
                    if got_id != exp_id or got_plain != exp_plain:
                        bad = (i, j, got_id, exp_id, got_plain, exp_plain)
                        break
                if bad:
                    break
            if bad:
                i, j = bad[0], bad[1]
                ctx.violation(
                    "topology_same:n=%d:naming=%s" % (n, "".join(map(str, nm))),
                    {"a": str(chains[i]), "b": str(chains[j]), "identical": [bad[2], bad[3]], "plain": [bad[4], bad[5]]},
                )
            ctx.count(0, distinct_key=("naming", n, nm))
    ctx.count(npairs)
    ctx.part("topology_same_tables", pairs=npairs)

    # ---------------- B3.4 sampled pairs n = 6, 7 via TLC pair mode ----------
    for n in range(6, nmax + 1):
        k = 3000 if quick else 50000
        forms = forms_by_n[n]
        pairs = []
        for _ in range(k):
            a = rng.choice(forms)
            # half of the pairs: b = a with two leaves swapped (often same signature under namings)
            if rng.random() < 0.5:
                x, y = rng.sample(range(1, n + 1), 2)
                sw = {x: y, y: x}
                b = frozenset(frozenset(sw.get(l, l) for l in g) for g in a)
            else:
                b = rng.choice(forms)
            ngroups = rng.randint(1, n)
            nm = [rng.randint(1, ngroups) for _ in range(n)]
            # restricted growth normalisation
            ren = {}
            nm = [ren.setdefault(v, len(ren) + 1) for v in nm]
            pairs.append((a, b, nm))
        inp = os.path.join(ctx.work, "pairs_%d.json" % n)
        with open(inp, "w") as f:
            json.dump([{"a": [sorted(g) for g in a], "b": [sorted(g) for g in b], "nm": nm} for a, b, nm in pairs], f)
        r = tlc.run("Topology", _cfg(ctx, n, 0, 0, post="PairsPost", nxt="Stutter"), work=ctx.work, workers=1, env={"IN_FILE": inp}, coverage=False, timeout=1800)
        verd = r.out["verdicts"]
        top = BaseParticle("A")
        nsame = 0
        for (a, b, nm), (exp_id, exp_plain) in zip(pairs, verd):
            cnt = {}
            leaves = []
            for g in nm:
                cnt[g] = cnt.get(g, 0) + 1
                leaves.append(BaseParticle("x%d:%d" % (g, cnt[g])))
            ca, cb = build_chain(a, leaves, top, tag="R"), build_chain(b, leaves, top, tag="S")
            got_id = ca.topology_same(cb, identical=True)
            got_plain = ca.topology_same(cb, identical=False)
            nsame += int(exp_id)
            if got_id != exp_id or got_plain != exp_plain:
                ctx.violation("topology_same:n=%d:sampled" % n, {"a": str(ca), "b": str(cb), "naming": nm, "identical": [got_id, exp_id], "plain": [got_plain, exp_plain]})
                break
        ctx.count(len(pairs), distinct_key=("pairs", n))
        ctx.part("topology_same_sampled_n%d" % n, pairs=len(pairs), expected_same=nsame)
        if nsame == 0 or nsame == len(pairs):
            raise tlc.MachineryError("vacuous pair sample n=%d" % n)

    # ---------------- B3.5 decay groups: classes and particle maps -----------
    ngroups = 300 if quick else 3000
    nchk = 0
    for gi in range(ngroups):
        n = rng.choice([3, 4, 4, 5, 5] + ([6] if not quick else []))
        forms = forms_by_n[n]
        ident = rng.random() < 0.3
        if ident:
            names = ["pi:1", "pi:2"] + ["h%d" % i for i in range(3, n + 1)]
            rng.shuffle(names)
        else:
            names = ["h%d" % i for i in range(1, n + 1)]
        top = BaseParticle("A")
        leaves = [BaseParticle(x) for x in names]
        leaf_id = {p: i + 1 for i, p in enumerate(leaves)}
        size = rng.randint(1, 6)
        sel = [rng.choice(forms[: max(4, len(forms) // 3)]) for _ in range(size)]
        chains = []
        for j, f in enumerate(sel):
            chains.append(build_chain(f, leaves, top, tag="Res%d" % j))
        key = "group:n=%d:%s:forms=%s" % (n, "ident" if ident else "plain", [sorted(map(sorted, f)) for f in sel])
        try:
            dg = DecayGroup(chains)
            struct = dg.topology_structure()
            cmap = dg.get_chains_map()
        except Exception as e:
            ctx.violation(key[:150], {"error": repr(e), "chains": [str(c) for c in chains]})
            continue
        nchk += 1
        distinct_forms = []
        for f in sel:
            if f not in distinct_forms:
                distinct_forms.append(f)
        problems = []
        if len(struct) != len(distinct_forms):
            problems.append("classes=%d expected=%d" % (len(struct), len(distinct_forms)))
        if len(cmap) != len(struct):
            problems.append("maps=%d" % len(cmap))
        # every chain in exactly one class
        for c, f in zip(chains, sel):
            where = [k for k, m in enumerate(cmap) if c in m]
            if len(where) != 1:
                problems.append("chain %s in classes %s" % (c, where))
                continue
            m = cmap[where[0]][c]
            std = struct[where[0]]
            # the class is the chain's own canonical form
            if canon_of_chain(std, leaf_id) != f:
                problems.append("chain %s assigned to class with other groupings" % c)
            # particle map: standard-topology particle -> chain particle, bijective on particles, preserves edges
            pm = {k: v for k, v in m.items() if isinstance(k, BaseParticle)}
            tgt_particles = set(c.get_all_particles())
            if set(pm.values()) != tgt_particles or len(set(pm.values())) != len(pm):
                problems.append("map of %s not a bijection onto its particles" % c)
                continue
            for d in std:
                img = (pm[d.core], frozenset(pm[o] for o in d.outs))
                if not any(img == (e.core, frozenset(e.outs)) for e in c):
                    problems.append("map of %s does not preserve %s" % (c, d))
            # the decay entries of the map agree with the particle map
            for d in std:
                if d not in m or m[d].core != pm[d.core]:
                    problems.append("decay map of %s wrong at %s" % (c, d))
        # the canonical (standard-topology) particles name the groupings: across the classes of a
        # group one standard particle must stand for one grouping only (they key the angle data)
        name_to_group = {}
        for std in struct:
            tab = std.sorted_table()
            for part, leaves_of in tab.items():
                g = frozenset(leaf_id[p] for p in leaves_of)
                if name_to_group.setdefault(part, g) != g:
                    problems.append("standard particle %s stands for two groupings %s and %s" % (part, sorted(name_to_group[part]), sorted(g)))
        # ... and the standard topology of a chain has the chain's own canonical form and round-trips
        for c, f in zip(chains, sel):
            std = c.standard_topology()
            if canon_of_chain(std, leaf_id) != f or not std.topology_same(c, False) or not c.topology_same(std, True):
                problems.append("standard_topology of %s has other groupings" % c)
        # the class structure does not depend on what was asked of the group before: identical=True first, then the
        # default again on the same object, and the other order on a fresh group
        try:
            def assign(cm):
                return [tuple(k for k, m in enumerate(cm) if c in m) for c in chains]

            first = (len(struct), assign(cmap))
            s_id = dg.topology_structure(identical=True)
            again = (len(dg.topology_structure()), assign(dg.get_chains_map()))
            if again != first:
                problems.append("classes after topology_structure(identical=True) on the same group: %s, before: %s" % (again, first))
            dg_b = DecayGroup(chains)
            s_id_b = dg_b.topology_structure(identical=True)
            then_default = (len(dg_b.topology_structure()), assign(dg_b.get_chains_map()))
            if len(s_id_b) != len(s_id) or then_default != first:
                problems.append("fresh group, identical=True first: %d classes (same object gave %d); then default %s, expected %s" % (len(s_id_b), len(s_id), then_default, first))
        except Exception as e:  # noqa: BLE001
            problems.append("repeated topology_structure raises %r" % (e,))
        # the node map between two chains of one topology does not depend on the order in which the other chain lists
        # the daughters of a decay (a chain rebuilt from its own table lists them in table order)
        from tf_pwa.particle import DecayChain as _DC

        for c in chains:
            try:
                c2 = _DC.from_sorted_table(c.sorted_table())
                m = c.topology_map(c2)
                lost = [str(d) for d in c if d not in m]
                imgs = list(c2)
                wrong = [str(d) for d in c if d in m and not any(m[d] is e or m[d] == e for e in imgs)]
                if lost or wrong:
                    problems.append("topology_map(%s -> rebuilt from its table): decays without image %s, with a foreign image %s" % (c, lost[:3], wrong[:3]))
            except Exception as e:  # noqa: BLE001
                problems.append("topology_map against the rebuilt chain raises %r" % (e,))
        if problems:
            ctx.violation(key[:150], {"problems": problems[:5], "chains": [str(c) for c in chains]})
        if gi == 0:
            ctx.sample({"group": [str(c) for c in chains], "classes": len(struct)})
    ctx.count(nchk, distinct_key="groups")
    ctx.part("groups", checked=nchk)

    ctx.cov["traces_validated_against_impl"] = sum(len(v[3]) for v in chains_by_n.values())
    ctx.cov["rule"] = (
        "TLC enumerates every state of the edge-insertion machine for n=2..%d (one state per partial graph; "
        "invariants TypeOK, BinaryTree, Refinement(canon=Canon(edges)), CanonDetermines) and the declarative "
        "forms CF(n) with the counting law; the harness compares from_particles, sorted_table/from_sorted_table, "
        "topology_same (all pairs x all 52 leaf namings for n<=5, sampled pairs via TLC pair mode for n>=6) and "
        "DecayGroup class maps with those tables. distinct = distinct (part, n, naming) cells" % nmax
    )
    ctx.assume("inner-particle names do not influence topology identification (chains are built with several naming schemes)")
    ctx.assume("identical particles are modelled as BaseParticle('name:id') with equal name and different id")


def replay(ctx, path):
    run(ctx)
