"""C20 -- samplers, histograms and adaptive bins reproduce their targets.

Specification: spec/Sampler.tla (accept-reject with a running bound as a step
machine: Batch / Thin / Truncate; variants multi_sampling and interp_sample_f),
spec/TraceSampler.tla (trace validation, B2), spec/CdfInvert.tla (exact
cumulative function of a piecewise-linear density on rational grids),
spec/Bins.tla (postconditions of adaptive splitting and weighted histograms
on enumerated integer data sets).

Binding:
 B2  instrumented phsp / amp callables passed to the real multi_sampling (and
     instrumented f / f_interp passed to interp_sample_f) record every batch;
     TraceSampler must accept every trace (thorough: binding demonstration,
     corrupted records must be rejected).
 B3  TLC's (grid, x, u) pairs against LinearInterp.solve / integral; TLC's
     data-set cases against AdaptiveBound.get_bool_mask / split_data and
     Hist1D.histogram.
 statistical part (exploration level): exact binomial tests of class
     fractions, chi^2 of the accepted Dalitz histogram of a real model
     against the weighted phase-space expectation; BWGenerator / InterpND.
"""
import contextlib
import copy
import io
import json
import math
import os
from fractions import Fraction

import numpy as np

from .. import sampler_c20 as S
from .. import tlc

LEVEL = "model_checking"

# false-alarm budget of the whole check: 1e-9.  Exact tests share 5e-10
# (Bonferroni over the tests actually performed, at most N_EXACT_MAX), every
# asymptotic chi^2 test uses 1e-12 (at most 100 of them: 1e-10 nominal, the
# rest of the budget is margin for the chi^2 approximation).
ALPHA_EXACT = 5e-10 / 200
ALPHA_CHI2 = 1e-12


def _quiet():
    return contextlib.redirect_stdout(io.StringIO())


# ==========================================================================
# part 1: the specification itself
# ==========================================================================
def _sampler_cfg(ctx, name, variant, nset, maxw, maxlen, maxb, unums, ubounds, imps=(2,)):
    p = os.path.join(ctx.work, name)
    with open(p, "w") as f:
        f.write(
            'CONSTANTS\n Variant = "%s"\n NSet = {%s}\n MaxW = %d\n ImpNums = {%s}\n ImpDen = 2\n MaxLen = %d\n MaxBatches = %d\n UNums = {%s}\n UDen = %d\n'
            " UserBounds = {%s}\n PhNSet = {1}\n PhCap = 3\n PhMaxRefill = 1\n PhMaxNodes = 1\n"
            "INIT InitAR\nNEXT NextAR\n"
            "INVARIANT ArTypeOK\nINVARIANT BoundGeWeight\nINVARIANT Proportional\nINVARIANT ThinIsProbability\n"
            "INVARIANT CountConsistent\nINVARIANT LoopExit\nINVARIANT ResultLength\nINVARIANT ResultIsPrefix\nINVARIANT Ordered\n"
            "CHECK_DEADLOCK FALSE\n"
            % (variant, ",".join(map(str, nset)), maxw, ",".join(map(str, imps)), maxlen, maxb, ",".join(map(str, unums)), S.UDEN, ",".join(map(str, ubounds)))
        )
    return p


def part_spec(ctx):
    quick = ctx.tier == "quick"
    # imps: importance values k/2; (2,) = no importance function
    runs = [
        ("multi", "NextAR", [1, 2, 3], 3, 2, 3 if quick else 4, [0, 8, 15], [2, 3], (2,)),
        ("interp", "NextAR", [1, 2, 3], 3, 2, 3 if quick else 4, [0, 8, 15], [], (2,)),
        # importance-weighted sampling: amplitudes 0..2, importance 1/2, 1, 2 (effective weights 0..4)
        ("multi", "NextAR", [1, 2], 2, 2, 2 if quick else 3, [0, 8, 15], [2], (1, 2, 4)),
    ]
    if not quick:  # the general actions (bounds chosen freely among admissible values)
        runs.append(("multi", "NextARG", [1, 2], 3, 2, 2, [0, 8, 15], [2, 3], (2,)))
        runs.append(("interp", "NextARG", [1, 2], 3, 2, 2, [0, 8, 15], [], (2,)))
    for variant, nxt, nset, maxw, maxlen, maxb, unums, ub, imps in runs:
        withimp = len(imps) > 1
        cfg = _sampler_cfg(ctx, "sampler_%s_%s_%d.cfg" % (variant, nxt, len(imps)), variant, nset, maxw, maxlen, maxb, unums, ub, imps)
        if nxt != "NextAR":
            with open(cfg) as f:
                txt = f.read().replace("NEXT NextAR", "NEXT " + nxt)
            with open(cfg, "w") as f:
                f.write(txt)
        r = S.fix_coverage(tlc.run("Sampler", cfg, work=ctx.work, workers=16, timeout=1700))
        if r.violation:
            raise tlc.MachineryError("Sampler (%s, %s) violates its own invariant %s: %s" % (variant, nxt, r.violation, r.trace[-1:] if r.trace else ""))
        general = nxt == "NextARG"
        ctx.tlc(r, "Sampler AR %s %s%s" % (variant, nxt, " importance" if withimp else ""), vacuity_actions=["BatchGStep" if general else "BatchG", "ThinGStep" if general else "ThinStep", "Truncate"])
        ctx.part("spec_sampler_%s%s%s" % (variant, "_general" if general else "", "_importance" if withimp else ""), states=r.distinct, batches=r.coverage.get("BatchGStep" if general else "BatchG", 0),
                 thins=r.coverage.get("ThinGStep" if general else "ThinStep", 0), truncations=r.coverage.get("Truncate", 0), max_batches=maxb, max_weight=maxw)


# ==========================================================================
# part 2: B2 trace validation of multi_sampling / interp_sample_f
# ==========================================================================
UNUMS = [0, 3, 8, 13, 15]


def _trace_key(variant, tr, k, reason):
    ev = tr["ev"]
    what = ev[k]["a"] if k < len(ev) else "NotTerminated"
    if reason.startswith("invariant"):
        what = reason.replace(" ", "=")
    return "trace:%s:%s" % (variant, what)


def part_traces(ctx, rng):
    quick = ctx.tier == "quick"
    n_multi = 150 if quick else 1500
    n_interp = 150 if quick else 1200
    traces = []
    crashed = 0
    for j in range(n_multi):
        controlled = j % 3 != 0
        b0 = [None, None, 2, 3, 1, None][j % 6]
        maxw = 3 if j % 2 else 4
        rec = S.ARRecorder(rng, maxw, UNUMS, controlled=controlled)
        N = int(rng.integers(1, 7))
        max_n = int(rng.integers(1, 6))
        importance = j % 5 in (1, 3)  # 40 % of the traces pass an importance function
        try:
            tr, ids = rec.multi(N, max_n, bound0=b0, bound_kind="tensor", importance=importance)
        except tlc.MachineryError:
            raise
        except Exception as e:  # the real sampler raised
            crashed += 1
            ctx.violation("multi_sampling:raise:%s" % type(e).__name__, {"N": N, "max_N": max_n, "bound0": b0, "error": repr(e), "batches": rec.batch_ws[:6]})
            continue
        # the property, read off the implementation directly (independent of the specification)
        if len(ids) != N:
            ctx.violation("multi_sampling:count", {"N": N, "returned": len(ids), "trace": tr})
        if len(set(map(tuple, ids))) != len(ids):
            ctx.violation("multi_sampling:duplicate_events", {"N": N, "ids": ids})
        # "no accepted event has a weight above the bound it was accepted with": effective weight amp / importance
        for e in tr["ev"]:
            if e["a"] == "Batch":
                eff = [Fraction(a) / Fraction(*g) for a, g in zip(e["as"], e["ims"])]
                over = [i for i in e["acc"] if eff[i - 1] > Fraction(*e["local"])]
                if over:
                    ctx.violation("multi_sampling:accepted_weight_above_bound%s" % (":importance_f" if importance else ""),
                                  {"amplitudes": e["as"], "importances": e["ims"], "accepted": e["acc"], "bound": e["local"], "positions_above_bound": over})
                    break
        traces.append(tr)
        if j == 1:
            ctx.sample({"trace_multi_sampling": tr})
    acc, rej = S.validate(ctx, traces, "multi", "multi")
    for tr, k, reason in rej:
        ctx.violation(_trace_key("multi", tr, k, reason), {"trace": tr, "first_unmatched_record": k, "reason": reason})
    n_thin = sum(any(e["a"] == "Thin" for e in t["ev"]) for t in traces)
    n_raise_user = sum(1 for t in traces if t["hasB"] and any(e["a"] == "Batch" and e["hasBin"] and Fraction(*e["local"]) != Fraction(*e["bin"]) for e in t["ev"]))
    n_imp = sum(1 for t in traces if t["importance"])
    n_imp_decisive = sum(1 for t in traces if t["importance"] and any(
        e["a"] == "Batch" and max(Fraction(a) / Fraction(*g) for a, g in zip(e["as"], e["ims"])) > max(e["as"]) for e in t["ev"]))
    if (n_imp_decisive == 0) and not ctx.violations:
        raise tlc.MachineryError("no trace in which the largest effective weight exceeds the largest amplitude")
    ctx.part("traces_multi", with_importance_f=n_imp, importance_raises_maximum=n_imp_decisive, model_drift=sum(S.drift_of(t, "multi") for t in traces), recorded=len(traces), accepted=acc, rejected=len(rej), with_thinning=n_thin, user_bound_raised=n_raise_user, exact_random_numbers=sum(1 for t in traces if t["exact"]))
    if (n_thin == 0 or n_raise_user == 0) and not ctx.violations:
        raise tlc.MachineryError("trace driver never reached thinning / raising of a user bound")
    ctx.count(len(traces), distinct_key="traces_multi")
    total = acc

    itraces = []
    for j in range(n_interp):
        mw = 3 if j % 2 else 4
        rec = S.ARRecorder(rng, mw, UNUMS, controlled=True, weight_probs=[0.1] + [0.9 / mw] * mw)  # few zero weights
        N = int(rng.integers(2, 8))
        try:
            tr, ids = rec.interp(N)
        except tlc.MachineryError:
            raise
        except Exception as e:
            ctx.violation("interp_sample_f:raise:%s" % type(e).__name__, {"N": N, "error": repr(e)})
            continue
        if len(ids) != N:
            ctx.violation("interp_sample_f:count", {"N": N, "returned": len(ids), "trace": tr})
        itraces.append(tr)
        if j == 0:
            ctx.sample({"trace_interp_sample_f": tr})
    acc, rej = S.validate(ctx, itraces, "interp", "interp")
    for tr, k, reason in rej:
        ctx.violation(_trace_key("interp", tr, k, reason), {"trace": tr, "first_unmatched_record": k, "reason": reason})
    n_thin_i = sum(any(e["a"] == "Thin" for e in t["ev"]) for t in itraces)
    ctx.part("traces_interp", model_drift=sum(S.drift_of(t, "interp") for t in itraces), recorded=len(itraces), accepted=acc, rejected=len(rej), with_thinning=n_thin_i)
    if n_thin_i == 0 and not ctx.violations:
        raise tlc.MachineryError("interp trace driver never reached thinning")
    ctx.count(len(itraces), distinct_key="traces_interp")
    total += acc
    ctx.cov["traces_validated_against_impl"] += total

    # a bound given as a Python float (ARGenerator(..., max_weight=1.0) in the repository does so)
    part_float_bound(ctx)

    # ---- binding demonstration: corrupted records must be rejected
    if not quick:
        good = [t for t in traces if any(e["a"] == "Thin" for e in t["ev"])][:3] + [t for t in traces if len(t["ev"]) >= 3][:3]
        demos = []
        for j, t in enumerate(good):
            t = copy.deepcopy(t)
            if j % 3 == 0:  # final bound
                t["ev"][-1]["bound"][0] += 1
                what = "final bound"
            elif j % 3 == 1:  # accepted positions of the first batch
                e = t["ev"][0]
                e["acc"] = [x for x in range(1, len(e["as"]) + 1) if x not in e["acc"]]  # the complement: never equal
                what = "accepted positions"
            else:  # one weight
                e = t["ev"][0]
                e["as"][0] = e["as"][0] + 1000  # effective weight above the logged bound whatever the importance
                what = "weight"
            demos.append((what, t))
        n_rej = 0
        missed = []
        for what, t in demos:
            a, rj = S.validate(ctx, [t], "multi", "demo")
            n_rej += 1 if rj else 0
            if not rj:
                missed.append(what)
        # one wrapper removed: a trace without its Thin records must not be accepted
        t = copy.deepcopy(good[0])
        t["ev"] = [e for e in t["ev"] if e["a"] != "Thin"]
        a, rj = S.validate(ctx, [t], "multi", "demo")
        n_rej += 1 if rj else 0
        ctx.part("binding_demo", corrupted=len(demos) + 1, rejected=n_rej)
        if n_rej != len(demos) + 1:
            raise tlc.MachineryError("binding demonstration failed: %d of %d corrupted traces were accepted %s" % (len(demos) + 1 - n_rej, len(demos) + 1, missed))


def part_float_bound(ctx):
    """max_weight passed as a Python float; the second batch exceeds it"""
    import tensorflow as tf
    from tf_pwa.generator.generator import multi_sampling

    calls = [0]

    def phsp(n):
        calls[0] += 1
        w = np.ones(n)
        if calls[0] >= 2:
            w[0] = 5.0
        return {"w": tf.constant(w)}

    for kind, b in (("float", 2.0), ("tensor", tf.constant(2.0, dtype="float64"))):
        calls[0] = 0
        try:
            ret, st = multi_sampling(phsp, lambda d: d["w"], 50, max_N=20, max_weight=b, display=False)
            n = int(ret["w"].shape[0])
            ok = n == 50
            err = None
        except Exception as e:
            ok, n, err = False, None, repr(e)
        ctx.count(1, distinct_key=("float_bound", kind))
        if not ok:
            ctx.violation("multi_sampling:%s_max_weight:raised_in_later_batch" % kind, {"N": 50, "returned": n, "error": err, "max_weight": 2.0})


# ==========================================================================
# part 3: piecewise-linear CDF inversion (B3, exact pairs)
# ==========================================================================
def _cdf_cfg(ctx, quick):
    p = os.path.join(ctx.work, "cdf.cfg")
    with open(p, "w") as f:
        f.write(
            "CONSTANTS\n XMax = 4\n XDens = {1, 2}\n YMax = 2\n YDens = {1, 3}\n MaxNodes = %d\n Sub = %d\n"
            "INIT Init\nNEXT Next\nINVARIANT Positive\nINVARIANT EndPoints\nINVARIANT Monotone\nINVARIANT StrictOffZero\nINVARIANT NodeContinuity\n"
            "POSTCONDITION Post\nCHECK_DEADLOCK FALSE\n" % (4 if quick else 5, 2 if quick else 3)
        )
    return p


def part_cdf(ctx, rng):
    from tf_pwa.generator.linear_interpolation import LinearInterp

    quick = ctx.tier == "quick"
    ngr = 300 if quick else 3000
    sel = [[int(rng.integers(0, 10**6)) for _ in range(4)] for _ in range(ngr)]
    inp = os.path.join(ctx.work, "cdf_sel.json")
    with open(inp, "w") as f:
        json.dump({"idx": sel}, f)
    r = tlc.run("CdfInvert", _cdf_cfg(ctx, quick), work=ctx.work, workers=16, env={"IN_FILE": inp}, timeout=1500, coverage=False)
    if r.violation:
        raise tlc.MachineryError("CdfInvert violates its own theorem %s" % r.violation)
    ctx.tlc(r, "CdfInvert")
    rows = r.out["rows"]
    npairs = nuniq = nzero = nskip = nnan = 0
    worst = 0.0
    seen = set()
    for row in rows:
        xs = [Fraction(*v) for v in row["xs"]]
        ys = [Fraction(*v) for v in row["ys"]]
        gkey = "grid:x=%s:y=%s" % (",".join(map(str, xs)), ",".join(map(str, ys)))
        if gkey in seen:
            continue
        seen.add(gkey)
        total = Fraction(*row["total"])
        li = LinearInterp(np.array([float(v) for v in xs]), np.array([float(v) for v in ys]))
        span = float(xs[-1] - xs[0])
        cum = [Fraction(0)]
        for i in range(len(xs) - 1):
            cum.append(cum[-1] + (ys[i] + ys[i + 1]) * (xs[i + 1] - xs[i]) / 2)
        if cum[-1] != total:
            raise tlc.MachineryError("CdfInvert total disagrees with the trapezoid sum")
        if abs(li.int_all - float(total)) > 1e-9 * float(total):
            ctx.violation(gkey + ":total", {"int_all": li.int_all, "expected": float(total)})
            continue
        ctx.count(0, distinct_key=gkey)
        for x, u, inzero in row["pts"]:
            x, u = Fraction(*x), Fraction(*u)
            if u == 1 and row["lastzero"]:
                nskip += 1  # u = 1 is outside random()'s range [0, 1); with a trailing zero segment its inverse is the whole segment
                continue
            npairs += 1
            with np.errstate(all="ignore"):
                got = float(li.solve(np.array([float(u)]))[0])
            pkey = gkey + ":u=%s" % u
            if not np.isfinite(got) or got < float(xs[0]) - 1e-9 * span or got > float(xs[-1]) + 1e-9 * span:
                # u is the cumulative value at a node where the density vanishes: the discriminant of
                # solve is analytically 0 there and rounds to a negative number (one root cause, one key)
                at_zero_node = any(ys[i] == 0 and cum[i] == u * total for i in range(len(xs)))
                if np.isnan(got) and at_zero_node:
                    nnan += 1
                    ctx.violation("LinearInterp.solve:nan:u_at_zero_density_node", {"x_nodes": [float(v) for v in xs], "y_nodes": [float(v) for v in ys], "u": float(u), "solve": got})
                else:
                    ctx.violation(pkey + ":range", {"solve": got, "x": float(x), "u": float(u)})
                continue
            back = float(li.integral(np.array([got]))[0])
            if abs(back - float(u * total)) > 1e-9 * float(total):
                ctx.violation(pkey + ":integral", {"solve": got, "integral(solve)": back, "expected": float(u * total)})
                continue
            fwd = float(li.integral(np.array([float(x)]))[0])
            if abs(fwd - float(u * total)) > 1e-9 * float(total):
                ctx.violation(pkey + ":integral_at_x", {"x": float(x), "integral": fwd, "expected": float(u * total)})
                continue
            if inzero:
                nzero += 1
                continue
            # density at x: an isolated zero of the density makes the inverse ill-conditioned (square root)
            dens = None
            for i in range(len(xs) - 1):
                if xs[i] <= x <= xs[i + 1]:
                    d = ys[i] + (ys[i + 1] - ys[i]) * (x - xs[i]) / (xs[i + 1] - xs[i])
                    dens = d if dens is None else max(dens, d)
            tol = 1e-9 * span if dens and dens > 0 else 1e-6 * span
            nuniq += 1
            worst = max(worst, abs(got - float(x)) / span if dens and dens > 0 else 0.0)
            if abs(got - float(x)) > tol:
                ctx.violation(pkey + ":solve", {"solve": got, "x": float(x), "u": float(u), "density_at_x": float(dens or 0)})
    ctx.count(npairs)
    ctx.part("cdf_pairs", grids=len(seen), pairs=npairs, unique_inverse=nuniq, in_zero_segment=nzero, skipped_u1_trailing_zero=nskip, nan_at_zero_density_node=nnan, worst_rel_error=worst)
    ctx.sample({"cdf_row": {k: rows[len(rows) // 2][k] for k in ("xs", "ys", "total")}, "pts": rows[len(rows) // 2]["pts"][:4]})
    ctx.cov["traces_validated_against_impl"] += npairs
    ctx.assume("LinearInterp.solve is judged for u in [0, 1) (numpy.random.random); u = 1 is checked unless the last segment has zero density")


# ==========================================================================
# part 4: Breit-Wigner and N-dimensional interpolation samplers
# ==========================================================================
def part_bw_interpnd(ctx, rng):
    from tf_pwa.generator.breit_wigner import BWGenerator
    from tf_pwa.generator.interp_nd import InterpND

    quick = ctx.tier == "quick"
    nbw = 0
    for m0, g0, lo, hi in [(1.0, 0.1, 0.5, 1.5), (1.0, 0.001, 0.2, 3.0), (0.1, 0.5, 0.3, 2.0), (5.0, 0.3, 0.3, 2.0), (1.0, 0.1, 0.999, 1.001), (2.0, 2.0, 0.0, 10.0)]:
        key = "BW:m0=%g,g0=%g,range=%g..%g" % (m0, g0, lo, hi)
        g = BWGenerator(m0, g0, lo, hi)
        u = np.concatenate([np.linspace(0, 1, 257), rng.random(2000 if quick else 50000)])
        x = g.solve(u)
        nbw += len(u)
        ctx.count(len(u), distinct_key=key)
        if not np.all(np.isfinite(x)) or x.min() < lo - 1e-9 * (hi - lo) or x.max() > hi + 1e-9 * (hi - lo):
            ctx.violation(key + ":range", {"min": float(np.nanmin(x)), "max": float(np.nanmax(x))})
            continue
        cdf = (g.integral(x) - g.integral(lo)) / g.int_all
        bad = np.abs(cdf - u) > 1e-9
        if bad.any():
            i = int(np.argmax(np.abs(cdf - u)))
            ctx.violation(key + ":inverse", {"u": float(u[i]), "solve": float(x[i]), "cdf(solve)": float(cdf[i])})
        if abs(x[0] - lo) > 1e-9 * (hi - lo) or abs(x[256] - hi) > 1e-9 * (hi - lo) or np.any(np.diff(x[:257]) < 0):
            ctx.violation(key + ":endpoints", {"solve(0)": float(x[0]), "solve(1)": float(x[256])})
        # integral is the antiderivative of the density (own cumulative function): finite differences
        xm = np.linspace(lo, hi, 41)[1:-1]
        h = 1e-5 * (hi - lo)
        num = (g.integral(xm + h) - g.integral(xm - h)) / (2 * h)
        if np.any(np.abs(num - g(xm)) > 1e-5 * np.abs(g(xm))):
            ctx.violation(key + ":density", {"x": xm.tolist()[:3]})
        s = g.generate(1000)
        if s.min() < lo or s.max() > hi:
            ctx.violation(key + ":generate_range", {"min": float(s.min()), "max": float(s.max())})
    ctx.part("breit_wigner", evaluations=nbw)

    # ---- InterpND: stratified (deterministic) inversion of its cumulative bin table
    grids = [
        ("uniform1d", [np.linspace(0.0, 2.0, 5)], None),
        ("nonuniform1d", [np.array([0.0, 1.0, 3.0])], None),
        ("uniform2d", [np.linspace(0.0, 1.0, 4), np.linspace(-1.0, 1.0, 3)], None),
        ("nonuniform2d", [np.array([0.0, 0.5, 2.0]), np.array([0.0, 1.0, 1.5, 4.0])], None),
    ]
    K = 4000 if quick else 40000
    for name, xs, _ in grids:
        for zi, zkind in enumerate(["const", "ramp"]):
            shape = [len(a) for a in xs]
            if zkind == "const":
                z = np.ones(shape)
            else:
                mesh = np.meshgrid(*xs, indexing="ij")
                z = 0.5 + sum((m - m.min()) / (m.max() - m.min()) * (i + 1) for i, m in enumerate(mesh))
            key = "InterpND:%s:%s" % (name, zkind)
            f = InterpND(xs, z)
            # exact mass of every cell of the multilinear interpolant: volume * mean of the corner values
            ncell = [n - 1 for n in shape]
            mass = np.zeros(ncell)
            for idx in np.ndindex(*ncell):
                vol = np.prod([xs[d][idx[d] + 1] - xs[d][idx[d]] for d in range(len(xs))])
                corners = [z[tuple(idx[d] + c[d] for d in range(len(xs)))] for c in np.ndindex(*([2] * len(xs)))]
                mass[idx] = vol * np.mean(corners)
            expect = mass / mass.sum()
            orig = np.random.random
            strat = (np.arange(K) + 0.5) / K

            def fake(size=None):
                if isinstance(size, tuple):
                    return rng.random(size)
                return strat.copy()

            np.random.random = fake
            try:
                pts = f.generate(K)
            finally:
                np.random.random = orig
            ctx.count(K, distinct_key=key)
            lo = np.array([a[0] for a in xs])
            hi = np.array([a[-1] for a in xs])
            if not np.all(np.isfinite(pts)) or np.any(pts < lo - 1e-12) or np.any(pts > hi + 1e-12):
                ctx.violation(key + ":range", {"min": pts.min(0).tolist(), "max": pts.max(0).tolist()})
                continue
            cell = [np.clip(np.digitize(pts[:, d], xs[d][1:-1]), 0, ncell[d] - 1) for d in range(len(xs))]
            got = np.zeros(ncell)
            np.add.at(got, tuple(cell), 1.0)
            got /= K
            # stratified u: every cell's share is reproduced up to (number of tables * cells) / K
            tol = (2 ** len(xs)) * 2.0 / K + 1e-12
            dev = float(np.max(np.abs(got - expect)))
            if dev > tol:
                vkey = "InterpND:nonuniform_grid:cell_mass" if name.startswith("nonuniform") else key + ":cell_mass"
                ctx.violation(vkey, {"grid": [a.tolist() for a in xs], "z": zkind, "got": got.tolist(), "expected": expect.tolist(), "tolerance": tol})
            if name == "uniform1d" and zkind == "ramp":
                ctx.sample({"InterpND": key, "cell_share": got.tolist(), "expected": expect.tolist()})
    ctx.part("interp_nd", grids=len(grids) * 2, points_per_grid=K)
    # within-cell shape on a uniform grid (statistical, chi^2)
    xs = [np.linspace(0.0, 1.0, 3)]
    z = np.array([0.2, 2.0, 0.5])
    f = InterpND(xs, z)
    n = 40000 if quick else 400000
    np.random.seed(ctx.seed % (2**32))
    pts = f.generate(n)[:, 0]
    edges = np.linspace(0, 1, 21)
    from tf_pwa.generator.linear_interpolation import LinearInterp

    li = LinearInterp(xs[0], z)
    cdf = li.integral(edges) / li.int_all
    exp = np.diff(cdf) * n
    obs, _ = np.histogram(pts, edges)
    chi2 = float(np.sum((obs - exp) ** 2 / exp))
    from scipy import stats

    p = float(stats.chi2.sf(chi2, len(exp) - 1))
    ctx.part("interp_nd_shape", chi2=chi2, ndf=len(exp) - 1, p=p, n=n)
    ctx.count(n, distinct_key="InterpND:shape")
    if p < ALPHA_CHI2:
        ctx.violation("InterpND:uniform1d:within_cell_shape", {"chi2": chi2, "ndf": len(exp) - 1, "p": p})


# ==========================================================================
# part 5: adaptive bins and histograms against Bins.tla
# ==========================================================================
def _bins_cfg(ctx, mode, vmax, maxev, maxsplit, wnat, woff, edges):
    p = os.path.join(ctx.work, "bins_%s.cfg" % mode)
    inv = {
        "adapt1": ["ExactlyOne1", "Contiguous1", "Balanced1"],
        "adapt2": ["ExactlyOne2", "Balanced2"],
        "hist": ["HistExactlyOne", "HistConservesW", "HistConservesW2"],
    }[mode]
    with open(p, "w") as f:
        f.write(
            'CONSTANTS\n Mode = "%s"\n VMax = %d\n MaxEv = %d\n MaxSplit = %d\n WNat = {%s}\n WOff = %d\n EdgeSets = {%s}\nINIT Init\nNEXT Next\n'
            % (mode, vmax, maxev, maxsplit, ",".join(map(str, wnat)), woff, ",".join(map(str, edges)))
        )
        for i in inv:
            f.write("INVARIANT %s\n" % i)
        f.write("POSTCONDITION Post\nCHECK_DEADLOCK FALSE\n")
    return p


def _bins_rows(ctx, rng, mode, n, **kw):
    sel = [[int(rng.integers(0, 10**6)) for _ in range(3)] for _ in range(n)]
    inp = os.path.join(ctx.work, "bins_sel_%s.json" % mode)
    with open(inp, "w") as f:
        json.dump({"idx": sel}, f)
    r = tlc.run("Bins", _bins_cfg(ctx, mode, **kw), work=ctx.work, workers=16, env={"IN_FILE": inp}, timeout=1500, coverage=False)
    if r.violation:
        raise tlc.MachineryError("Bins (%s) violates its own theorem %s" % (mode, r.violation))
    ctx.tlc(r, "Bins %s" % mode)
    return r.out["rows"]


def _check_partition(ctx, key, adp, data, n_expected_bins):
    """every event of `data` (ndim, N) in exactly one bin; split_data consistent"""
    masks = adp.get_bool_mask(data)
    m = np.array(masks)
    if m.shape[0] != n_expected_bins:
        ctx.violation(key + ":nbins", {"bins": int(m.shape[0]), "expected": n_expected_bins})
        return None
    per_event = m.sum(axis=0)
    if np.any(per_event != 1):
        i = int(np.argmax(per_event != 1))
        ctx.violation(key + ":exactly_one", {"event": i, "value": data[:, i].tolist(), "bins_containing_it": int(per_event[i])})
        return None
    parts = adp.split_data(data)
    if sum(p.shape[-1] for p in parts) != data.shape[-1] or any(not np.array_equal(p, data[..., mk]) for p, mk in zip(parts, masks)):
        ctx.violation(key + ":split_data", {"sizes": [int(p.shape[-1]) for p in parts]})
        return None
    return m


def part_bins(ctx, rng):
    from tf_pwa.adaptive_bins import AdaptiveBound
    from tf_pwa.histogram import Hist1D

    quick = ctx.tier == "quick"
    nsel = 500 if quick else 5000
    drift = 0
    # ---- one dimension
    rows = _bins_rows(ctx, rng, "adapt1", nsel, vmax=4 if quick else 5, maxev=5 if quick else 6, maxsplit=3, wnat=[1], woff=0, edges=[])
    seen = set()
    nprobe = 0
    for row in rows:
        vs, n = row["vs"], row["n"]
        key = "adaptive1d:data=%s:bins=%d" % (vs, n)
        if key in seen:
            continue
        seen.add(key)
        data = np.array([vs], dtype=float)
        try:
            adp = AdaptiveBound(np.array(vs, dtype=float), n)
            m = _check_partition(ctx, key, adp, data, n)
        except Exception as e:
            ctx.violation(key + ":raise", {"error": repr(e)})
            continue
        ctx.count(1, distinct_key=key)
        if m is None:
            continue
        counts = m.sum(axis=1)
        if row["distinct"] and np.any(np.abs(counts * n - len(vs)) > n):
            ctx.violation(key + ":balanced", {"counts": counts.tolist(), "events": len(vs)})
        if [int(np.argmax(m[:, i])) + 1 for i in range(len(vs))] != row["bin"]:
            drift += 1
        # probes on and around the bin boundaries: the bins tile [lower bound, upper bound)
        bnds = adp.get_bounds()
        edges = sorted(set([float(b[0][0]) for b in bnds] + [float(b[1][0]) for b in bnds]))
        probes = np.array(edges + [(a + b) / 2 for a, b in zip(edges[:-1], edges[1:])] + [edges[0] - 1.0, edges[-1] + 1.0])
        pm = np.array(adp.get_bool_mask(np.array([probes]))).sum(axis=0)
        inside = (probes >= edges[0]) & (probes < edges[-1])
        nprobe += len(probes)
        if np.any(pm != inside.astype(int)):
            i = int(np.argmax(pm != inside.astype(int)))
            ctx.violation(key + ":half_open", {"probe": float(probes[i]), "bins_containing_it": int(pm[i]), "edges": edges})
    ctx.part("adaptive_1d", cases=len(seen), boundary_probes=nprobe, model_drift=drift)
    ctx.sample({"adaptive_case": rows[len(rows) // 3]})
    total_cases = len(seen)

    # ---- two dimensions
    rows = _bins_rows(ctx, rng, "adapt2", nsel, vmax=2, maxev=3 if quick else 4, maxsplit=2, wnat=[1], woff=0, edges=[])
    seen2 = set()
    undefined = drift2 = 0
    for row in rows:
        xs, ys, n1, n2 = row["xs"], row["ys"], row["n1"], row["n2"]
        key = "adaptive2d:x=%s:y=%s:bins=%dx%d" % (xs, ys, n1, n2)
        if key in seen2:
            continue
        seen2.add(key)
        if not row["defined"]:
            undefined += 1  # an x bin without events: percentiles of an empty sample (outside the model)
            continue
        data = np.array([xs, ys], dtype=float)
        try:
            with np.errstate(all="ignore"):
                adp = AdaptiveBound(data, [[n1, n2]])
                m = _check_partition(ctx, key, adp, data, n1 * n2)
        except Exception as e:
            ctx.violation(key + ":raise", {"error": repr(e)})
            continue
        ctx.count(1, distinct_key=key)
        if m is None:
            continue
        if row["distinct"]:
            counts = m.sum(axis=1).reshape(n1, n2)
            for j in range(n1):
                if np.any(np.abs(counts[j] * n2 - counts[j].sum()) > n2) or abs(counts[j].sum() * n1 - len(xs)) > n1:
                    ctx.violation(key + ":balanced", {"counts": counts.tolist()})
                    break
        if [int(np.argmax(m[:, i])) + 1 for i in range(len(xs))] != row["bin"]:
            drift2 += 1
    ctx.part("adaptive_2d", cases=len(seen2), undefined_skipped=undefined, model_drift=drift2)
    total_cases += len(seen2) - undefined

    # ---- weighted histograms
    edges_enc = [42, 43, 141, 132, 133] if quick else [42, 43, 44, 141, 132, 133, 31, 242]
    rows = _bins_rows(ctx, rng, "hist", nsel, vmax=4, maxev=3 if quick else 4, maxsplit=1, wnat=[0, 2, 3], woff=1, edges=edges_enc)
    seen3 = set()
    for row in rows:
        x, w, lo, hi, nb = row["x"], row["w"], row["lo"], row["hi"], row["nb"]
        key = "hist:x=%s:w=%s:range=%d..%d:bins=%d" % (x, w, lo, hi, nb)
        if key in seen3:
            continue
        seen3.add(key)
        xa, wa = np.array(x, dtype=float), np.array(w, dtype=float)
        variants = [("range", dict(bins=nb, range=(lo, hi))), ("edges", dict(bins=np.linspace(lo, hi, nb + 1)))]
        ctx.count(1, distinct_key=key)
        for vname, kw in variants:
            try:
                h0 = Hist1D.histogram(xa, weights=wa, mask_error=0.0, **kw)
                h1 = Hist1D.histogram(xa, weights=wa, **kw)
            except Exception as e:
                ctx.violation(key + ":raise", {"error": repr(e), "variant": vname})
                break
            inr = (xa >= lo) & (xa <= hi)
            sw, sw2 = float(wa[inr].sum()), float((wa[inr] ** 2).sum())
            nev = np.array(row["nev"])
            if abs(float(np.sum(h0.count)) - sw) > 1e-9 or abs(float(np.sum(h0.error**2)) - sw2) > 1e-9:
                ctx.violation(key + ":sums", {"variant": vname, "sum_count": float(np.sum(h0.count)), "sum_w": sw, "sum_error2": float(np.sum(h0.error**2)), "sum_w2": sw2})
                break
            if np.any(np.abs(h0.count - np.array(row["count"])) > 1e-9) or np.any(np.abs(h0.error**2 - np.array(row["err2"])) > 1e-9):
                ctx.violation(key + ":per_bin", {"variant": vname, "count": h0.count.tolist(), "error2": (h0.error**2).tolist(), "expected_count": row["count"], "expected_error2": row["err2"]})
                break
            # default mask_error: bins without events carry an infinite error, the others sqrt(sum w^2)
            e2 = h1.error**2
            if np.any(np.abs(h1.count - np.array(row["count"])) > 1e-9) or np.any(np.abs(e2[nev > 0] - np.array(row["err2"])[nev > 0]) > 1e-9) or not np.all(np.isinf(e2[nev == 0])):
                ctx.violation(key + ":default_mask", {"variant": vname, "error2": e2.tolist(), "expected_error2": row["err2"], "events_per_bin": nev.tolist()})
                break
        if all(v == 1 for v in w):
            h = Hist1D.histogram(xa, bins=nb, range=(lo, hi), mask_error=0.0)
            if np.any(np.abs(h.count - np.array(row["count"])) > 1e-9) or np.any(np.abs(h.error**2 - np.array(row["count"])) > 1e-9):
                ctx.violation(key + ":unweighted", {"count": h.count.tolist(), "error2": (h.error**2).tolist()})
    ctx.part("histograms", cases=len(seen3))
    ctx.sample({"histogram_case": rows[len(rows) // 2]})
    total_cases += len(seen3)
    ctx.cov["traces_validated_against_impl"] += total_cases
    ctx.assume("adaptive bins: data values are integers (lattice spacing >> the 1e-6 padding of the bin bounds); a split of an empty sub-sample is outside the model")
    ctx.assume("histogram bins follow numpy.histogram (half-open, last bin closed); bins without events carry mask_error (default inf) and are excluded from the sum of squared errors")


# ==========================================================================
# part 6: distribution of the accepted sample (exploration level)
# ==========================================================================
def part_classes(ctx, rng):
    """weight classes w_j = 2^j proposed with p_j ~ 4^-j: accepted fractions q_j ~ 2^-j, exact binomial tests"""
    import tensorflow as tf
    from scipy import stats
    from tf_pwa.generator.generator import multi_sampling

    quick = ctx.tier == "quick"
    J = 7
    p = np.array([4.0**-j for j in range(J + 1)])
    p /= p.sum()
    wj = np.array([2.0**j for j in range(J + 1)])
    q = p * wj / np.sum(p * wj)
    N = 20000 if quick else 100000
    scenarios = [("none", None, 20000), ("low_bound", 1.5, 20000), ("small_batches", None, 3000), ("importance", None, 20000)]
    p_plain, wj_plain, q_plain = p, wj, q
    for name, b0, max_n in scenarios:
        nb = [0]
        if name == "importance":
            # proposal p_j ~ 8^-j with importance_f g_j = 4 * 2^-j (above and below 1, small where the amplitude
            # 2^j is large): effective weight 4^j / 4, accepted fractions q_j ~ p_j 4^j ~ 2^-j.  The largest effective
            # weight (64) is far above the largest amplitude (16).
            J = 4
            p = np.array([8.0**-j for j in range(J + 1)])
            p /= p.sum()
            wj = np.array([2.0**j for j in range(J + 1)])
            gj = np.array([4.0 * 2.0**-j for j in range(J + 1)])
            q = p * wj / gj / np.sum(p * wj / gj)
            imp_f = lambda d: tf.gather(tf.constant(gj), d["c"])  # noqa: E731
        else:
            J, p, wj, q, imp_f = len(p_plain) - 1, p_plain, wj_plain, q_plain, None

        def phsp(n):
            nb[0] += 1
            return {"c": tf.constant(rng.choice(J + 1, size=n, p=p), dtype="int64")}

        def amp(d):
            return tf.gather(tf.constant(wj), d["c"])

        ret, st = multi_sampling(phsp, amp, N, max_N=max_n, max_weight=None if b0 is None else tf.constant(b0, dtype="float64"), importance_f=imp_f, display=False)
        cls = ret["c"].numpy()
        key = "classes:%s" % name
        ctx.count(int(cls.shape[0]), distinct_key=key)
        if cls.shape[0] != N:
            ctx.violation(key + ":count", {"N": N, "returned": int(cls.shape[0])})
            continue
        cnt = np.bincount(cls, minlength=J + 1)
        pv = []
        # merge the rarest classes until the expectation is >= 100
        groups = [[j] for j in range(J + 1)]
        while len(groups) > 1 and N * sum(q[j] for j in groups[-1]) < 100:
            last = groups.pop()
            groups[-1] += last
        for g in groups[:-1] if len(groups) > 1 else groups:
            k = int(sum(cnt[j] for j in g))
            pr = float(sum(q[j] for j in g))
            pv.append((g, k, N * pr, float(stats.binomtest(k, N, pr).pvalue)))
        g = groups[-1]
        k = int(sum(cnt[j] for j in g))
        pr = float(sum(q[j] for j in g))
        pv.append((g, k, N * pr, float(stats.binomtest(k, N, pr).pvalue)))
        ctx.part("classes_" + name, N=N, batches=nb[0], min_p=min(x[3] for x in pv), final_bound=float(st[1]))
        if name == "importance":
            eff_max = float(np.max(wj / gj))
            if float(st[1]) < eff_max:
                ctx.violation(key + ":final_bound_below_effective_weight", {"final_bound": float(st[1]), "largest_effective_weight": eff_max, "largest_amplitude": float(wj.max())})
        for g, k, e, pval in pv:
            if pval < ALPHA_EXACT:
                ctx.violation(key + ":fraction:classes=%s" % g, {"observed": k, "expected": e, "p": pval, "alpha": ALPHA_EXACT})
        if name == "none":
            ctx.sample({"weight_classes": [[int(k), round(e, 1), pval] for _, k, e, pval in pv]})


MODEL = {
    "data": {"dat_order": ["B", "C", "D"]},
    "decay": {"A": [["R_BC", "D"], ["R_BD", "C"]], "R_BC": ["B", "C"], "R_BD": ["B", "D"]},
    "particle": {
        "$top": {"A": {"J": 0, "P": -1, "mass": 2.0}},
        "$finals": {"B": {"J": 0, "P": -1, "mass": 0.3}, "C": {"J": 0, "P": -1, "mass": 0.4}, "D": {"J": 0, "P": -1, "mass": 0.5}},
        "R_BC": {"J": 1, "P": -1, "mass": 1.0, "width": 0.15},
        "R_BD": {"J": 0, "P": 1, "mass": 1.2, "width": 0.25},
    },
}
MODEL_PARAMS = {
    "A->R_BC.DR_BC->B.C_total_0r": 1.0,
    "A->R_BC.DR_BC->B.C_total_0i": 0.0,
    "A->R_BD.CR_BD->B.D_total_0r": 1.3,
    "A->R_BD.CR_BD->B.D_total_0i": 0.9,
}
MASS = {"A": 2.0, "B": 0.3, "C": 0.4, "D": 0.5}


def _np_momenta(p):
    return {str(k): np.asarray(v) for k, v in p.items()}


def _physical(ctx, key, mom):
    """on-shell and four-momentum conservation, 1e-9 * m0"""
    m0 = MASS["A"]
    tot = sum(mom[n] for n in "BCD")
    bad = {}
    for n in "BCD":
        p = mom[n]
        e = np.sqrt(np.sum(p[:, 1:] ** 2, axis=1) + MASS[n] ** 2)
        d = float(np.max(np.abs(p[:, 0] - e))) if len(p) else 0.0
        if not (d <= 1e-9 * m0):
            bad["on_shell_" + n] = d
    d = float(np.max(np.abs(tot - np.array([m0, 0, 0, 0])))) if len(tot) else 0.0
    if not (d <= 1e-9 * m0):
        bad["momentum_sum"] = d
    if bad:
        ctx.violation(key + ":physical", bad)


def part_model(ctx, rng):
    import tensorflow as tf
    from scipy import stats
    from tf_pwa.config_loader import ConfigLoader
    from tf_pwa.data import data_shape

    quick = ctx.tier == "quick"
    config = ConfigLoader(copy.deepcopy(MODEL))
    config.get_amplitude()
    missing = [k for k in MODEL_PARAMS if k not in config.get_params()]
    if missing:
        raise tlc.MachineryError("model parameters renamed: %s" % missing)
    config.set_params(MODEL_PARAMS)
    # ---- counts and physical events
    for N in [1, 7, 1000]:
        for fname in ["generate_toy", "generate_toy_p"]:
            key = "%s:N=%d" % (fname, N)
            try:
                with _quiet():
                    ret = getattr(config, fname)(N)
            except Exception as e:
                ctx.violation(key + ":raise", {"error": repr(e)})
                continue
            ctx.count(N, distinct_key=key)
            if fname == "generate_toy_p":
                mom = _np_momenta(ret)
                n = len(mom["B"])
            else:
                n = int(data_shape(ret))
                mom = {str(k): np.asarray(v["p"]) for k, v in ret["particle"].items() if str(k) in "BCD"}
            if n != N or any(len(mom[x]) != N for x in "BCD"):
                ctx.violation(key + ":count", {"N": N, "returned": n})
                continue
            _physical(ctx, key, mom)
    # ---- distribution: accepted Dalitz histogram against the weighted phase-space expectation
    N = 20000 if quick else 100000
    M = 10 * N
    with _quiet():
        ph = config.generate_phsp_p(M)
    w = np.asarray(config.eval_amplitude(ph))
    phn = _np_momenta(ph)

    def dalitz(m):
        s12 = np.sum((m["B"] + m["C"])[:, :1] ** 2, 1) - np.sum((m["B"] + m["C"])[:, 1:] ** 2, 1)
        s13 = np.sum((m["B"] + m["D"])[:, :1] ** 2, 1) - np.sum((m["B"] + m["D"])[:, 1:] ** 2, 1)
        return s12, s13

    e12, e13 = dalitz(phn)
    nb = 8
    ed12 = np.linspace(e12.min(), e12.max() + 1e-12, nb + 1)
    ed13 = np.linspace(e13.min(), e13.max() + 1e-12, nb + 1)

    def cells(s12, s13):
        i = np.clip(np.digitize(s12, ed12) - 1, 0, nb - 1)
        j = np.clip(np.digitize(s13, ed13) - 1, 0, nb - 1)
        return i * nb + j

    c = cells(e12, e13)
    sw = np.bincount(c, weights=w, minlength=nb * nb)
    sw2 = np.bincount(c, weights=w * w, minlength=nb * nb)
    W = w.sum()
    expect = N * sw / W
    var_mc = (N / W) ** 2 * sw2
    use = expect >= 50
    for fname in ["generate_toy_p"] + ([] if quick else ["generate_toy"]):
        with _quiet():
            toy = getattr(config, fname)(N)
        if fname == "generate_toy_p":
            mom = _np_momenta(toy)
        else:
            mom = {str(k): np.asarray(v["p"]) for k, v in toy["particle"].items() if str(k) in "BCD"}
        key = "%s:dalitz" % fname
        if len(mom["B"]) != N:
            ctx.violation(key + ":count", {"N": N, "returned": len(mom["B"])})
            continue
        _physical(ctx, "%s:N=%d" % (fname, N), mom)
        obs = np.bincount(cells(*dalitz(mom)), minlength=nb * nb).astype(float)
        o = np.append(obs[use], obs[~use].sum())
        e = np.append(expect[use], expect[~use].sum())
        v = np.append(var_mc[use], var_mc[~use].sum())
        keep = e > 0
        chi2 = float(np.sum((o[keep] - e[keep]) ** 2 / (e[keep] + v[keep])))
        ndf = int(keep.sum()) - 1
        pval = float(stats.chi2.sf(chi2, ndf))
        ctx.count(N, distinct_key=key)
        ctx.part("dalitz_" + fname, N=N, phsp=M, cells=int(keep.sum()), chi2=chi2, ndf=ndf, p=pval, efficiency=float(w.mean() / w.max()))
        # the same histogram against a flat expectation must be rejected (the test has power on this model)
        e_flat = np.append(N * np.bincount(c, minlength=nb * nb)[use] / M, 0)
        e_flat[-1] = N - e_flat[:-1].sum()
        chi2_flat = float(np.sum((o[keep] - e_flat[keep]) ** 2 / np.maximum(e_flat[keep], 1e-9)))
        if not (stats.chi2.sf(chi2_flat, ndf) < ALPHA_CHI2):
            raise tlc.MachineryError("Dalitz chi^2 has no power on the test model (flat hypothesis not rejected)")
        if pval < ALPHA_CHI2:
            ctx.violation(key + ":chi2", {"chi2": chi2, "ndf": ndf, "p": pval, "alpha": ALPHA_CHI2})
        if fname == "generate_toy_p":
            ctx.sample({"dalitz": {"N": N, "chi2": round(chi2, 2), "ndf": ndf, "p": pval, "chi2_against_flat": round(chi2_flat, 1)}})


# ==========================================================================
def run(ctx):
    S.tame_malloc()
    rng = np.random.default_rng(ctx.seed)
    part_spec(ctx)
    ctx.log("specification checked")
    part_traces(ctx, rng)
    ctx.log("traces validated")
    part_cdf(ctx, rng)
    part_bw_interpnd(ctx, rng)
    ctx.log("inverse-transform samplers done")
    part_bins(ctx, rng)
    ctx.log("bins and histograms done")
    part_classes(ctx, rng)
    part_model(ctx, rng)
    ctx.cov["rule"] = (
        "TLC: every state of the accept-reject step machine (weights 0..3, random numbers k/16, user bounds, <= 3|4 batches; invariants "
        "BoundGeWeight, Proportional, ResultLength, ...), every rational grid of CdfInvert and every integer data set of Bins (theorems per state). "
        "Harness: every recorded trace of the real multi_sampling / interp_sample_f must be accepted by TraceSampler; LinearInterp on TLC's exact "
        "(x, u) pairs at 1e-9; AdaptiveBound / Hist1D on TLC's cases (postconditions of the property, exact); BWGenerator and InterpND by "
        "deterministic stratified inversion; distribution: exact binomial tests of weight-class fractions (alpha %.1e each) and chi^2 of the "
        "Dalitz histogram of a real 3-body model against the weighted phase-space expectation (alpha %.0e). "
        "distinct = distinct traces batches / grids / data-set cases / scenarios" % (ALPHA_EXACT, ALPHA_CHI2)
    )
    ctx.assume("numpy.Inf shim of the harness (tf_pwa.config_loader does not import under NumPy 2 otherwise)")
    ctx.assume("controlled traces replace tf.random.uniform / numpy.random.random by draws from the grid k/16 for the duration of the traced call; "
               "traces with the real generator carry decision witnesses (0 / 1) instead of the random numbers")
    ctx.assume("the distributional statements are statistical (level: exploration): fixed false-alarm probability <= 1e-9 per check, finite power")


def replay(ctx, path):
    """re-execute the run that produced the replay file (same tier and seed: every random choice is derived from them)"""
    with open(path) as f:
        d = json.load(f)
    ctx.tier, ctx.seed = d.get("tier", ctx.tier), int(d.get("seed", ctx.seed))
    from .. import prelude

    prelude.seed_all(ctx.seed)
    run(ctx)
