"""C04 -- spinless cascades reproduce the closed-form Legendre x Breit-Wigner amplitude.

Spec: spec/ClosedForm.tla (EXTENDS Tables, INSTANCE LSCoupling).  One TLC
state per scenario (non-empty subset of the three chains of A -> 1 2 3, a spin
J in 0..4 per active chain, a coupling triple (total, g_ls, g_ls) per active
chain from a lattice of Gaussian integers).  TLC proves on every scenario that
the (l,s) coupling of both decays is unique, derives the factor (-1)^J from the
documented helicity-coupling formula with the exact CG table, multiplies the
couplings exactly, and writes the scenarios together with the exact Legendre
(half-angle form) and Blatt-Weisskopf coefficient tables.

Binding B3 (numeric): for every scenario a real model is built with
ConfigLoader(dict) (spin-0 external particles), its density on interior
phase-space events is compared (relative 1e-8) with

    | sum_k c_k (-1)^J q^J p^J B_J(q,q0) B_J(p,p0) BW_k(m_k) P_J(cos theta_k) |^2

assembled in numpy from the four-momenta, with P_J, B_J, (-1)^J and c_k taken
from the TLC output (no tf_pwa function enters the reference).
"""
import math
import os
from fractions import Fraction

import numpy as np

from .. import tlc

LEVEL = "exploration"
CAP = 5
D_RADIUS = 3.0  # documented default of the barrier radius d ("d is 3.0 by default")

# chain id -> (resonance name, daughters (a, b), spectator c); final particles 1,2,3 = B,C,D
CHAINS = {1: ("R_BC", ("B", "C"), "D"), 2: ("R_BD", ("B", "D"), "C"), 3: ("R_CD", ("C", "D"), "B")}
FINALS = ("B", "C", "D")

# (parent mass, final masses): distinct masses, equal masses, heavy-light
MASS_SETS = [
    (5.0, (0.5, 0.3, 0.14)),
    (3.0, (0.14, 0.14, 0.14)),
    (1.97, (0.494, 0.139, 0.938)),
]
FRACS = (0.25, 0.5, 0.8)  # position of the nominal mass inside the kinematic window
WIDTHS = (0.03, 0.12, 0.45)  # width / window size


def _cfg(ctx, ncpl):
    p = os.path.join(ctx.work, "closedform_%d.cfg" % ncpl)
    with open(p, "w") as f:
        f.write(
            "CONSTANTS MaxD2 = 0\n MaxCG2 = 0\n MaxIdxJ2 = 0\n MaxHel2 = 0\n MaxL = 6\n MaxPJ = 4\n MaxJ = 4\n NCPL = %d\n"
            "INIT InitCF\nNEXT NextCF\nINVARIANT InvUniqueLS\nINVARIANT InvHelicityFactor\nINVARIANT InvCoupling\n"
            "POSTCONDITION PostCF\nCHECK_DEADLOCK FALSE\n" % ncpl
        )
    return p


def run_tlc(*a, **kw):
    try:
        return tlc.run(*a, **kw)
    except tlc.MachineryError as e:
        if "timed out" in str(e) or "Parsing or semantic analysis failed" in str(e):
            raise
        return tlc.run(*a, **kw)


# --------------------------------------------------------------------------
# kinematics in numpy (independent of tf_pwa)
# --------------------------------------------------------------------------
def mass(p):
    return np.sqrt(np.maximum(p[:, 0] ** 2 - (p[:, 1:] ** 2).sum(-1), 0.0))


def boost(p, beta):
    """active boost of four-vectors p by velocity beta (a particle at rest acquires velocity beta)"""
    b2 = (beta * beta).sum(-1)
    g = 1.0 / np.sqrt(1.0 - b2)
    bp = (beta * p[:, 1:]).sum(-1)
    g2 = np.where(b2 > 0, (g - 1.0) / np.where(b2 > 0, b2, 1.0), 0.0)
    sp = p[:, 1:] + (g2 * bp + g * p[:, 0])[:, None] * beta
    return np.concatenate([(g * (p[:, 0] + bp))[:, None], sp], -1)


def to_rest(p, frame):
    return boost(p, -frame[:, 1:] / frame[:, :1])


def breakup(m0, m1, m2):
    return np.sqrt((m0**2 - (m1 + m2) ** 2) * (m0**2 - (m1 - m2) ** 2)) / (2 * m0)


def unit(rng, n):
    c = rng.uniform(-1, 1, n)
    ph = rng.uniform(-np.pi, np.pi, n)
    s = np.sqrt(1 - c * c)
    return np.stack([s * np.cos(ph), s * np.sin(ph), c], -1)


def gen_events(rng, M, ms, n):
    """three-body events in the parent rest frame (not flat: the property is event-wise)"""
    m1, m2, m3 = ms
    s12 = rng.uniform((m1 + m2) ** 2, (M - m3) ** 2, n)
    m12 = np.sqrt(s12)
    q = breakup(M, m12, m3)
    nq = unit(rng, n)
    pR = np.concatenate([np.sqrt(q * q + s12)[:, None], q[:, None] * nq], -1)
    p3 = np.concatenate([np.sqrt(q * q + m3 * m3)[:, None], -q[:, None] * nq], -1)
    p = breakup(m12, m1, m2)
    npp = unit(rng, n)
    p1s = np.concatenate([np.sqrt(p * p + m1 * m1)[:, None], p[:, None] * npp], -1)
    p2s = np.concatenate([np.sqrt(p * p + m2 * m2)[:, None], -p[:, None] * npp], -1)
    beta = pR[:, 1:] / pR[:, :1]
    return boost(p1s, beta), boost(p2s, beta), p3


class Reference:
    """closed form of the property, every discrete ingredient from the TLC tables"""

    def __init__(self, out):
        self.pj = {}
        for J, row in out["pj"]:
            co = []
            for sgn, num, den in row:
                r = math.isqrt(num)
                if r * r != num:
                    raise tlc.MachineryError("P_J coefficient is not rational")
                co.append(float(Fraction(sgn * r, den)))
            self.pj[J] = co
        self.bw = {L: [float(c) for c in row] for L, row in out["bw"]}
        self.sign = {J: s for J, s in out["sign"]}

    def P(self, J, x):
        u, v = (1 - x) / 2, (1 + x) / 2
        return sum(c * u**k * v ** (J - k) for k, c in enumerate(self.pj[J]))

    def B(self, L, q, q0, d=D_RADIUS):
        return np.sqrt(np.polyval(self.bw[L], (q0 * d) ** 2) / np.polyval(self.bw[L], (q * d) ** 2))

    def chain(self, pa, pb, pc, M0, J, m0, g0, c, nom=None):
        """amplitude of A -> R c, R -> a b.  q: momentum of R in the A frame (q0 at the nominal masses),
        p: momentum of a in the R frame (p0 at the nominal mass), theta: angle of a in the R frame
        with respect to the flight direction of R in the A frame"""
        ma, mb, mc = mass(pa), mass(pb), mass(pc)
        pr = pa + pb
        pA = pr + pc
        m = mass(pr)
        q = breakup(mass(pA), m, mc)
        ma0, mb0, mc0 = nom if nom is not None else (float(np.mean(ma)), float(np.mean(mb)), float(np.mean(mc)))
        q0 = breakup(M0, m0, mc0)
        p = breakup(m, ma, mb)
        p0 = breakup(m0, ma0, mb0)
        prA = to_rest(pr, pA)
        paR = to_rest(to_rest(pa, pA), prA)
        z = prA[:, 1:]
        cos = (paR[:, 1:] * z).sum(-1) / np.linalg.norm(paR[:, 1:], axis=-1) / np.linalg.norm(z, axis=-1)
        gam = g0 * (p / p0) ** (2 * J + 1) * (m0 / m) * self.B(J, p, p0) ** 2
        bw = 1.0 / (m0**2 - m**2 - 1j * m0 * gam)
        amp = c * self.sign[J] * q**J * p**J * self.B(J, q, q0) * self.B(J, p, p0) * bw * self.P(J, cos)
        return amp, (q, p, cos)


def build_config(act, Js, M, ms, res):
    fm = dict(zip(FINALS, ms))
    dec = {"A": [[CHAINS[k][0], CHAINS[k][2]] for k in act]}
    part = {"$top": {"A": {"J": 0, "P": -1, "mass": M}}, "$finals": {n: {"J": 0, "P": -1, "mass": fm[n]} for n in FINALS}}
    for k in act:
        name, (a, b), _ = CHAINS[k]
        dec[name] = [a, b]
        part[name] = {"J": Js[k], "P": (-1) ** Js[k], "mass": res[k][0], "width": res[k][1]}
    return {"data": {"dat_order": list(FINALS)}, "decay": dec, "particle": part}


def run(ctx):
    quick = ctx.tier == "quick"
    ncpl = 2 if quick else 3
    nev = 128 if quick else 1024
    ngrid = 1 if quick else 3
    cart_every = 8 if quick else 3
    r = run_tlc("ClosedForm", _cfg(ctx, ncpl), work=ctx.work, workers=16, timeout=1800)
    if r.violation:
        raise tlc.MachineryError("ClosedForm spec violates its own theorem %s" % r.violation)
    ctx.tlc(r, "ClosedForm MaxJ=4 NCPL=%d" % ncpl)
    out = r.out
    if r.distinct != out["nscn"] or len(out["scenarios"]) != out["nscn"]:
        raise tlc.MachineryError("ClosedForm: %d states, %d scenarios" % (r.distinct, out["nscn"]))
    ref = Reference(out)
    ctx.log("TLC: %d scenarios in %.1fs" % (out["nscn"], r.wall))
    ctx.cov["states"] = r.distinct
    nviol = {}

    def viol(part, key, detail):
        nviol[part] = nviol.get(part, 0) + 1
        if nviol[part] <= CAP:
            ctx.violation(key, detail)

    from tf_pwa import breit_wigner as bwmod
    from tf_pwa.config_loader import ConfigLoader

    # ---- D-content: the Blatt-Weisskopf coefficient table / generator against the TLC table -------------
    for L, row in out["bw"]:
        try:
            gen = [int(x) for x in bwmod.get_bprime_coeff(L)]
        except Exception as e:  # noqa: BLE001
            viol("bw", "bprime_coeff:L=%d:raise" % L, {"error": repr(e)})
            continue
        if gen != row:
            viol("bw", "bprime_coeff:L=%d" % L, {"got": gen, "expected": row})
        for z in (1.0, 2.0, 0.5):
            got = float(bwmod.Bprime_polynomial(L, np.float64(z)))
            want = float(sum(Fraction(c) * Fraction(z) ** (L - i) for i, c in enumerate(row)))
            if got != want:
                viol("bw", "Bprime_polynomial:L=%d" % L, {"z": z, "got": got, "expected": want})
        ctx.count(4, distinct_key=("bw", L), nontrivial=L > 0)
    ctx.part("bw_table", orders=len(out["bw"]))

    # ---- group the scenarios by model structure -------------------------------------------------------
    structs = {}
    for s in out["scenarios"]:
        ch = sorted(s["chains"], key=lambda c: c[0])
        skey = tuple((c[0], c[1]) for c in ch)
        structs.setdefault(skey, []).append(ch)
    rng = np.random.default_rng(ctx.seed)
    n_eval = n_cart = n_models = 0
    worst = 0.0
    min_int = 1.0
    n_struct = 0
    evaluated = []
    for si, skey in enumerate(sorted(structs)):
        act = [k for k, _ in skey]
        Js = dict(skey)
        scns = sorted(structs[skey], key=lambda ch: [c[3] for c in ch])
        n_struct += 1
        stag = "+".join("%s(J=%d)" % (CHAINS[k][0], Js[k]) for k in act)
        for gi in range(ngrid):
            M, ms = MASS_SETS[(si + gi) % len(MASS_SETS)]
            fm = dict(zip(FINALS, ms))
            res = {}
            for k in act:
                _, (a, b), c = CHAINS[k]
                lo, hi = fm[a] + fm[b], M - fm[c]
                fr = FRACS[int(rng.integers(len(FRACS)))] if not quick or gi else FRACS[(si + k) % len(FRACS)]
                wd = WIDTHS[int(rng.integers(len(WIDTHS)))] if not quick or gi else WIDTHS[(si + 2 * k) % len(WIDTHS)]
                res[k] = (round(lo + fr * (hi - lo), 6), round(wd * (hi - lo), 6))
            gtag = "M=%g,m=%s,res=%s" % (M, list(ms), {CHAINS[k][0]: res[k] for k in act})
            # events, interior of the Dalitz region for all three pairings
            p1, p2, p3 = gen_events(rng, M, ms, 3 * nev)
            mom = {"B": p1, "C": p2, "D": p3}
            keep = np.ones(len(p1), bool)
            for k in (1, 2, 3):
                _, (a, b), c = CHAINS[k]
                _, (q, p, cos) = ref.chain(mom[a], mom[b], mom[c], M, 0, 0.5 * (fm[a] + fm[b] + M - fm[c]), 0.1, 1.0)
                keep &= (q > 1e-3 * M) & (p > 1e-3 * M) & (np.abs(cos) < 1 - 1e-6)
            idx = np.where(keep)[0][:nev]
            if len(idx) < nev // 2:
                raise tlc.MachineryError("event generator produced too few interior events")
            mom = {n: v[idx] for n, v in mom.items()}
            try:
                cfg = ConfigLoader(build_config(act, Js, M, ms, res))
                amp = cfg.get_amplitude()
                data = cfg.data.cal_angle([mom[n] for n in FINALS])
                chains = list(amp.decay_group)
            except Exception as e:  # noqa: BLE001
                viol("build", "build:%s" % stag, {"error": repr(e), "grid": gtag})
                continue
            n_models += 1
            # identify the chain objects and their coupling names; the (l,s) lists TLC proved unique
            names = {}
            for k in act:
                rname = CHAINS[k][0]
                ch = [c for c in chains if any(str(pp) == rname for pp in c.inner)]
                if len(ch) != 1:
                    raise tlc.MachineryError("cannot identify the chain of %s" % rname)
                decs = list(ch[0])
                d1 = [d for d in decs if str(d.core) == "A"][0]
                d2 = [d for d in decs if str(d.core) == rname][0]
                ls1 = [tuple(int(x) for x in ls) for ls in d1.get_ls_list()]
                ls2 = [tuple(int(x) for x in ls) for ls in d2.get_ls_list()]
                if ls1 != [(Js[k], Js[k])] or ls2 != [(Js[k], 0)]:
                    viol("ls", "ls_list:%s" % stag, {"A->Rc": ls1, "R->ab": ls2, "expected": [[Js[k], Js[k]], [Js[k], 0]]})
                names[k] = (ch[0].total.name + "_0", d1.g_ls.name + "_0", d2.g_ls.name + "_0")
            allp = cfg.get_params()
            for k in act:
                for nm in names[k]:
                    if nm + "r" not in allp or nm + "i" not in allp:
                        raise tlc.MachineryError("parameter %s not found in the model" % nm)
            # reference amplitude of each chain for unit coupling
            unit_amp = {}
            for k in act:
                _, (a, b), c = CHAINS[k]
                unit_amp[k], _ = ref.chain(mom[a], mom[b], mom[c], M, Js[k], res[k][0], res[k][1], 1.0, nom=(fm[a], fm[b], fm[c]))

            def compare(scn, mode):
                nonlocal n_eval, worst, min_int
                cpl = {c[0]: complex(c[3][0], c[3][1]) for c in scn}
                a = sum(cpl[k] * unit_amp[k] for k in act)
                want = np.abs(a) ** 2
                scale = sum(np.abs(cpl[k] * unit_amp[k]) for k in act) ** 2
                try:
                    got = np.asarray(amp(data))
                except Exception as e:  # noqa: BLE001
                    viol("density", "density:%s:raise" % stag, {"error": repr(e)})
                    return
                n_eval += 1
                err = np.abs(got - want)
                tol = 1e-8 * want + 1e-11 * scale
                rel = float((err / (want + 1e-4 * scale)).max())
                worst = max(worst, rel)
                if len(act) > 1:
                    min_int = min(min_int, float((want / scale).min()))
                if not (err <= tol).all() or got.shape != want.shape:
                    i = int(np.argmax(err - tol)) if got.shape == want.shape else 0
                    ctag = "|".join("%s:%s*%s*%s" % (CHAINS[c[0]][0], *["%d%+dj" % tuple(z) for z in c[2]]) for c in scn)
                    viol("density", "density:%s:cpl=%s:%s" % (stag, ctag, mode),
                         {"grid": gtag, "event": {n: mom[n][i].tolist() for n in FINALS}, "got": float(got.flat[i]) if got.size else None,
                          "expected": float(want[i]), "max_rel_err": rel, "n_bad": int((~(err <= tol)).sum()), "n_events": len(want)})

            def set_couplings(scn, polar):
                par = {}
                for c in scn:
                    for nm, z in zip(names[c[0]], c[2]):
                        z = complex(z[0], z[1])
                        if polar:
                            par[nm + "r"], par[nm + "i"] = abs(z), float(np.angle(z))
                        else:
                            par[nm + "r"], par[nm + "i"] = z.real, z.imag
                cfg.set_params(par)

            mine = [s for j, s in enumerate(scns) if j % ngrid == gi or j == 0]
            if quick and len(act) == 3:
                # budget: half fraction of the 2^3 coupling assignments (even number of non-default triples:
                # every chain sees both lattice points, every pair of chains all four combinations)
                mine = [s for s in mine if sum(1 for c in s if c[2] != [[1, 0], [1, 0], [1, 0]]) % 2 == 0]
            evaluated.extend((skey, tuple(tuple(map(tuple, c[2])) for c in s)) for s in mine)
            for scn in mine:
                set_couplings(scn, True)
                compare(scn, "polar")
            # the same couplings entered as cartesian parameters
            amp.vm.rp2xy_all()
            for j, scn in enumerate(mine):
                if (si + j) % cart_every == 0:
                    set_couplings(scn, False)
                    compare(scn, "cartesian")
                    n_cart += 1
            if si in (3, 40, 150) and gi == 0:
                scn = mine[-1]
                ctx.sample({"structure": stag, "grid": gtag, "couplings(total,g_ls,g_ls)": {CHAINS[c[0]][0]: c[2] for c in scn},
                            "c_k(TLC)": {CHAINS[c[0]][0]: c[3] for c in scn}, "sign(-1)^J(TLC)": {CHAINS[c[0]][0]: c[4] for c in scn},
                            "events": len(idx)})
    for kk in evaluated:
        ctx.count(0, distinct_key=kk, nontrivial=True)
    ctx.count(n_eval)
    ctx.part("density", structures=n_struct, models_built=n_models, scenarios=len(out["scenarios"]), scenarios_evaluated=len(set(evaluated)), evaluations=n_eval,
             cartesian_evaluations=n_cart, events_per_model=nev, grids_per_structure=ngrid,
             max_rel_err=worst, strongest_destructive_interference=min_int)
    if n_models < n_struct:
        ctx.log("warning: %d structures could not be built" % (n_struct - n_models))
    ctx.cov["exhaustive"] = False
    ctx.cov["rule"] = (
        "discrete part exhaustive: every scenario of ClosedForm.tla is one TLC state (non-empty subsets of the 3 chains x J in 0..4 per chain "
        "x %d coupling triples per chain = %d scenarios, %d model structures); each structure is built through ConfigLoader(dict) on %d "
        "mass/width grid point(s) and every scenario (quick tier: for three-chain structures the half fraction of the coupling assignments with an "
        "even number of non-default triples) is evaluated on %d seeded interior events in polar coordinates, every %d-th also in "
        "cartesian coordinates; reference from the TLC tables (P_J, B_J coefficients, (-1)^J, c_k); |got-ref| <= 1e-8 ref + 1e-11 (sum_k|A_k|)^2. "
        "continuous part (events, masses, widths) sampled. distinct = distinct (structure, coupling assignment)"
        % (ncpl, out["nscn"], n_struct, ngrid, nev, cart_every)
    )
    ctx.assume("nominal resonance masses inside the kinematic window (m_a+m_b < m0 < M-m_c): q0 and p0 real")
    ctx.assume("barrier radius d = 3.0 (documented default), running-width BW with L = J, parent at rest, events in the interior of the Dalitz region")
    ctx.assume("c_k = total * g_ls(A->R c) * g_ls(R->a b); helicity angle = angle of the first listed daughter of R in the R frame w.r.t. the R flight direction")
    ctx.assume("masses, widths and events are sampled (seeded); spins above 4 not enumerated")


def replay(ctx, path):
    run(ctx)
