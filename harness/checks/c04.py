"""C04 -- spinless cascades reproduce the closed-form Legendre x Breit-Wigner amplitude.

Spec: spec/ClosedForm.tla (EXTENDS Tables, INSTANCE LSCoupling): a step machine
on one model object per structure.  structure = non-empty subset of the three
chains of A -> 1 2 3 with a spin J in 0..4 per chain; state = (structure,
parameter point), a parameter point assigns to every chain one entry of a
lattice (coupling triple total / g_ls / g_ls as Gaussian integers, nominal
mass as a rational position in the kinematic window, width as a rational
fraction of it); action SetParams(new) = set_params on the same object.  TLC
proves on every state that the (l,s) coupling of both decays is unique, derives
the factor (-1)^J from the documented helicity-coupling formula with the exact
CG table, multiplies the couplings exactly, checks that the walk it hands out
is a behaviour through every state of the structure (start, ..., start), and
writes the lattice, the walks, the frames and the exact Legendre (half-angle
form) and Blatt-Weisskopf tables.

Binding B1/B3: per structure a real model is built with ConfigLoader(dict)
(spin-0 externals) at the initial point and driven along the TLC walk with
set_params (masses, widths, couplings); after every step its density on
interior events -- given in the parent rest frame AND boosted to a laboratory
frame (own numpy boost; center_mass is False by default) -- is compared
(relative 1e-8) with

    | sum_k c_k (-1)^J q^J p^J B_J(q,q0) B_J(p,p0) BW_k(m_k) P_J(cos theta_k) |^2

of the CURRENT point, assembled in numpy from the rest-frame four-momenta with
P_J, B_J, (-1)^J, c_k, m0, Gamma0 taken from the TLC output (no tf_pwa function
enters the reference; the reference is a function of the state, never of the
history).
"""
import math
import os
from fractions import Fraction

import numpy as np

from .. import tlc

LEVEL = "exploration"
CAP = 5
D_RADIUS = 3.0  # documented default of the barrier radius d ("d is 3.0 by default")

# chain id -> (resonance name, daughters (a, b), spectator c); final particles 1,2,3 = B,C,D
CHAINS = {1: ("R_BC", ("B", "C"), "D"), 2: ("R_BD", ("B", "D"), "C"), 3: ("R_CD", ("C", "D"), "B")}
FINALS = ("B", "C", "D")

# (parent mass, final masses): distinct masses, equal masses, heavy-light
MASS_SETS = [
    (5.0, (0.5, 0.3, 0.14)),
    (3.0, (0.14, 0.14, 0.14)),
    (1.97, (0.494, 0.139, 0.938)),
]


def _cfg(ctx, npt, half):
    p = os.path.join(ctx.work, "closedform_%d.cfg" % npt)
    with open(p, "w") as f:
        f.write(
            "CONSTANTS MaxD2 = 0\n MaxCG2 = 0\n MaxIdxJ2 = 0\n MaxHel2 = 0\n MaxL = 6\n MaxPJ = 4\n MaxJ = 4\n NPT = %d\n HalfFraction = %s\n"
            "INIT InitCF\nNEXT NextCF\nINVARIANT InvUniqueLS\nINVARIANT InvHelicityFactor\nINVARIANT InvCoupling\n"
            "INVARIANT InvPoint\nINVARIANT InvWalk\nINVARIANT InvWalkMovesMasses\n"
            "POSTCONDITION PostCF\nCHECK_DEADLOCK FALSE\n" % (npt, "TRUE" if half else "FALSE")
        )
    return p


def run_tlc(*a, **kw):
    try:
        return tlc.run(*a, **kw)
    except tlc.MachineryError as e:
        if "timed out" in str(e) or "Parsing or semantic analysis failed" in str(e):
            raise
        return tlc.run(*a, **kw)


# --------------------------------------------------------------------------
# kinematics in numpy (independent of tf_pwa)
# --------------------------------------------------------------------------
def mass(p):
    return np.sqrt(np.maximum(p[:, 0] ** 2 - (p[:, 1:] ** 2).sum(-1), 0.0))


def boost(p, beta):
    """active boost of four-vectors p by velocity beta (a particle at rest acquires velocity beta)"""
    b2 = (beta * beta).sum(-1)
    g = 1.0 / np.sqrt(1.0 - b2)
    bp = (beta * p[:, 1:]).sum(-1)
    g2 = np.where(b2 > 0, (g - 1.0) / np.where(b2 > 0, b2, 1.0), 0.0)
    sp = p[:, 1:] + (g2 * bp + g * p[:, 0])[:, None] * beta
    return np.concatenate([(g * (p[:, 0] + bp))[:, None], sp], -1)


def to_rest(p, frame):
    return boost(p, -frame[:, 1:] / frame[:, :1])


def breakup(m0, m1, m2):
    return np.sqrt((m0**2 - (m1 + m2) ** 2) * (m0**2 - (m1 - m2) ** 2)) / (2 * m0)


def unit(rng, n):
    c = rng.uniform(-1, 1, n)
    ph = rng.uniform(-np.pi, np.pi, n)
    s = np.sqrt(1 - c * c)
    return np.stack([s * np.cos(ph), s * np.sin(ph), c], -1)


def gen_events(rng, M, ms, n):
    """three-body events in the parent rest frame (not flat: the property is event-wise)"""
    m1, m2, m3 = ms
    s12 = rng.uniform((m1 + m2) ** 2, (M - m3) ** 2, n)
    m12 = np.sqrt(s12)
    q = breakup(M, m12, m3)
    nq = unit(rng, n)
    pR = np.concatenate([np.sqrt(q * q + s12)[:, None], q[:, None] * nq], -1)
    p3 = np.concatenate([np.sqrt(q * q + m3 * m3)[:, None], -q[:, None] * nq], -1)
    p = breakup(m12, m1, m2)
    npp = unit(rng, n)
    p1s = np.concatenate([np.sqrt(p * p + m1 * m1)[:, None], p[:, None] * npp], -1)
    p2s = np.concatenate([np.sqrt(p * p + m2 * m2)[:, None], -p[:, None] * npp], -1)
    beta = pR[:, 1:] / pR[:, :1]
    return boost(p1s, beta), boost(p2s, beta), p3


class Reference:
    """closed form of the property, every discrete ingredient from the TLC tables"""

    def __init__(self, out):
        self.pj = {}
        for J, row in out["pj"]:
            co = []
            for sgn, num, den in row:
                r = math.isqrt(num)
                if r * r != num:
                    raise tlc.MachineryError("P_J coefficient is not rational")
                co.append(float(Fraction(sgn * r, den)))
            self.pj[J] = co
        self.bw = {L: [float(c) for c in row] for L, row in out["bw"]}
        self.sign = {J: s for J, s in out["sign"]}

    def P(self, J, x):
        u, v = (1 - x) / 2, (1 + x) / 2
        return sum(c * u**k * v ** (J - k) for k, c in enumerate(self.pj[J]))

    def B(self, L, q, q0, d=D_RADIUS):
        return np.sqrt(np.polyval(self.bw[L], (q0 * d) ** 2) / np.polyval(self.bw[L], (q * d) ** 2))

    def chain(self, pa, pb, pc, M0, J, m0, g0, c, nom=None):
        """amplitude of A -> R c, R -> a b.  q: momentum of R in the A frame (q0 at the nominal masses),
        p: momentum of a in the R frame (p0 at the nominal mass), theta: angle of a in the R frame
        with respect to the flight direction of R in the A frame"""
        ma, mb, mc = mass(pa), mass(pb), mass(pc)
        pr = pa + pb
        pA = pr + pc
        m = mass(pr)
        q = breakup(mass(pA), m, mc)
        ma0, mb0, mc0 = nom if nom is not None else (float(np.mean(ma)), float(np.mean(mb)), float(np.mean(mc)))
        q0 = breakup(M0, m0, mc0)
        p = breakup(m, ma, mb)
        p0 = breakup(m0, ma0, mb0)
        prA = to_rest(pr, pA)
        paR = to_rest(to_rest(pa, pA), prA)
        z = prA[:, 1:]
        cos = (paR[:, 1:] * z).sum(-1) / np.linalg.norm(paR[:, 1:], axis=-1) / np.linalg.norm(z, axis=-1)
        gam = g0 * (p / p0) ** (2 * J + 1) * (m0 / m) * self.B(J, p, p0) ** 2
        bw = 1.0 / (m0**2 - m**2 - 1j * m0 * gam)
        amp = c * self.sign[J] * q**J * p**J * self.B(J, q, q0) * self.B(J, p, p0) * bw * self.P(J, cos)
        return amp, (q, p, cos)


def build_config(act, Js, M, ms, res):
    fm = dict(zip(FINALS, ms))
    dec = {"A": [[CHAINS[k][0], CHAINS[k][2]] for k in act]}
    part = {"$top": {"A": {"J": 0, "P": -1, "mass": M}}, "$finals": {n: {"J": 0, "P": -1, "mass": fm[n]} for n in FINALS}}
    for k in act:
        name, (a, b), _ = CHAINS[k]
        dec[name] = [a, b]
        part[name] = {"J": Js[k], "P": (-1) ** Js[k], "mass": res[k][0], "width": res[k][1]}
    return {"data": {"dat_order": list(FINALS)}, "decay": dec, "particle": part}




def run(ctx):
    quick = ctx.tier == "quick"
    npt = 2 if quick else 3
    nev = 64 if quick else 512  # per frame
    ngrid = 1 if quick else 2
    cart_every = 8 if quick else 3
    r = run_tlc("ClosedForm", _cfg(ctx, npt, quick), work=ctx.work, workers=16, timeout=1800)
    if r.violation:
        raise tlc.MachineryError("ClosedForm spec violates its own theorem %s" % r.violation)
    ctx.tlc(r, "ClosedForm MaxJ=4 NPT=%d HalfFraction=%s" % (npt, quick), vacuity_actions=["NextCF"])
    out = r.out
    if r.distinct != out["nstates"]:
        raise tlc.MachineryError("ClosedForm: %d states, %d expected" % (r.distinct, out["nstates"]))
    ref = Reference(out)
    frames = list(out["frames"])
    if frames[0] != "rest" or set(frames) - {"rest", "lab"}:
        raise tlc.MachineryError("unknown frames %s" % frames)
    # lattice[i] (1-based): couplings (total, g1, g2), c = product (TLC), mass position, width fraction
    lattice = {}
    for i, (t, c) in enumerate(out["lattice"], 1):
        lattice[i] = {"triple": [complex(z[0], z[1]) for z in t[:3]], "c": complex(c[0], c[1]),
                      "pos": Fraction(t[3][0], t[3][1]), "wid": Fraction(t[4][0], t[4][1]), "raw": t}
    ctx.log("TLC: %d states, %d transitions, %d structures in %.1fs" % (r.distinct, r.generated - r.coverage.get("InitCF", 0), len(out["structures"]), r.wall))
    nviol = {}

    def viol(part, key, detail):
        nviol[part] = nviol.get(part, 0) + 1
        if nviol[part] <= CAP:
            ctx.violation(key, detail)

    from tf_pwa import breit_wigner as bwmod
    from tf_pwa.config_loader import ConfigLoader

    # ---- D-content: the Blatt-Weisskopf coefficient table / generator against the TLC table -------------
    for L, row in out["bw"]:
        try:
            gen = [int(x) for x in bwmod.get_bprime_coeff(L)]
        except Exception as e:  # noqa: BLE001
            viol("bw", "bprime_coeff:L=%d:raise" % L, {"error": repr(e)})
            continue
        if gen != row:
            viol("bw", "bprime_coeff:L=%d" % L, {"got": gen, "expected": row})
        for z in (1.0, 2.0, 0.5):
            got = float(bwmod.Bprime_polynomial(L, np.float64(z)))
            want = float(sum(Fraction(c) * Fraction(z) ** (L - i) for i, c in enumerate(row)))
            if got != want:
                viol("bw", "Bprime_polynomial:L=%d" % L, {"z": z, "got": got, "expected": want})
        ctx.count(4, distinct_key=("bw", L), nontrivial=L > 0)
    ctx.part("bw_table", orders=len(out["bw"]))

    structs = sorted(((tuple(sorted(map(tuple, J))), [dict(map(tuple, w)) for w in walk]) for J, walk in out["structures"]),
                     key=lambda s: (len(s[0]), s[0]))
    rng = np.random.default_rng(ctx.seed)
    n_eval = n_cart = n_models = n_steps = n_walks = 0
    worst = 0.0
    min_int = 1.0
    visited = set()
    for si, (skey, walk0) in enumerate(structs):
        act = [k for k, _ in skey]
        Js = dict(skey)
        stag = "+".join("%s(J=%d)" % (CHAINS[k][0], Js[k]) for k in act)
        if any(v != 1 for v in walk0[0].values()) or walk0[0] != walk0[-1]:
            raise tlc.MachineryError("walk of %s does not start and end at the initial point" % stag)
        for gi in range(ngrid):
            if gi and si % 2:
                continue  # budget: the second mass set / reversed walk on every other structure
            # Next is symmetric, so the reversed walk is a behaviour as well (second grid point, thorough tier)
            walk = walk0 if gi == 0 else walk0[::-1]
            M, ms = MASS_SETS[(si + gi) % len(MASS_SETS)]
            fm = dict(zip(FINALS, ms))
            win = {}
            for k in act:
                _, (a, b), c = CHAINS[k]
                win[k] = (fm[a] + fm[b], M - fm[c])

            def mw(k, i):
                lo, hi = win[k]
                return float(lo + lattice[i]["pos"] * Fraction(hi - lo)), float(lattice[i]["wid"] * Fraction(hi - lo))

            gtag = "M=%g,m=%s" % (M, list(ms))
            # events: interior of the Dalitz region for all three pairings, parent at rest; then the same
            # events boosted to a laboratory frame (one random velocity per event)
            p1, p2, p3 = gen_events(rng, M, ms, 3 * nev)
            rest = {"B": p1, "C": p2, "D": p3}
            keep = np.ones(len(p1), bool)
            for k in (1, 2, 3):
                _, (a, b), c = CHAINS[k]
                _, (q, p, cos) = ref.chain(rest[a], rest[b], rest[c], M, 0, 0.5 * (fm[a] + fm[b] + M - fm[c]), 0.1, 1.0)
                keep &= (q > 1e-3 * M) & (p > 1e-3 * M) & (np.abs(cos) < 1 - 1e-6)
            idx = np.where(keep)[0][:nev]
            if len(idx) < nev // 2:
                raise tlc.MachineryError("event generator produced too few interior events")
            rest = {n: v[idx] for n, v in rest.items()}
            ne = len(idx)
            beta = unit(rng, ne) * rng.uniform(0.2, 0.9, ne)[:, None]
            lab = {n: boost(v, beta) for n, v in rest.items()}
            blocks = {"rest": rest, "lab": lab}
            mom = {n: np.concatenate([blocks[f][n] for f in frames]) for n in FINALS}
            # oracle self-check: the closed form is frame independent
            k0 = act[0]
            _, (a, b), c = CHAINS[k0]
            m0_, g0_ = mw(k0, 1)
            a_r, _ = ref.chain(rest[a], rest[b], rest[c], M, Js[k0], m0_, g0_, 1.0, nom=(fm[a], fm[b], fm[c]))
            a_l, _ = ref.chain(lab[a], lab[b], lab[c], M, Js[k0], m0_, g0_, 1.0, nom=(fm[a], fm[b], fm[c]))
            if not np.allclose(a_r, a_l, rtol=1e-8, atol=1e-12 * np.abs(a_r).max()):
                raise tlc.MachineryError("reference closed form is not frame independent (%s)" % stag)
            try:
                cfg = ConfigLoader(build_config(act, Js, M, ms, {k: mw(k, 1) for k in act}))
                amp = cfg.get_amplitude()
                data = cfg.data.cal_angle([mom[n] for n in FINALS])
                chains = list(amp.decay_group)
            except Exception as e:  # noqa: BLE001
                viol("build", "build:%s" % stag, {"error": repr(e), "grid": gtag})
                continue
            n_models += 1
            # identify the chain objects and their parameter names; the (l,s) lists TLC proved unique
            names = {}
            for k in act:
                rname = CHAINS[k][0]
                ch = [c for c in chains if any(str(pp) == rname for pp in c.inner)]
                if len(ch) != 1:
                    raise tlc.MachineryError("cannot identify the chain of %s" % rname)
                decs = list(ch[0])
                d1 = [d for d in decs if str(d.core) == "A"][0]
                d2 = [d for d in decs if str(d.core) == rname][0]
                ls1 = [tuple(int(x) for x in ls) for ls in d1.get_ls_list()]
                ls2 = [tuple(int(x) for x in ls) for ls in d2.get_ls_list()]
                if ls1 != [(Js[k], Js[k])] or ls2 != [(Js[k], 0)]:
                    viol("ls", "ls_list:%s" % stag, {"A->Rc": ls1, "R->ab": ls2, "expected": [[Js[k], Js[k]], [Js[k], 0]]})
                rp = [pp for pp in ch[0].inner if str(pp) == rname][0]
                names[k] = {"cpl": (ch[0].total.name + "_0", d1.g_ls.name + "_0", d2.g_ls.name + "_0"),
                            "mass": getattr(rp.mass, "name", None), "width": getattr(rp.width, "name", None)}
            allp = cfg.get_params()
            for k in act:
                for nm in names[k]["cpl"]:
                    if nm + "r" not in allp or nm + "i" not in allp:
                        raise tlc.MachineryError("parameter %s not found in the model" % nm)
                for nm in (names[k]["mass"], names[k]["width"]):
                    if nm not in allp:
                        raise tlc.MachineryError("parameter %s not found in the model" % nm)
            unit_amp = {}

            def uamp(k, i):
                """reference amplitude of chain k at lattice point i for unit coupling (rest-frame momenta)"""
                if (k, i) not in unit_amp:
                    _, (a, b), c = CHAINS[k]
                    m0, g0 = mw(k, i)
                    unit_amp[(k, i)], _ = ref.chain(rest[a], rest[b], rest[c], M, Js[k], m0, g0, 1.0, nom=(fm[a], fm[b], fm[c]))
                return unit_amp[(k, i)]

            def ptag(pt):
                return ",".join("%s=%d" % (CHAINS[k][0], pt[k]) for k in act)

            def compare(pt, prev, mode):
                nonlocal n_eval, worst, min_int
                terms = [lattice[pt[k]]["c"] * uamp(k, pt[k]) for k in act]
                want1 = np.abs(sum(terms)) ** 2
                scale1 = sum(np.abs(t) for t in terms) ** 2
                try:
                    got = np.asarray(amp(data))
                except Exception as e:  # noqa: BLE001
                    viol("density", "density:%s:pt=%s:raise" % (stag, ptag(pt)), {"error": repr(e)})
                    return
                n_eval += 1
                if got.shape != (ne * len(frames),):
                    viol("density", "density:%s:shape" % stag, {"shape": list(got.shape)})
                    return
                if len(act) > 1:
                    min_int = min(min_int, float((want1 / scale1).min()))
                for fi, fr in enumerate(frames):
                    g = got[fi * ne:(fi + 1) * ne]
                    err = np.abs(g - want1)
                    tol = 1e-8 * want1 + 1e-11 * scale1
                    rel = float(np.nanmax(err / (want1 + 1e-4 * scale1))) if np.isfinite(err).any() else float("inf")
                    worst = max(worst, rel) if np.isfinite(rel) else worst
                    if not (err <= tol).all():
                        i = int(np.nanargmax(np.where(np.isfinite(err), err - tol, np.inf)))
                        viol("density", "density:%s:pt=%s:after=%s:%s:%s" % (stag, ptag(pt), ptag(prev) if prev else "build", fr, mode),
                             {"grid": gtag, "point": {CHAINS[k][0]: {"lattice": lattice[pt[k]]["raw"], "mass,width": mw(k, pt[k])} for k in act},
                              "previous_point": ptag(prev) if prev else None, "frame": fr,
                              "event": {n: blocks[fr][n][i].tolist() for n in FINALS}, "got": float(g[i]),
                              "expected": float(want1[i]), "max_rel_err": rel, "n_bad": int((~(err <= tol)).sum()), "n_events": ne})
                        break

            def set_point(pt, polar, with_masses):
                par = {}
                for k in act:
                    for nm, z in zip(names[k]["cpl"], lattice[pt[k]]["triple"]):
                        if polar:
                            par[nm + "r"], par[nm + "i"] = abs(z), float(np.angle(z))
                        else:
                            par[nm + "r"], par[nm + "i"] = z.real, z.imag
                    if with_masses:
                        par[names[k]["mass"]], par[names[k]["width"]] = mw(k, pt[k])
                cfg.set_params(par)

            # ---- replay the TLC walk on this one model object -------------------------------------------
            prev = None
            for step, pt in enumerate(walk):
                # step 0: the model as built (masses/widths from the configuration), couplings entered
                set_point(pt, True, with_masses=step > 0)
                compare(pt, prev, "polar")
                visited.add((skey, tuple(sorted(pt.items()))))
                prev = pt
                n_steps += step > 0
            n_walks += 1
            # the same points entered as cartesian parameters: P0 -> P1 -> P0
            if (si + gi) % cart_every == 0:
                amp.vm.rp2xy_all()
                for pt in (walk[0], walk[1], walk[0]):
                    set_point(pt, False, True)
                    compare(pt, prev, "cartesian")
                    prev = pt
                    n_cart += 1
            if si in (3, 40, 150) and gi == 0:
                ctx.sample({"structure": stag, "grid": gtag, "frames": frames, "events_per_frame": ne,
                            "walk(lattice index per chain)": [ptag(pt) for pt in walk],
                            "lattice": {i: {"total,g_ls,g_ls,pos,width": lattice[i]["raw"], "c_k(TLC)": [lattice[i]["c"].real, lattice[i]["c"].imag]} for i in lattice},
                            "sign(-1)^J(TLC)": {CHAINS[k][0]: ref.sign[Js[k]] for k in act}})
    for kk in visited:
        ctx.count(0, distinct_key=kk, nontrivial=True)
    ctx.count(n_eval)
    if len(visited) != out["nstates"]:
        ctx.log("warning: %d of %d TLC states visited on the code" % (len(visited), out["nstates"]))
    ctx.part("density", structures=len(structs), models_built=n_models, tlc_states=out["nstates"], states_visited_on_code=len(visited),
             walks_replayed=n_walks, set_params_steps=n_steps, density_calls=n_eval, cartesian_calls=n_cart,
             frames=frames, events_per_frame=nev, grids_per_structure=ngrid,
             max_rel_err=worst, strongest_destructive_interference=min_int)
    ctx.cov["traces_validated_against_impl"] = n_walks
    ctx.cov["exhaustive"] = False
    ctx.cov["rule"] = (
        "discrete part exhaustive: every (structure, parameter point) of ClosedForm.tla is one TLC state (215 structures = non-empty subsets of the "
        "3 chains x J in 0..4 per chain; %d lattice points per chain%s = %d states; SetParams transitions between the points of a structure); "
        "per structure one model is built through ConfigLoader(dict) (%d mass set(s); the second one, with the reversed walk, on every other structure) and driven along the TLC walk (start, every other point, start) "
        "with set_params (couplings, masses, widths); after every step the density on %d seeded interior events per frame (frames %s: parent at rest, "
        "same events boosted to a laboratory frame) is compared with the closed form of the current point; reference from the TLC tables "
        "(P_J, B_J coefficients, (-1)^J, c_k, mass/width lattice); |got-ref| <= 1e-8 ref + 1e-11 (sum_k|A_k|)^2; every %d-th model also P0,P1,P0 in cartesian "
        "coordinates. continuous part (events, final-state masses, boost velocities) sampled. distinct = distinct (structure, parameter point) visited on the code"
        % (npt, ", balanced half fraction for three-chain structures" if quick else "", out["nstates"], ngrid, nev, frames, cart_every)
    )
    ctx.assume("nominal resonance masses inside the kinematic window (m_a+m_b < m0 < M-m_c): q0 and p0 real")
    ctx.assume("barrier radius d = 3.0 (documented default), running-width BW with L = J, events in the interior of the Dalitz region; laboratory boosts 0.2 <= beta <= 0.9")
    ctx.assume("c_k = total * g_ls(A->R c) * g_ls(R->a b); helicity angle = angle of the first listed daughter of R in the R frame w.r.t. the R flight direction")
    ctx.assume("the walk covers every state of a structure but not every SetParams transition (TLC explores all of them on the spec)")
    ctx.assume("final-state masses, events and boosts are sampled (seeded); spins above 4 not enumerated")


def replay(ctx, path):
    run(ctx)
