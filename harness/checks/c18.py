"""C18 -- structured event data operations are lossless.

Specs: spec/DataOps.tla (declarative Split/Merge/Mask/Index/BatchCall/LazyCall
plus the implementation-shaped generator of data_generator as a step machine
with MAX_ITER as a constant), spec/DatFile.tla (momentum-file layout, dat_order,
multi-file inputs; load_dat_file as a step machine).

Binding (B3, exact, exhaustive on the bounded domain): every case TLC
enumerates is executed on tf_pwa.data / tf_pwa.cal_angle /
tf_pwa.config_loader.data with event ids as array contents and compared with
the TLC tables.  Code -> spec (B2): the calls of data_split made by
tf_pwa/tests/test_data.py and by the MAX_ITER boundary probes are recorded and
validated by a TLC run (IN_FILE) against the declarative Split.
"""
import inspect
import itertools
import json
import os
import random

import numpy as np

from .. import tlc

LEVEL = "model_checking"

# event axis last (data_split(axis=-1) / data_merge(axis=-1)) is bound as a
# second layout of the same TLC cases
CHECK_AXIS_LAST = True

# keys of the mechanisms the generator model predicts (never capped); every other
# key names one failing case, and at most CAP of those are reported per run
MECHANISMS = (
    "split:empty_tuple",
    "split:empty_dict:N>MAX_ITER*b",
    "split:empty_list:N>MAX_ITER*b",
    "lazycall:empty_extra:N>MAX_ITER*b",
    "merge:axis=-1:nested",
    "lazy_cache:nested_stages_share_cache_file",
)
CAP = 40


def _viol(ctx, key, detail):
    st = ctx.cov["parts"].setdefault("reporting", {"case_keys_reported": 0, "case_keys_suppressed": 0})
    if key not in MECHANISMS:
        if key in getattr(ctx, "_c18_seen", set()):
            return
        ctx.__dict__.setdefault("_c18_seen", set()).add(key)
        if st["case_keys_reported"] >= CAP:
            st["case_keys_suppressed"] += 1
            return
        st["case_keys_reported"] += 1
    ctx.violation(key, detail)


INVS = ["TypeOK", "SplitMerge", "BatchCallWhole", "MaskExact", "IndexExact", "GenPrefix", "GenLossless", "GenLeafless", "ModelsAgree", "LazyNoExtra"]
LEGACY_INVS = ["TypeOK", "GenPrefix", "LegacyRelation", "ModelsAgree", "LazyNoExtra"]


# --------------------------------------------------------------------------
# cfg files
# --------------------------------------------------------------------------
def _cfg_ops(ctx, name, nodes, maxn, maxnbig, max_iter, invs, post="Post", init="Init", nxt="Next", legacy=False):
    p = os.path.join(ctx.work, "dataops_%s.cfg" % name)
    with open(p, "w") as f:
        f.write("CONSTANTS MaxNodes = %d\n MaxN = %d\n MaxNBig = %d\n MAX_ITER = %d\n Widths = {0, 2}\n Legacy = %s\n" % (nodes, maxn, maxnbig, max_iter, "TRUE" if legacy else "FALSE"))
        f.write("INIT %s\nNEXT %s\n" % (init, nxt))
        for i in invs:
            f.write("INVARIANT %s\n" % i)
        if post:
            f.write("POSTCONDITION %s\n" % post)
        f.write("CHECK_DEADLOCK FALSE\n")
    return p


def _cfg_dat(ctx, maxp, maxev):
    p = os.path.join(ctx.work, "datfile.cfg")
    with open(p, "w") as f:
        f.write("CONSTANTS MaxP = %d\n MaxEv = %d\nINIT Init\nNEXT Next\n" % (maxp, maxev))
        for i in ["TypeOK", "Layout", "NoRaise", "InferredSplit", "Progress", "RoundTrip"]:
            f.write("INVARIANT %s\n" % i)
        f.write("POSTCONDITION Post\nCHECK_DEADLOCK FALSE\n")
    return p


# --------------------------------------------------------------------------
# spec value <-> python structure
# --------------------------------------------------------------------------
def _seq(x):
    """TLC serialises an empty function as {} and sequences as lists"""
    if isinstance(x, dict):
        if not x:
            return []
        return [x[k] for k in sorted(x, key=int)]
    return x


def tstr(t):
    """compact, stable name of a shape"""
    k = t["kind"]
    if k == "leaf":
        return "L" if t["w"] == 0 else "L%d" % t["w"]
    ch = ",".join(tstr(c) for c in _seq(t["ch"]))
    return {"dict": "{%s}", "list": "[%s]", "tuple": "(%s)"}[k] % ch


def has_empty(t, kinds):
    if t["kind"] == "leaf":
        return False
    ch = _seq(t["ch"])
    if not ch:
        return t["kind"] in kinds
    return any(has_empty(c, kinds) for c in ch)


def has_w(t):
    if t["kind"] == "leaf":
        return t["w"] > 0
    return any(has_w(c) for c in _seq(t["ch"]))


def is_nested(t):
    return t["kind"] != "leaf"


def build(node, dtype=np.float64, last=False, keyf=None):
    """spec node -> real structure with numpy leaves (last: event axis last)"""
    k = node["kind"]
    if k == "leaf":
        v = _seq(node["v"])
        if node["w"] == 0:
            return np.array(v, dtype=dtype).reshape((len(v),))
        a = np.array([_seq(r) for r in v], dtype=dtype).reshape((len(v), node["w"]))
        return np.ascontiguousarray(a.T) if last else a
    ch = [build(c, dtype, last, keyf) for c in _seq(node["ch"])]
    if k == "dict":
        kf = keyf or (lambda i: "k%d" % i)
        return {kf(i + 1): c for i, c in enumerate(ch)}
    if k == "list":
        return list(ch)
    return tuple(ch)


def expect(node):
    """spec node -> canonical comparable form"""
    k = node["kind"]
    if k == "leaf":
        v = _seq(node["v"])
        if node["w"] == 0:
            return ("leaf", (len(v),), [float(x) for x in v])
        return ("leaf", (len(v), node["w"]), [float(x) for r in v for x in _seq(r)])
    ch = [expect(c) for c in _seq(node["ch"])]
    if k == "dict":
        return ("dict", {"k%d" % (i + 1): c for i, c in enumerate(ch)})
    return (k, ch)


def proj(x, last=False):
    """real structure -> the same canonical form (projection impl -> spec)"""
    if isinstance(x, dict):
        return ("dict", {str(k): proj(v, last) for k, v in x.items()})
    if isinstance(x, list):
        return ("list", [proj(v, last) for v in x])
    if isinstance(x, tuple):
        return ("tuple", [proj(v, last) for v in x])
    a = np.asarray(x)
    if last and a.ndim == 2:
        a = a.T
    return ("leaf", tuple(int(s) for s in a.shape), [float(v) for v in a.reshape(-1)])


def leaves(x):
    if isinstance(x, dict):
        return [l for v in x.values() for l in leaves(v)]
    if isinstance(x, (list, tuple)):
        return [l for v in x for l in leaves(v)]
    return [x]


def take(gen, cap):
    """at most cap items (a repaired generator may be unbounded on event-less trees)"""
    return list(itertools.islice(gen, cap))


def shifted(x, off):
    if isinstance(x, dict):
        return {k: shifted(v, off) for k, v in x.items()}
    if isinstance(x, list):
        return [shifted(v, off) for v in x]
    if isinstance(x, tuple):
        return tuple(shifted(v, off) for v in x)
    return x + off


def short(o, n=300):
    s = json.dumps(o, default=str)
    return s if len(s) <= n else s[:n] + "..."


# event-wise functions of the spec (F1, F2, F3, G, LazyF)
def make_funcs(last):
    def ev(x):
        tot = None
        for a in leaves(x):
            a = np.asarray(a, dtype=np.float64)
            if a.ndim == 2:
                a = a.sum(axis=0 if last else 1)
            tot = a if tot is None else tot + a
        return tot

    def f1(x):
        return ev(x)

    def f2(x):
        s = ev(x)
        return (s, {"k1": 2 * s + 1})

    def f3(x):
        return 2.0

    def g(x):
        return float(np.sum(ev(x)))

    def lazyf(x):
        return {"k1": ev(x)}

    return f1, f2, f3, g, lazyf


# --------------------------------------------------------------------------
# part A: TLC on DataOps
# --------------------------------------------------------------------------
def final_coverage(r):
    """per-action counts of the *last* coverage report (TLC also prints interim
    reports every minute; harness.tlc sums all of them)"""
    import re

    txt = r.stdout
    i = txt.rfind("The coverage statistics at")
    if i >= 0:
        txt = txt[i:]
    cov = {}
    for m in re.finditer(r"^<(\w+) line \d+, col \d+ to line \d+, col \d+ of module (\w+)(?: \([\d ]+\))?>: (\d+):(\d+)", txt, re.M):
        cov[m.group(1)] = cov.get(m.group(1), 0) + int(m.group(4))
    return cov or r.coverage


def tlc_dataops(ctx, nodes, maxn, maxnbig, max_iter):
    r = tlc.run("DataOps", _cfg_ops(ctx, "exh", nodes, maxn, maxnbig, max_iter, INVS), work=ctx.work, workers=16, timeout=2400)
    if r.violation:
        raise tlc.MachineryError("DataOps violates its own theorem %s: %s" % (r.violation, r.trace[-1:] if r.trace else ""))
    r.coverage = final_coverage(r)
    ctx.tlc(r, "DataOps nodes<=%d N<=%d/%d MAX_ITER=%d" % (nodes, maxn, maxnbig, max_iter), vacuity_actions=["Pick", "Yield", "Stop"])
    out = r.out
    if not out or out["ncases"] != len(out["cases"]):
        raise tlc.MachineryError("DataOps table incomplete")
    # states = shapes + cases + generator steps; every case is one Pick
    if r.coverage.get("Pick") != out["ncases"] or r.coverage.get("Init") != out["nshapes"]:
        raise tlc.MachineryError("DataOps: Pick=%s cases=%s Init=%s shapes=%s" % (r.coverage.get("Pick"), out["ncases"], r.coverage.get("Init"), out["nshapes"]))
    return out


def tlc_legacy(ctx, max_iter, exhaustive):
    """the generator before the repair (Legacy = TRUE): TLC refutes GenLossless and returns the
    counterexample (a regression witness); optionally the legacy characterisation is checked exhaustively"""
    r = tlc.run(
        "DataOps",
        _cfg_ops(ctx, "legacy_refute", 3, 2, 2, max_iter, ["GenLossless"], post=None, legacy=True),
        work=ctx.work,
        workers=1,
        timeout=900,
        expect_violation=True,
        coverage=False,
    )
    if r.violation != "GenLossless" or not r.trace:
        raise tlc.MachineryError("the legacy generator model is expected to violate GenLossless; TLC says %r" % r.violation)
    ctx.cov["tlc_runs"].append({"run": "DataOps Legacy=TRUE GenLossless (expected refutation)", "violated": r.violation, "trace_len": len(r.trace), "wall_s": round(r.wall, 2)})
    if exhaustive:
        r2 = tlc.run("DataOps", _cfg_ops(ctx, "legacy_exh", 3, 4, 4, max_iter, LEGACY_INVS, post=None, legacy=True), work=ctx.work, workers=8, timeout=1800)
        if r2.violation:
            raise tlc.MachineryError("legacy generator model violates %s" % r2.violation)
        r2.coverage = final_coverage(r2)
        ctx.tlc(r2, "DataOps Legacy=TRUE nodes<=3 N<=4 (LegacyRelation)", vacuity_actions=["Pick", "Yield", "Stop"])
    return r.trace


def plain(v):
    """parse_value output -> JSON-like (FD -> dict, tuples -> lists)"""
    if isinstance(v, dict):
        return {k: plain(x) for k, x in v.items()}
    if isinstance(v, (tuple, list)):
        return [plain(x) for x in v]
    if isinstance(v, frozenset):
        return sorted(plain(x) for x in v)
    return v


# --------------------------------------------------------------------------
# part B: binding of the DataOps cases
# --------------------------------------------------------------------------
class Binder:
    def __init__(self, ctx, out):
        import tf_pwa.data as D

        self.ctx = ctx
        self.D = D
        self.max_iter = out["max_iter"]
        par = inspect.signature(D.data_generator).parameters
        self.has_max_iter = "MAX_ITER" in par
        self.real_max_iter = par["MAX_ITER"].default if self.has_max_iter else 1000
        if not self.has_max_iter:
            ctx.notes.append("model_drift: data_generator has no MAX_ITER parameter any more; the step model is not bound")
        self.cases = out["cases"]
        self.filled = {}
        for c in self.cases:
            if c["op"] == "index":
                self.filled[(tstr(c["t"]), c["n"])] = c["d"]
        self.n = {"split": 0, "mask": 0, "index": 0, "gen": 0, "axis_last": 0, "lazy": 0, "merge": 0, "batch": 0, "gen_model": 0}
        self.drift = 0
        self.validated = 0

    # -- helpers ---------------------------------------------------------
    def viol(self, key, detail):
        _viol(self.ctx, key, detail)

    def classify_split(self, t, n, b, got_len, last=False):
        """key of a split mismatch: the two mechanisms the generator model
        predicts, or the specific case"""
        nb = (n + b - 1) // b
        if has_empty(t, ("tuple",)) and got_len == 0:
            return "split:empty_tuple"
        return "split:%s:N=%d:b=%d%s" % (tstr(t), n, b, ":axis=-1" if last else "")

    def legacy_key(self, t):
        """key of the pre-repair mechanism that would explain a loss on tree t"""
        if has_empty(t, ("tuple",)):
            return "split:empty_tuple"
        if has_empty(t, ("dict",)):
            return "split:empty_dict:N>MAX_ITER*b"
        return "split:empty_list:N>MAX_ITER*b"

    def run_all(self):
        D = self.D
        ctx = self.ctx
        for ci, c in enumerate(self.cases):
            op = c["op"]
            if op == "split":
                self.split_case(c, ci)
            elif op == "mask":
                self.mask_case(c, ci)
            elif op == "index":
                self.index_case(c, ci)
            else:
                self.gen_case(c)
        ctx.part("dataops_binding", **self.n)
        sp = [c for c in self.cases if c["op"] == "split"]
        ctx.part(
            "generator_model",
            split_cases=len(sp),
            lossless_in_repaired_model=sum(1 for c in sp if c["genlen"] == len(_seq(c["pieces"]))),
            legacy_lost_by_empty_tuple=sum(1 for c in sp if has_empty(c["t"], ("tuple",))),
            legacy_lost_by_max_iter_cap=sum(1 for c in sp if not c["legacy_lossless"] and not has_empty(c["t"], ("tuple",))),
        )
        ctx.part("dataops_binding", model_drift=self.drift)

    # -- split / merge / batch_call / generator / lazy --------------------
    def split_case(self, c, ci):
        D, ctx = self.D, self.ctx
        t, n, b = c["t"], c["n"], c["b"]
        name = tstr(t)
        d = self.filled[(name, n)]
        dtype = np.float64 if ci % 3 else np.int64
        x = build(d, dtype)
        want_d = expect(d)
        want = [expect(p) for p in _seq(c["pieces"])]
        self.n["split"] += 1
        ctx.count(1, distinct_key=("split", name, n, b))
        e_tuple = has_empty(t, ("tuple",))
        # 1. data_split (alias split_generator) against the declarative Split
        fn = D.data_split if ci % 2 else D.split_generator
        split_ok = False
        try:
            real = take(fn(x, b), n + self.max_iter + 3)
            got = [proj(p) for p in real]
        except Exception as e:  # noqa: BLE001
            self.viol("split:%s:N=%d:b=%d:raise" % (name, n, b), {"error": repr(e)})
            real, got = None, None
        if got is not None:
            if got == want:
                split_ok = True
                self.validated += 1
            else:
                self.viol(self.classify_split(t, n, b, len(got)), {"tree": name, "N": n, "batch": b, "pieces_got": len(got), "pieces_expected": len(want), "got": short(got), "expected": short(want)})
        # 2. the implementation-shaped model against data_generator(MAX_ITER = spec constant)
        gen = None
        if self.has_max_iter:
            try:
                gen = [proj(p) for p in take(D.data_generator(x, fun=D._data_split, args=(b,), kwargs={"axis": 0}, MAX_ITER=self.max_iter), n + self.max_iter + 3)]
            except Exception as e:  # noqa: BLE001
                self.viol("generator:%s:N=%d:b=%d:raise" % (name, n, b), {"error": repr(e)})
        if gen is not None:
            self.n["gen_model"] += 1
            model = want[: c["genlen"]]  # repaired model: every batch (GenLossless)
            legacy = want[: c["legacy_genlen"]]
            if gen == model:
                self.validated += 1
            elif gen == legacy and len(legacy) < len(want):
                # the behaviour before commit 1398c06 is back
                self.viol(self.legacy_key(t), {"via": "data_generator(MAX_ITER=%d)" % self.max_iter, "tree": name, "N": n, "batch": b, "batches_got": len(gen), "batches_expected": len(want)})
            else:
                self.viol("generator:%s:N=%d:b=%d" % (name, n, b), {"got": short(gen), "model": short(model)})
        # 3. data_merge on the spec's pieces (independent of data_split)
        try:
            m = proj(D.data_merge(*[build(p, dtype) for p in _seq(c["pieces"])]))
            self.n["merge"] += 1
            if m != want_d:
                self.viol("merge:%s:N=%d:b=%d" % (name, n, b), {"got": short(m), "expected": short(want_d)})
            elif split_ok:
                m2 = proj(D.data_merge(*real))
                if m2 != want_d:
                    self.viol("merge_of_split:%s:N=%d:b=%d" % (name, n, b), {"got": short(m2), "expected": short(want_d)})
        except Exception as e:  # noqa: BLE001
            self.viol("merge:%s:N=%d:b=%d:raise" % (name, n, b), {"error": repr(e)})
        # 4. batch-wise application = application to the whole
        f1, f2, f3, g, lazyf = make_funcs(False)
        for tag, f, exp in (("f1", f1, c["f1"]), ("f2", f2, c["f2"]), ("f3", f3, c["f3"])):
            self.n["batch"] += 1
            try:
                call = D.batch_call_numpy if (tag == "f1" and ci % 2) else D.batch_call
                gotf = proj(call(f, x, batch=b))
                whole = f(x)
                whole = proj(whole if tag != "f3" else whole * np.ones((n,)))
                if gotf != expect(exp) or whole != expect(exp):
                    self.viol("batch_call:%s:%s:N=%d:b=%d" % (tag, name, n, b), {"got": short(gotf), "whole": short(whole), "expected": short(expect(exp))})
            except AssertionError as e:
                # data_merge() of zero pieces: the empty-tuple mechanism again
                self.viol("split:empty_tuple" if (e_tuple and not split_ok) else "batch_call:%s:%s:N=%d:b=%d:raise" % (tag, name, n, b), {"error": repr(e), "via": "batch_call"})
            except Exception as e:  # noqa: BLE001
                self.viol("batch_call:%s:%s:N=%d:b=%d:raise" % (tag, name, n, b), {"error": repr(e)})
        try:
            s = D.batch_sum(g, x, batch=b)
            if float(s) != float(c["g"]) or g(x) != float(c["g"]):
                self.viol("batch_sum:%s:N=%d:b=%d" % (name, n, b), {"got": float(s), "expected": c["g"]})
        except IndexError as e:
            self.viol("split:empty_tuple" if (e_tuple and not split_ok) else "batch_sum:%s:N=%d:b=%d:raise" % (name, n, b), {"error": repr(e), "via": "batch_sum"})
        except Exception as e:  # noqa: BLE001
            self.viol("batch_sum:%s:N=%d:b=%d:raise" % (name, n, b), {"error": repr(e)})
        # 5. LazyCall: eval = eager ; iteration = batches of eval ; merge ; copy
        self.lazy_case(c, x, name, n, b, split_ok, e_tuple)
        # 6. event axis last
        if CHECK_AXIS_LAST and has_w(t):
            self.axis_last_case(c, d, name, n, b, want, want_d, dtype)
        if not getattr(self, "_sampled_split", False) and n == 3 and b == 2 and is_nested(t) and has_w(t):
            self._sampled_split = True
            ctx.sample({"op": "split", "tree": name, "N": n, "batch": b, "expected_pieces": [short(w, 200) for w in want], "generator_model_pieces(MAX_ITER=%d)" % self.max_iter: c["genlen"]})

    def lazy_case(self, c, x, name, n, b, split_ok, e_tuple):
        D = self.D
        f1, f2, f3, g, lazyf = make_funcs(False)
        want = expect(c["lazy"])
        self.n["lazy"] += 1
        try:
            L = D.LazyCall(lazyf, x)
            L["k2"] = np.arange(7001, 7001 + n, dtype=np.float64)
            ev = proj(L.eval())
            if ev != want:
                self.viol("lazy:eval:%s:N=%d" % (name, n), {"got": short(ev), "expected": short(want)})
                return
            if D.data_shape(L) != n or len(L) != n:
                self.viol("lazy:shape:%s:N=%d" % (name, n), {"data_shape": D.data_shape(L), "len": len(L)})
            it = take(D.data_split(L, b), n + self.max_iter + 3)
            nb = (n + b - 1) // b
            if not it:
                if e_tuple and not split_ok:
                    self.viol("split:empty_tuple", {"via": "LazyCall.__iter__", "tree": name})
                else:
                    self.viol("lazy:iter:%s:N=%d:b=%d" % (name, n, b), {"pieces": 0, "expected": nb})
                return
            merged = proj(D.data_merge(*it))
            if len(it) != nb or merged != want:
                self.viol("lazy:iter:%s:N=%d:b=%d" % (name, n, b), {"pieces": len(it), "expected_pieces": nb, "merged": short(merged), "expected": short(want)})
            # no extra entry at all (extra = {}): every batch of x is delivered
            L0 = D.LazyCall(lazyf, x)
            it0 = take(D.data_split(L0, b), n + self.max_iter + 3)
            m0 = proj(D.data_merge(*it0)) if it0 else None
            if len(it0) != c["lazylen"] or m0 != expect(c["lazy0"]) or proj(L0.eval()) != expect(c["lazy0"]):
                if not it0 and e_tuple and not split_ok:
                    self.viol("split:empty_tuple", {"via": "LazyCall.__iter__", "tree": name})
                else:
                    self.viol("lazy:iter_no_extra:%s:N=%d:b=%d" % (name, n, b), {"pieces": len(it0), "expected_pieces": c["lazylen"], "merged": short(m0)})
            L2 = L.copy()
            L2["k2"] = np.arange(7001, 7001 + n, dtype=np.float64) + 50
            if proj(L.eval()) != want:
                self.viol("lazy:copy_aliases_extra:%s:N=%d" % (name, n), {})
            if b == 1:
                L2 = D.LazyCall(lazyf, shifted(x, 100000))  # other events, so that the order of the merge shows
                L2["k2"] = np.arange(7001, 7001 + n, dtype=np.float64) + 50
                both = D.data_merge(L, L2)
                a = proj(both.eval())
                e2 = proj(D.data_merge(L.eval(), L2.eval()))
                if a != e2 or D.data_shape(both) != 2 * n:
                    self.viol("lazy:merge:%s:N=%d" % (name, n), {"got": short(a), "expected": short(e2)})
                ix = D.data_index(L, "k1")
                if proj(ix) != want[1]["k1"]:
                    self.viol("lazy:index:%s:N=%d" % (name, n), {"got": short(proj(ix))})
        except Exception as e:  # noqa: BLE001
            self.viol("lazy:%s:N=%d:b=%d:raise" % (name, n, b), {"error": repr(e)})

    def axis_last_case(self, c, d, name, n, b, want, want_d, dtype):
        D = self.D
        self.n["axis_last"] += 1
        x = build(d, dtype, last=True)
        try:
            real = take(D.data_split(x, b, axis=-1), n + self.max_iter + 3)
            got = [proj(p, last=True) for p in real]
        except Exception as e:  # noqa: BLE001
            self.viol("split:%s:N=%d:b=%d:axis=-1:raise" % (name, n, b), {"error": repr(e)})
            return
        if got != want:
            self.viol(self.classify_split(c["t"], n, b, len(got), last=True), {"axis": -1, "got": short(got), "expected": short(want)})
            return
        nested = is_nested(c["t"])
        try:
            m = proj(D.data_merge(*real, axis=-1), last=True)
            ok = m == want_d
            err = None
        except Exception as e:  # noqa: BLE001
            ok, err, m = False, repr(e), None
        if not ok:
            # a bare array merges correctly; below a container the axis argument is dropped
            key = "merge:axis=-1:nested" if nested else "merge:axis=-1:%s:N=%d:b=%d" % (name, n, b)
            self.viol(key, {"tree": name, "N": n, "batch": b, "error": err, "got": short(m), "expected": short(want_d)})

    # -- mask -------------------------------------------------------------
    def mask_case(self, c, ci):
        D, ctx = self.D, self.ctx
        t, n = c["t"], c["n"]
        name = tstr(t)
        m = [bool(v) for v in _seq(c["m"])]
        d = self.filled[(name, n)]
        x = build(d, np.float64 if ci % 3 else np.int64)
        want = expect(c["r"])
        self.n["mask"] += 1
        mstr = "".join("1" if v else "0" for v in m)
        ctx.count(1, distinct_key=("mask", name, mstr))
        try:
            sel = np.array(m, dtype=bool)
            if ci % 2:
                import tensorflow as tf

                sel = tf.constant(sel)
            got = proj(D.data_mask(x, sel))
        except Exception as e:  # noqa: BLE001
            self.viol("mask:%s:m=%s:raise" % (name, mstr), {"error": repr(e)})
            return
        if got != want:
            self.viol("mask:%s:m=%s" % (name, mstr), {"got": short(got), "expected": short(want)})
        else:
            self.validated += 1
        if self.n["mask"] == 40:
            ctx.sample({"op": "mask", "tree": name, "mask": mstr, "expected": short(want, 200)})

    # -- index / structure / structured files -----------------------------
    def index_case(self, c, ci):
        D, ctx = self.D, self.ctx
        t, n, d = c["t"], c["n"], c["d"]
        name = tstr(t)
        x = build(d)
        self.n["index"] += 1
        ctx.count(1, distinct_key=("index", name, n))

        class K:  # a key that is found through str(k) == str(i) only (like a particle object)
            def __init__(self, s):
                self.s = s

            def __str__(self):
                return self.s

            def __hash__(self):
                return hash(("K", self.s))

            def __eq__(self, o):
                return isinstance(o, K) and o.s == self.s

        xk = build(d, keyf=lambda i: K("k%d" % i))
        for p, sub in c["idx"]:
            p = _seq(p)
            if not p:
                continue
            keys, node = [], t
            for i in p:
                keys.append("k%d" % i if node["kind"] == "dict" else i - 1)
                node = _seq(node["ch"])[i - 1]
            want = expect(sub)
            try:
                got = [proj(D.data_index(x, list(keys))), proj(D.data_index(x, tuple(keys))), proj(D.data_index(xk, list(keys)))]
                if len(keys) == 1:
                    got.append(proj(D.data_index(x, keys[0])))
            except Exception as e:  # noqa: BLE001
                self.viol("index:%s:path=%s:raise" % (name, keys), {"error": repr(e)})
                continue
            if any(gi != want for gi in got):
                self.viol("index:%s:path=%s" % (name, keys), {"got": short(got), "expected": short(want)})
            else:
                self.validated += 1
        # missing key
        if t["kind"] == "dict":
            try:
                D.data_index(x, "absent")
                self.viol("index:%s:absent_key_found" % name, {})
            except ValueError:
                pass
            if D.data_index(x, "absent", no_raise=True) is not None:
                self.viol("index:%s:absent_key_no_raise" % name, {})
        # structure-preserving helpers
        want_d = expect(d)
        try:
            import tensorflow as tf

            chk = {
                "data_map": proj(D.data_map(x, lambda a: a)),
                "to_tensor_to_numpy": proj(D.data_to_numpy(D.data_to_tensor(x))),
                "data_strip": proj(D.data_strip(x, ["no_such_key"])),
            }
            for kname, got in chk.items():
                if got != want_d:
                    self.viol("%s:%s:N=%d" % (kname, name, n), {"got": short(got), "expected": short(want_d)})
            if D.data_shape(x) != n:
                self.viol("data_shape:%s:N=%d" % (name, n), {"got": D.data_shape(x)})
            if not D.check_nan(x):
                self.viol("check_nan:%s" % name, {})
        except Exception as e:  # noqa: BLE001
            self.viol("structure:%s:N=%d:raise" % (name, n), {"error": repr(e)})
        if self.n["index"] == 30:
            ctx.sample({"op": "index", "tree": name, "N": n, "paths": len(c["idx"])})

    def gen_case(self, c):
        """trees without events: only the generator model is bound (drift only)"""
        D = self.D
        t = c["t"]
        x = build(t)
        self.n["gen"] += 1
        if not self.has_max_iter:
            return
        try:
            gen = take(D.data_generator(x, fun=D._data_split, args=(1,), kwargs={"axis": 0}, MAX_ITER=self.max_iter), self.max_iter + 3)
        except Exception as e:  # noqa: BLE001
            self.ctx.notes.append("model_drift: generator on %s raised %r" % (tstr(t), e))
            self.drift += 1
            return
        if len(gen) != c["genlen"] or any(proj(gi) != expect(t) for gi in gen):
            self.drift += 1
            if self.drift <= 5:
                self.ctx.notes.append("model_drift: generator on event-less %s yields %d items, model %d" % (tstr(t), len(gen), c["genlen"]))
        else:
            self.validated += 1


# --------------------------------------------------------------------------
# structured files: save_data / save_dataz / load_data / cached data
# --------------------------------------------------------------------------
def structured_files(ctx, binder, limit):
    D = binder.D
    wd = os.path.join(ctx.work, "sfiles")
    os.makedirs(wd, exist_ok=True)
    n_ok = n_other = 0
    idx_cases = [c for c in binder.cases if c["op"] == "index"]
    step = max(1, len(idx_cases) // limit)
    for c in idx_cases[::step]:
        t, n, d = c["t"], c["n"], c["d"]
        name = tstr(t)
        x = build(d)
        want = expect(d)
        for kind, saver, ext in (("npy", D.save_data, ".npy"), ("npz", D.save_dataz, ".npz")):
            fn = os.path.join(wd, "s_%d%s" % (n_ok + n_other, ext))
            try:
                saver(fn, x)
                back = D.load_data(fn)
                got = proj(back)
            except Exception as e:  # noqa: BLE001
                got = ("raise", repr(e))
            finally:
                if os.path.exists(fn):
                    os.remove(fn)
            if t["kind"] == "dict":
                # the cached-data format of tf_pwa: a dict at the root
                n_ok += 1
                ctx.count(1, distinct_key=("file", kind, name, n))
                if got != want:
                    _viol(ctx, "save_load:%s:%s:N=%d" % (kind, name, n), {"got": short(got), "expected": short(want)})
                else:
                    binder.validated += 1
            else:
                n_other += 1  # numpy's own conversion of bare arrays / lists: informational
                if got != want:
                    ctx.part("structured_files", non_dict_root_differs=1)
    ctx.part("structured_files", dict_root_roundtrips=n_ok, non_dict_root_informational=n_other)
    # keys that are particle objects survive pickling (as test_save_load does)
    from tf_pwa.particle import BaseParticle

    b = BaseParticle("b")
    x = {"a": np.arange(1.0, 4.0), b: {"p": np.arange(12.0).reshape(3, 4)}}
    fn = os.path.join(wd, "particle_keys.npy")
    D.save_data(fn, x)
    y = D.load_data(fn)
    if proj(y) != proj(x) or not np.array_equal(D.data_index(y, (b, "p")), x[b]["p"]):
        _viol(ctx, "save_load:particle_keys", {"got": short(proj(y))})
    os.remove(fn)


# --------------------------------------------------------------------------
# LazyCall with HeavyCall (tf.data pipeline) and LazyFile
# --------------------------------------------------------------------------
def lazy_heavy(ctx, binder, limit):
    D = binder.D
    import tensorflow as tf

    n_done = 0
    todo = []
    for c in binder.cases:
        if c["op"] != "split":
            continue
        t = c["t"]
        # tf.data.Dataset.from_tensor_slices / map: dict-rooted structures (a tuple root is unpacked into
        # several arguments by Dataset.map) without lists (converted to one tensor) and without empty containers
        if t["kind"] != "dict" or has_empty(t, ("dict", "list", "tuple")) or "[" in tstr(t):
            continue
        todo.append(c)
    step = max(1, len(todo) // limit)
    for c in todo[::step]:
        t, n, b = c["t"], c["n"], c["b"]
        name = tstr(t)
        d = binder.filled[(name, n)]
        x = build(d)
        want = expect(c["lazy"])

        def heavy(xx):
            tot = None
            for a in leaves(xx):
                a = tf.cast(a, tf.float64)
                if len(a.shape) == 2:
                    a = tf.reduce_sum(a, axis=1)
                tot = a if tot is None else tot + a
            return {"k1": tot}

        for src in ("memory", "lazyfile"):
            key = "lazy_heavy:%s:%s:N=%d:b=%d" % (src, name, n, b)
            try:
                L = D.LazyCall(D.HeavyCall(heavy), D.LazyFile(x) if src == "lazyfile" else x)
                L.prefetch = 0
                L["k2"] = np.arange(7001, 7001 + n, dtype=np.float64)
                ev = proj(D.data_to_numpy(L.eval()))
                it = [D.data_to_numpy(i) for i in D.data_split(L, b)]
                merged = proj(D.data_to_numpy(D.data_merge(*it))) if it else None
                it2 = [D.data_to_numpy(i) for i in D.data_split(L, b)]  # second pass: cached pipeline
                merged2 = proj(D.data_to_numpy(D.data_merge(*it2))) if it2 else None
                n_done += 1
                ctx.count(1, distinct_key=("lazy_heavy", src, name, n, b))
                if ev != want or merged != want or merged2 != want or len(it) != (n + b - 1) // b:
                    _viol(ctx, key, {"eval": short(ev), "merged": short(merged), "expected": short(want), "pieces": len(it)})
                else:
                    binder.validated += 1
            except Exception as e:  # noqa: BLE001
                _viol(ctx, key + ":raise", {"error": repr(e)[:300]})
    ctx.part("lazy_heavy", cases=n_done)


# --------------------------------------------------------------------------
# LazyCall objects with shared inner stages (spec/LazyCall.tla), B1 replay
# --------------------------------------------------------------------------
def _cfg_lazy(ctx, name, n, batches, maxobjs, heavy, restricted, invs):
    p = os.path.join(ctx.work, "lazycall_%s.cfg" % name)
    with open(p, "w") as f:
        f.write("CONSTANTS N = %d\n Batches = {%s}\n MaxObjs = %d\n AllowHeavy = %s\n Restricted = %s\n" % (n, ", ".join(map(str, batches)), maxobjs, "TRUE" if heavy else "FALSE", "TRUE" if restricted else "FALSE"))
        f.write("INIT Init\nNEXT Next\n")
        for i in invs:
            f.write("INVARIANT %s\n" % i)
        f.write("CHECK_DEADLOCK FALSE\n")
    return p


def _canon(v):
    """deterministic text of a parsed TLA+ value (graph node identity independent of TLC's ids)"""
    if isinstance(v, dict):
        return "[" + ",".join("%s:%s" % (k, _canon(v[k])) for k in sorted(v)) + "]"
    if isinstance(v, (tuple, list)):
        return "<" + ",".join(_canon(x) for x in v) + ">"
    if isinstance(v, frozenset):
        return "{" + ",".join(sorted(_canon(x) for x in v)) + "}"
    return str(v)


def _graph(dot):
    """labelled state graph -> (states by canonical text, sorted adjacency, init keys, shortest-path parents)"""
    nodes, edges, inits = tlc.parse_dot(dot)
    key = {i: _canon(st) for i, st in nodes.items()}
    states = {key[i]: st for i, st in nodes.items()}
    adj = {k: [] for k in states}
    for a, b, (act, args) in edges:
        adj[key[a]].append(((act, tuple(args)), key[b]))
    for k in adj:
        adj[k] = sorted(set(adj[k]), key=lambda e: (_canon(e[0]), e[1]))
    init = sorted(key[i] for i in inits)
    parent = {k: None for k in init}
    depth = {k: 0 for k in init}
    queue = list(init)
    while queue:
        u = queue.pop(0)
        for lab, v in adj[u]:
            if v not in parent:
                parent[v] = (u, lab)
                depth[v] = depth[u] + 1
                queue.append(v)
    return states, adj, init, parent, depth


def _path_to(parent, k):
    out = []
    while parent[k] is not None:
        u, lab = parent[k]
        out.append((u, lab, k))
        k = u
    return out[::-1]


class LazyWorld:
    """real LazyCall objects driven along a behaviour of spec/LazyCall.tla"""

    def __init__(self, D, n):
        import tensorflow as tf

        self.D, self.n, self.tf = D, n, tf
        self.ev = np.arange(1, n + 1, dtype=np.float64)
        self.objs = [D.LazyCall(self.ident, {"ev": self.ev.copy()})]
        self.uses = 0

    @staticmethod
    def ident(d):
        return dict(d)

    def step(self, act, args, observe=True):
        D = self.D
        if act == "Wrap":
            o, heavy, extra = args
            f = D.HeavyCall(self.ident) if heavy else self.ident
            new = D.LazyCall(f, self.objs[o - 1])
            new.prefetch = 0
            idn = len(self.objs) + 1
            if extra:
                new["w%d" % idn] = 1000.0 * idn + self.ev
            self.objs.append(new)
            return None
        if act == "Replace":
            (o,) = args
            idn = len(self.objs) + 1
            keys = [k for k in self.objs[o - 1].extra]
            key = keys[0] if keys else "w%d" % idn
            self.objs.append(D.data_replace(self.objs[o - 1], key, 1000.0 * idn + self.ev))
            return None
        if act == "AsDataset":
            o, b = args
            self.objs[o - 1].as_dataset(b)
            return None
        if act == "Use":
            o, b = args
            self.uses += 1
            obj = self.objs[o - 1]
            if not observe:
                D.data_split(obj, b)  # the entry point without consuming the batches: no further state change
                return None
            if self.uses % 2:
                items = take(D.data_split(obj, b), 3 * self.n + 3)
                merged = D.data_merge(*items) if items else None
            else:
                items = None
                merged = D.batch_call(self.ident, obj, b)
            return self.observe(obj, items, merged)
        if act == "Iterate":
            (o,) = args
            obj = self.objs[o - 1]
            if not observe:
                return None
            items = take(iter(obj), 3 * self.n + 3)
            return self.observe(obj, items, D.data_merge(*items) if items else None)
        raise tlc.MachineryError("unknown LazyCall action %s" % act)

    def observe(self, obj, items, merged):
        D = self.D
        ok = True
        lens = None
        if items is not None:
            lens = []
            for it in items:
                it = {k: np.asarray(v) for k, v in it.items()}
                e = it["ev"]
                lens.append(int(e.shape[0]))
                for k, v in it.items():
                    if k != "ev" and (v.shape != e.shape or not np.array_equal(v % 1000.0, e)):
                        ok = False
        eager = {k: np.asarray(v) for k, v in D.data_to_numpy(obj.eval()).items()}
        if merged is None:
            ok = False
        else:
            m = {k: np.asarray(v) for k, v in D.data_to_numpy(merged).items()}
            if set(m) != set(eager) or any(m[k].shape != eager[k].shape or not np.array_equal(m[k], eager[k]) for k in eager):
                ok = False
        # the eager value itself: every entry belongs to the events 1..n in order
        eager_ok = np.array_equal(eager["ev"], self.ev) and all(np.array_equal(v % 1000.0, self.ev) for k, v in eager.items() if k != "ev")
        return {"lens": lens, "ok": ok, "eager_ok": bool(eager_ok)}

    def batch_sizes(self):
        return [0 if o.batch_size is None else int(o.batch_size) for o in self.objs]


def _hist(path):
    out = []
    for _, (act, args), _ in path:
        a = {"Use": "U", "Wrap": "W", "Replace": "R", "AsDataset": "A", "Iterate": "I"}[act]
        out.append(a + ".".join("T" if x is True else "F" if x is False else str(x) for x in args))
    return ";".join(out)


def lazy_walks(ctx, D, states, adj, init, parent, depth, n, limit=None):
    """execute every edge of the state graph on real objects: one walk per edge (shortest prefix from the
    initial state on fresh objects; prefix steps are executed, the edge itself is executed and observed)"""
    edges = [(u, lab, v) for u in adj for lab, v in adj[u]]
    edges.sort(key=lambda e: (depth[e[0]], e[0], _canon(e[1]), e[2]))
    if limit is not None and len(edges) > limit:
        step = len(edges) / float(limit)
        edges_run = [edges[int(i * step)] for i in range(limit)]
    else:
        edges_run = edges
    walks = steps = drift = 0
    for e in edges_run:
        path = _path_to(parent, e[0]) + [e]
        walks += 1
        w = LazyWorld(D, n)
        hist = _hist(path)
        try:
            for u, (act, args), v in path[:-1]:
                steps += 1
                w.step(act, args, observe=False)
            steps += 1
            got = w.step(e[1][0], e[1][1])
        except Exception as ex:  # noqa: BLE001
            _viol(ctx, "lazy_objects:%s:raise" % hist, {"error": repr(ex)[:300]})
            continue
        want = states[e[2]]
        if got is not None:
            obs = want["obs"]
            if not got["eager_ok"]:
                _viol(ctx, "lazy_objects:%s:eval" % hist, {"history": hist})
                continue
            if obs["ok"] and not got["ok"]:
                # the property's observer on the real objects: lazy content != eager content
                _viol(ctx, "lazy_objects:%s" % hist, {"history": hist, "batch_lengths_got": got["lens"], "batch_lengths_spec": list(obs["lens"]), "objects": [dict(o) for o in plain(want["objs"])]})
                continue
            if (not obs["ok"]) != (not got["ok"]) or (got["lens"] is not None and list(obs["lens"]) != got["lens"]):
                drift += 1
        if w.batch_sizes() != [o["bs"] for o in want["objs"]]:
            drift += 1
    return {"edges": len(edges), "edges_executed": len(edges_run), "walks": walks, "steps": steps, "model_drift": drift}


def lazy_objects_part(ctx, binder, quick):
    D = binder.D
    n, batches = 5, (2, 3)
    total = 0
    runs = [("restricted", 3 if quick else 4, False, None)]
    if not quick:
        runs.append(("restricted_heavy", 3, True, 1500))  # tf.data pipelines are slow to build: an evenly spaced part of the edges
    for name, maxobjs, heavy, limit in runs:
        dot = os.path.join(ctx.work, "lazycall_%s.dot" % name)
        r = tlc.run("LazyCall", _cfg_lazy(ctx, name, n, batches, maxobjs, heavy, True, ["TypeOK", "PushedDown", "UseFaithful"]), work=ctx.work, workers=8, timeout=1800, dump_dot=dot)
        if r.violation:
            raise tlc.MachineryError("LazyCall violates its own theorem %s: %s" % (r.violation, _hist([(None, (a, tuple(g)), None) for a, g, _ in r.trace[1:]])))
        r.coverage = final_coverage(r)
        ctx.tlc(r, "LazyCall %s N=%d batches=%s objs<=%d" % (name, n, list(batches), maxobjs), vacuity_actions=["Use", "Wrap", "Replace"])
        states, adj, init, parent, depth = _graph(dot)
        if len(states) != r.distinct:
            raise tlc.MachineryError("LazyCall state graph has %d nodes, TLC reports %d states" % (len(states), r.distinct))
        st = lazy_walks(ctx, D, states, adj, init, parent, depth, n, limit)
        ctx.part("lazy_objects_" + name, states=len(states), **st)
        ctx.count(st["steps"], distinct_key=("lazy_objects", name))
        total += st["edges_executed"]
        if limit is None and st["edges_executed"] != st["edges"]:
            raise tlc.MachineryError("LazyCall replay covered %d of %d edges" % (st["edges_executed"], st["edges"]))
        os.remove(dot)
    # the lead scenario written out (sample) : sibling of a nested LazyCall, alternating batch sizes
    ctx.sample({"op": "LazyCall objects", "history": "W1FT;R2;U2.2;U3.3;U2.2", "meaning": "outer stage with weight on a shared inner stage, data_replace sibling, data_split with batch 2 / 3 / 2: every batch aligned, merge = eval"})
    # unrestricted: as_dataset and iteration as separate steps -- informational
    r = tlc.run("LazyCall", _cfg_lazy(ctx, "unrestricted", n, batches, 3, False, False, ["TypeOK", "PushedDown", "UseFaithful", "IterFaithful"]), work=ctx.work, workers=1, timeout=900, expect_violation=True, coverage=False)
    info = {"tlc_refutes": r.violation}
    if r.violation == "IterFaithful" and r.trace:
        w = LazyWorld(D, n)
        got = None
        path = [(None, (a, tuple(g)), None) for a, g, _ in r.trace[1:]]
        for _, (act, args), _ in path:
            got = w.step(act, args)
        info.update(history=_hist(path), reproduces_on_code=bool(got is not None and not got["ok"]))
    ctx.part("lazy_objects_unrestricted_informational", **info)
    ctx.cov["tlc_runs"].append({"run": "LazyCall Restricted=FALSE (informational)", "violated": r.violation, "wall_s": round(r.wall, 2)})
    return total


# --------------------------------------------------------------------------
# configuration-level cached-data file (spec/CachedData.tla), B1 replay
# --------------------------------------------------------------------------
SAMPLE_SIZES = {"data": 6, "phsp": 8, "bg": 4, "inmc": 3}
BG_WEIGHT = 0.5


class CacheWorld:
    """sessions (fresh ConfigLoader each) on one configuration and one cached-data file"""

    def __init__(self, wd, files, cfg, tag):
        self.cfg = cfg
        self.files = files
        self.cache_file = os.path.join(wd, "cached_%s.npy" % tag)
        if os.path.exists(self.cache_file):
            os.remove(self.cache_file)
        self.session = None
        self.new_session()

    def config(self):
        c = self.cfg
        d = {"dat_order": ["B", "C", "D"], "data": [self.files["data"]], "phsp": [self.files["phsp"]], "weight_scale": bool(c["weight_scale"])}
        if c["has_bg"]:
            d["bg"] = [self.files["bg"]]
            d["bg_weight"] = BG_WEIGHT
        if c["has_inmc"]:
            d["inmc"] = [self.files["inmc"]]
        if c["cache"]:
            d["cached_data"] = self.cache_file
        if not c["memo"]:
            d["format"] = "simple"
        return {
            "data": d,
            "decay": {"A": [["R", "C"]], "R": ["B", "D"]},
            "particle": {"$top": {"A": {"J": 0, "P": -1}}, "$finals": {k: {"J": 0, "P": -1} for k in "BCD"}, "R": {"J": 0, "P": 1, "mass": 1.0, "width": 0.1}},
        }

    def new_session(self):
        from tf_pwa.config_loader import ConfigLoader

        self.session = ConfigLoader(self.config())
        return None

    def get_all_data(self):
        import contextlib
        import io

        with contextlib.redirect_stdout(io.StringIO()):
            if self.cfg["memo"]:
                out = self.session.get_all_data()
            else:
                out = self.session.data.get_all_data()
        return dict(zip(["data", "phsp", "bg", "inmc"], out))

    def get_data(self, s):
        if self.cfg["memo"]:
            return {s: self.session.get_data(s)}
        return {s: self.session.data.get_data(s)}

    def close(self):
        if os.path.exists(self.cache_file):
            os.remove(self.cache_file)


def _groups(x):
    """a sample as handed out -> list of group dicts, or None when not configured"""
    if x is None:
        return None
    if isinstance(x, (list, tuple)):
        if all(g is None for g in x):
            return None
        return list(x)
    return [x]


def scale_count(s, x):
    """how often the weights of sample s were scaled by n_data / n_s (-1: not configured, None: not a power)"""
    g = _groups(x)
    if g is None:
        return -1
    w = np.asarray(g[0]["weight"], dtype=np.float64)
    n_s = SAMPLE_SIZES[s]
    if w.shape != (n_s,):
        return None
    base = -BG_WEIGHT if s == "bg" else 1.0
    factor = SAMPLE_SIZES["data"] / n_s
    for k in range(0, 4):
        if np.allclose(w, base * factor**k, rtol=1e-12, atol=0):
            return k
    return None


def flat_leaves(x):
    from tf_pwa.data import data_to_numpy, flatten_dict_data

    g = _groups(x)
    if g is None:
        return None
    return [{str(k): np.asarray(v) for k, v in flatten_dict_data(data_to_numpy(gi)).items()} for gi in g]


def same_content(a, b):
    fa, fb = flat_leaves(a), flat_leaves(b)
    if fa is None or fb is None:
        return fa is None and fb is None
    if len(fa) != len(fb):
        return False
    for ga, gb in zip(fa, fb):
        if set(ga) != set(gb):
            return False
        for k in ga:
            if ga[k].shape != gb[k].shape or not np.array_equal(ga[k], gb[k], equal_nan=True):
                return False
    return True


def cached_data_part(ctx, quick):
    from tf_pwa.phasespace import PhaseSpaceGenerator
    import tensorflow as tf

    dot = os.path.join(ctx.work, "cacheddata.dot")
    cfgp = os.path.join(ctx.work, "cacheddata.cfg")
    with open(cfgp, "w") as f:
        f.write("CONSTANTS MaxSessions = 3\nINIT Init\nNEXT Next\nINVARIANT TypeOK\nINVARIANT ScaledOnce\nCHECK_DEADLOCK FALSE\n")
    r = tlc.run("CachedData", cfgp, work=ctx.work, workers=8, timeout=900, dump_dot=dot)
    if r.violation:
        raise tlc.MachineryError("CachedData violates its own theorem %s" % r.violation)
    r.coverage = final_coverage(r)
    ctx.tlc(r, "CachedData MaxSessions=3", vacuity_actions=["NewSession", "GetData"])
    states, adj, init, parent, depth = _graph(dot)
    os.remove(dot)
    if len(states) != r.distinct or not any(lab[0] == "GetAllData" for k in init for lab, _ in adj[k]):
        raise tlc.MachineryError("CachedData state graph incomplete")
    wd = os.path.join(ctx.work, "cached")
    os.makedirs(wd, exist_ok=True)
    files = {}
    for i, (name, n) in enumerate(SAMPLE_SIZES.items()):
        tf.random.set_seed(ctx.seed + 100 + i)
        mom = [np.asarray(x) for x in PhaseSpaceGenerator(3.0, [0.5, 0.3, 0.2]).generate(n)]
        files[name] = os.path.join(wd, name + ".dat")
        np.savetxt(files[name], np.stack(mom).transpose((1, 0, 2)).reshape((-1, 4)))
    words = ["ANANA", "BAANBA", "ABNAB"]
    rng = random.Random(ctx.seed)
    if not quick:
        words += ["DANBAD", "ANBNA", "AANAB", "BNANA"]
        for _ in range(6):
            w = "".join(rng.choice("AABDN") for _ in range(7))
            while w.count("N") > 2:
                w = w.replace("N", "A", 1)
            words.append(w)
    label = {"A": ("GetAllData", ()), "N": ("NewSession", ()), "B": ("GetData", ("bg",)), "D": ("GetData", ("data",))}
    nsteps = nwalks = validated = 0
    reference = {}
    for k0 in init:
        cfg = plain(states[k0]["cfg"])
        if quick and (cfg["has_inmc"] or not cfg["cache"]):
            continue
        if not cfg["memo"] and cfg["weight_scale"] and not cfg["has_bg"]:
            # SimpleData.get_data("bg") calls process_scale(None) and raises when weight_scale is set without a
            # bg sample (MultiData returns None first): a crash outside C18, not a lossy round trip -- not bound
            ctx.assume("format 'simple' with weight_scale and no bg sample is not bound: SimpleData.get_data('bg') raises in process_scale(None)")
            continue
        tag = "".join("%s%d" % (k[0] if k != "has_inmc" else "i", int(cfg[k])) for k in sorted(cfg))
        cname = ",".join("%s=%d" % (k, int(cfg[k])) for k in sorted(cfg))
        # the session without a cached-data file on the same configuration
        refcfg = dict(cfg, cache=False)
        rk = _canon(refcfg)
        if rk not in reference:
            w0 = CacheWorld(wd, files, refcfg, "ref")
            reference[rk] = w0.get_all_data()
            for s, x in reference[rk].items():
                exp = -1 if _groups(x) is None else (1 if (cfg["weight_scale"] and s == "bg") else 0)
                if scale_count(s, x) != exp:
                    _viol(ctx, "cached_data:%s:no_cache:%s" % (cname, s), {"scaled": scale_count(s, x), "expected": exp})
        ref = reference[rk]
        for word in words:
            nwalks += 1
            world = CacheWorld(wd, files, cfg, tag)
            k = k0
            try:
                for i, ch in enumerate(word):
                    lab = label[ch]
                    nxt = [v for l2, v in adj[k] if l2 == lab]
                    if len(nxt) != 1:
                        raise tlc.MachineryError("CachedData: %s is not a behaviour of the spec at step %d" % (word, i))
                    k = nxt[0]
                    nsteps += 1
                    hist = word[: i + 1]
                    got = world.new_session() if ch == "N" else world.get_all_data() if ch == "A" else world.get_data(lab[1][0])
                    if got is None:
                        continue
                    want = states[k]["out"]
                    bad = {}
                    for s, x in got.items():
                        c = scale_count(s, x)
                        if c != want[s] or not same_content(x, ref[s]):
                            bad[s] = {"scaled_times": c, "spec": want[s], "same_arrays_as_session_without_cache": same_content(x, ref[s])}
                    ctx.count(1, distinct_key=("cached_data", cname, hist))
                    if bad:
                        _viol(ctx, "cached_data:%s:%s" % (cname, hist), {"config": cfg, "history": hist, "samples": bad})
                        break
                    validated += 1
                # what is on disk at the end
                if cfg["cache"] and states[k]["disk"]["present"]:
                    if not os.path.exists(world.cache_file):
                        _viol(ctx, "cached_data:%s:%s:file_missing" % (cname, word), {})
                    else:
                        from tf_pwa.data import load_data

                        disk = load_data(world.cache_file)
                        for s in SAMPLE_SIZES:
                            if scale_count(s, disk.get(s)) != states[k]["disk"]["v"][s]:
                                _viol(ctx, "cached_data:%s:%s:file:%s" % (cname, word, s), {"scaled_times": scale_count(s, disk.get(s)), "spec": states[k]["disk"]["v"][s]})
            except tlc.MachineryError:
                raise
            except Exception as ex:  # noqa: BLE001
                _viol(ctx, "cached_data:%s:%s:raise" % (cname, word), {"error": repr(ex)[:300]})
            finally:
                world.close()
    ctx.part("cached_data", configurations=len(reference), walks=nwalks, steps=nsteps, words=words)
    ctx.sample({"op": "cached data", "config": "weight_scale, bg, cached_data file, multi", "history": "ANANA = get_all_data / new session / get_all_data / new session / get_all_data", "expected": "bg weights scaled by n_data/n_bg exactly once in every session and in the file"})
    return validated


# --------------------------------------------------------------------------
# cache layers of HeavyCall stages (spec/LazyCache.tla), B1 replay with real tf.data cache files
# --------------------------------------------------------------------------
NESTED_KEY = "lazy_cache:nested_stages_share_cache_file"
BASE_SIZES = {1: 3, 2: 2, 3: 2}


def _cfg_cache(ctx, name, maxobjs, maxmerges, nested, dirs, depth, invs, nbase=2, stage_names=True):
    p = os.path.join(ctx.work, "lazycache_%s.cfg" % name)
    with open(p, "w") as f:
        f.write(
            "CONSTANTS NBase = %d\n Batches = {2, 3}\n MaxObjs = %d\n MaxMerges = %d\n AllowNested = %s\n StageNames = %s\n MergeNames = TRUE\n Dirs = {%s}\n MaxDepth = %d\n"
            % (nbase, maxobjs, maxmerges, "TRUE" if nested else "FALSE", "TRUE" if stage_names else "FALSE", ", ".join(map(str, dirs)), depth)
        )
        f.write("INIT Init\nNEXT Next\nCONSTRAINT DepthBound\n")
        for i in invs:
            f.write("INVARIANT %s\n" % i)
        f.write("CHECK_DEADLOCK FALSE\n")
    return p


class CacheLayerWorld:
    """real LazyCall(HeavyCall) objects and a real cache directory driven along a behaviour of LazyCache.tla"""

    def __init__(self, D, cache_dir):
        self.D = D
        self.dir = cache_dir
        os.makedirs(cache_dir, exist_ok=True)
        self.objs, self.parts = [], []
        for i in sorted(BASE_SIZES)[:2]:
            self.add_base(i)

    @staticmethod
    def stage(x):
        r = dict(x)
        r["lvl"] = x["lvl"] + 1.0
        return r

    @staticmethod
    def ev(i):
        return 10.0 * i + np.arange(1, BASE_SIZES[i] + 1, dtype=np.float64)

    def add_base(self, i):
        D = self.D
        e = self.ev(i)
        o = D.LazyCall(D.HeavyCall(self.stage), {"ev": e, "lvl": 0.0 * e})
        o["w"] = 1000.0 * i + e
        o.prefetch = 0
        self.objs.append(o)
        self.parts.append([i])

    def step(self, act, args):
        D = self.D
        if act == "SetCachedFile":
            o, d = args
            self.objs[o - 1].set_cached_file(self.dir if d == 2 else "", "n%d" % o)
            return None
        if act == "Merge":
            o1, o2 = args
            self.objs.append(D.data_merge(self.objs[o1 - 1], self.objs[o2 - 1]))
            self.parts.append(self.parts[o1 - 1] + self.parts[o2 - 1])
            return None
        if act == "Replace":
            (o,) = args
            idn = len(self.objs) + 1
            src = self.objs[o - 1]
            if "w" in src.extra:
                e = np.concatenate([self.ev(i) for i in self.parts[o - 1]])
                new = D.data_replace(src, "w", 1000.0 * (10 * idn) + e)
            else:
                new = src.copy()
            self.objs.append(new)
            self.parts.append(list(self.parts[o - 1]))
            return None
        if act == "Wrap":
            (o,) = args
            new = D.LazyCall(D.HeavyCall(self.stage), self.objs[o - 1])
            new.prefetch = 0
            self.objs.append(new)
            self.parts.append(list(self.parts[o - 1]))
            return None
        if act == "Use":
            o, b = args
            obj = self.objs[o - 1]
            items = [D.data_to_numpy(i) for i in take(D.data_split(obj, b), 40)]
            ok = bool(items)
            for it in items:
                e = np.asarray(it["ev"])
                for k, v in it.items():
                    v = np.asarray(v)
                    if v.shape != e.shape or (k == "w" and not np.array_equal(v % 1000.0, e)):
                        ok = False
            eager = {k: np.asarray(v) for k, v in D.data_to_numpy(obj.eval()).items()}
            if items:
                m = {k: np.asarray(v) for k, v in D.data_to_numpy(D.data_merge(*items)).items()}
                if set(m) != set(eager) or any(m[k].shape != eager[k].shape or not np.array_equal(m[k], eager[k]) for k in eager):
                    ok = False
                read_lvl = int(np.asarray(items[0]["lvl"]).reshape(-1)[0])
                seen = np.concatenate([np.asarray(it["ev"]).reshape(-1) for it in items])
                read_parts = []
                for v in seen:
                    q = int(v // 10)
                    if not read_parts or read_parts[-1] != q:
                        read_parts.append(q)
                read_b = max(int(np.asarray(it["ev"]).shape[0]) for it in items)
            else:
                read_lvl, read_parts, read_b = 0, [], 0
            exp_e = np.concatenate([self.ev(i) for i in self.parts[o - 1]])
            eager_ok = np.array_equal(eager["ev"], exp_e) and ("w" not in eager or np.array_equal(eager["w"] % 1000.0, exp_e))
            return {"ok": ok, "eager_ok": bool(eager_ok), "read": (read_lvl, tuple(read_parts)), "max_batch": read_b, "files": sorted(set(f.split(".")[0] for f in os.listdir(self.dir)))}
        raise tlc.MachineryError("unknown LazyCache action %s" % act)


def _cache_sig(pre, lab, post):
    """equivalence class of a Use edge in the model's case analysis"""
    (act, (o, b)) = lab
    objs = pre["objs"]
    me = objs[o - 1]
    inner = me["inner"] != 0
    is_inner = any(x["inner"] == o for x in objs)
    sib = any(i != o - 1 and x["x"] == me["x"] and x["inner"] == me["inner"] for i, x in enumerate(objs))
    mem = [m for m in me["mem"] if m[0] == b]
    same_name = sum(1 for i, x in enumerate(objs) if i != o - 1 and x["dir"] == 2 and me["dir"] == 2 and x["name"] == me["name"])
    files = pre["files"]
    other_batch_file = any(f[0][0] == me["name"] and f[0][1] != b for f in files)
    ob = post["obs"]
    return (len(me["x"]), inner, is_inner, sib, me["dir"], bool(mem), bool(mem and mem[0][1] != ()), min(same_name, 1), min(len(files), 2), other_batch_file, ob["fromfile"], ob["ok"], ob["read"] == ob["own"])


def _hist_cache(path):
    short_name = {"Use": "U", "SetCachedFile": "S", "Merge": "M", "Replace": "R", "Wrap": "W"}
    return ";".join(short_name[a] + ".".join(str(x) for x in g) for _, (a, g), _ in path)


def lazy_cache_part(ctx, binder, quick):
    D = binder.D
    flat = ["TypeOK", "UseFaithful", "KeysDistinct", "FilesTruthful"]  # theorems of StageNames = TRUE, nested chains included
    depth = 6 if quick else 7
    dot = os.path.join(ctx.work, "lazycache.dot")
    r = tlc.run("LazyCache", _cfg_cache(ctx, "graph", 3, 1, True, (2,), depth, flat), work=ctx.work, workers=1, timeout=1800, dump_dot=dot)
    if r.violation:
        raise tlc.MachineryError("LazyCache violates its own theorem %s: %s" % (r.violation, _hist_cache([(None, (a, tuple(g)), None) for a, g, _ in r.trace[1:]])))
    r.coverage = final_coverage(r)
    ctx.tlc(r, "LazyCache objs<=3 merges<=1 nested depth<=%d" % depth, vacuity_actions=["Use", "SetCachedFile", "Merge", "Replace", "Wrap"])
    if not quick:
        for nm, mo, mm, nested, dirs, dp in (("full3", 3, 1, True, (1, 2), 1000), ("deep4", 4, 2, True, (2,), 7)):
            r2 = tlc.run("LazyCache", _cfg_cache(ctx, nm, mo, mm, nested, dirs, dp, flat), work=ctx.work, workers=12, timeout=2400)
            if r2.violation:
                raise tlc.MachineryError("LazyCache (%s) violates its own theorem %s" % (nm, r2.violation))
            r2.coverage = final_coverage(r2)
            ctx.tlc(r2, "LazyCache %s objs<=%d merges<=%d dirs=%s depth<=%d" % (nm, mo, mm, list(dirs), dp), vacuity_actions=["Use", "Merge"])
    states, adj, init, parent, depth_of = _graph(dot)
    os.remove(dot)
    # one (thorough: several) representative Use edge per class of the model's case analysis
    per_class = 1 if quick else 6
    classes = {}
    for u in sorted(adj, key=lambda k: (depth_of[k], k)):
        for lab, v in adj[u]:
            if lab[0] != "Use":
                continue
            sig = _cache_sig(states[u], lab, states[v])
            lst = classes.setdefault(sig, [])
            if len(lst) < per_class:
                lst.append((u, lab, v))
    wd = os.path.join(ctx.work, "lazycache")
    walks = uses = nested_hits = 0
    validated = 0
    import shutil

    for sig in sorted(classes, key=str):
        for e in classes[sig]:
            path = _path_to(parent, e[0]) + [e]
            walks += 1
            cdir = os.path.join(wd, "w%d" % walks) + os.sep
            world = CacheLayerWorld(D, cdir)
            try:
                for i, (u, (act, args), v) in enumerate(path):
                    hist = _hist_cache(path[: i + 1])
                    got = world.step(act, args)
                    if got is None:
                        continue
                    uses += 1
                    want = states[v]["obs"]
                    o = args[0]
                    in_chain = states[v]["objs"][o - 1]["inner"] != 0 or any(x["inner"] == o for x in states[v]["objs"])
                    if not got["eager_ok"]:
                        _viol(ctx, "lazy_cache:%s:eval" % hist, {"history": hist})
                        break
                    if not want["ok"]:
                        raise tlc.MachineryError("LazyCache graph contains an unfaithful use at %s although UseFaithful was checked" % hist)
                    if not got["ok"]:
                        own = (want["own"][0], tuple(want["own"][1]))
                        detail = {"history": hist, "delivered(level,samples)": got["read"], "own(level,samples)": [own[0], list(own[1])], "cache_files": got["files"]}
                        if in_chain and got["read"] != own:
                            # a stage of a nested chain delivers foreign content: the collision repaired by e54b9e2 is back
                            nested_hits += 1
                            _viol(ctx, NESTED_KEY, detail)
                        else:
                            _viol(ctx, "lazy_cache:%s" % hist, detail)
                        break
                    if got["read"] != (want["read"][0], tuple(want["read"][1])):
                        _viol(ctx, "lazy_cache:%s:content" % hist, {"history": hist, "delivered(level,samples)": got["read"], "spec": [want["read"][0], list(want["read"][1])]})
                        break
                    validated += 1
            except tlc.MachineryError:
                raise
            except Exception as ex:  # noqa: BLE001
                _viol(ctx, "lazy_cache:%s:raise" % _hist_cache(path), {"error": repr(ex)[:300]})
            finally:
                shutil.rmtree(cdir, ignore_errors=True)
    ctx.count(uses, distinct_key=("lazy_cache", len(classes)))
    # sensitivity probe: the model of the code before e54b9e2 (one name for all stages) is refuted by TLC,
    # and its counterexample must not reproduce on the code
    rp = tlc.run("LazyCache", _cfg_cache(ctx, "legacy_names", 3, 1, True, (2,), 6, ["UseFaithful"], stage_names=False), work=ctx.work, workers=1, timeout=900, expect_violation=True, coverage=False)
    if rp.violation != "UseFaithful" or not rp.trace:
        raise tlc.MachineryError("LazyCache with StageNames = FALSE is expected to violate UseFaithful; TLC says %r" % rp.violation)
    path = [(None, (a, tuple(g)), None) for a, g, _ in rp.trace[1:]]
    hist = _hist_cache(path)
    cdir = os.path.join(wd, "probe") + os.sep
    world = CacheLayerWorld(D, cdir)
    got = None
    try:
        for _, (act, args), _ in path:
            got = world.step(act, args)
    finally:
        shutil.rmtree(cdir, ignore_errors=True)
    reproduced = bool(got is not None and not got["ok"])
    if reproduced:
        nested_hits += 1
        _viol(ctx, NESTED_KEY, {"history": hist, "via": "counterexample of the model with one name for all stages", "delivered(level,samples)": got["read"], "cache_files": got["files"]})
    ctx.cov["tlc_runs"].append({"run": "LazyCache StageNames=FALSE UseFaithful (expected refutation)", "violated": rp.violation, "history": hist, "wall_s": round(rp.wall, 2)})
    ctx.part("lazy_cache", graph_states=len(states), use_edge_classes=len(classes), walks=walks, uses_observed=uses, nested_regression_hits=nested_hits, legacy_counterexample=hist, legacy_counterexample_reproduces_on_code=reproduced)
    ctx.sample({"op": "LazyCache", "history": "S1.2;U1.2;M1.2;U3.2", "meaning": "file cache set on sample 1, used at batch 2 (file n1_2 written), merged with sample 2 (name n1_n0... distinct file), merge used at batch 2: own content, 5 events"})
    return validated


# --------------------------------------------------------------------------
# real MAX_ITER boundary + recorded calls of the repository's tests  (B2)
# --------------------------------------------------------------------------
def shape_of(x):
    """real structure -> spec shape (JSON for AsTree)"""
    if isinstance(x, dict):
        return {"kind": "dict", "w": 0, "ch": [shape_of(v) for v in x.values()]}
    if isinstance(x, list):
        return {"kind": "list", "w": 0, "ch": [shape_of(v) for v in x]}
    if isinstance(x, tuple):
        return {"kind": "tuple", "w": 0, "ch": [shape_of(v) for v in x]}
    a = np.asarray(x)
    return {"kind": "leaf", "w": 0 if a.ndim == 1 else int(a.shape[1]), "ch": []}


def first_leaf_path(t):
    if t["kind"] == "leaf":
        return []
    for i, c in enumerate(t["ch"]):
        p = first_leaf_path(c)
        if p is not None:
            return [i + 1] + p
    return None


def leaf_at(x, path):
    for i in path:
        x = list(x.values())[i - 1] if isinstance(x, dict) else x[i - 1]
    return x


def record_split(x, b, pieces, source):
    t = shape_of(x)
    lp = first_leaf_path(t)
    if lp is None:
        return None
    n = int(np.asarray(leaf_at(x, lp)).shape[0])
    return {"t": t, "n": n, "b": int(b), "npieces": len(pieces), "leaf": lp, "lens": [int(np.asarray(leaf_at(p, lp)).shape[0]) for p in pieces], "source": source}


def boundary_and_traces(ctx, binder):
    D = binder.D
    M = binder.real_max_iter
    recs = []
    meta = []
    # (a) boundary probes of the real MAX_ITER
    probes = []
    for kind, empty in (("dict", {}), ("list", [])):
        for b in (1, 2):
            for n in (M * b, M * b + 1, M * b + 2 * b + 1):
                probes.append((kind, empty, b, n))
    for kind, empty, b, n in probes:
        x = {"a": np.arange(n, dtype=np.float64), "e": type(empty)()}
        pieces = take(D.data_split(x, b), 4 * M + 10)
        r = record_split(x, b, pieces, "boundary")
        recs.append(r)
        meta.append(("boundary", kind, b, n, x, pieces))
    # a control without empty container at the same sizes
    x = {"a": np.arange(M + 5, dtype=np.float64), "c": [np.arange(M + 5, dtype=np.float64)]}
    pieces = take(D.data_split(x, 1), 4 * M + 10)
    recs.append(record_split(x, 1, pieces, "control"))
    meta.append(("control", "none", 1, M + 5, x, pieces))
    # (b) calls made by tf_pwa/tests/test_data.py
    test_recs, test_meta, pytest_status = run_repo_tests(ctx, D)
    recs += test_recs
    meta += test_meta
    # binding demonstration: a corrupted copy of the control record must be rejected by TLC
    ctl = next(r for r in recs if r["source"] == "control")
    demo = dict(ctl, npieces=ctl["npieces"] - 1, lens=ctl["lens"][:-1], source="corrupted")
    inp = os.path.join(ctx.work, "recorded.json")
    with open(inp, "w") as f:
        json.dump([{k: v for k, v in r.items() if k != "source"} for r in recs + [demo]], f)
    r = tlc.run("DataOps", _cfg_ops(ctx, "rec", 1, 1, 1, M, [], post="RecPost", init="RecInit", nxt="Stutter"), work=ctx.work, workers=1, env={"IN_FILE": inp}, coverage=False, timeout=900)
    verd = _seq(r.out["verdicts"])
    if len(verd) != len(recs) + 1:
        raise tlc.MachineryError("trace validation returned %d verdicts for %d records" % (len(verd), len(recs) + 1))
    if verd[-1]["ok"]:
        raise tlc.MachineryError("binding demonstration failed: TLC accepted a corrupted data_split record")
    ctx.part("binding_demo", corrupted_record_rejected=True)
    verd = verd[:-1]
    accepted = rejected = 0
    for rec, (src, kind, b, n, x, pieces), v in zip(recs, meta, verd):
        ctx.count(1, distinct_key=("recorded", src, kind, b, n))
        want = [expect(p) for p in _seq(v["pieces"])]
        # the recorded pieces with ids of the spec's Fill: compare sizes via TLC verdict, contents by position
        ok = bool(v["ok"])
        if ok:
            # full content check of the real pieces against the real input (ids are the input's own values)
            flat = D.data_merge(*pieces) if pieces else None
            ok = flat is not None and proj(flat) == proj(x)
        if ok:
            accepted += 1
            binder.validated += 1
            continue
        rejected += 1
        nb = v["npieces"]
        if src == "boundary" and len(pieces) == M and nb > M:
            _viol(ctx, "split:empty_%s:N>MAX_ITER*b" % kind, {"N": n, "batch": b, "MAX_ITER": M, "pieces_got": len(pieces), "pieces_expected": nb, "events_lost": n - sum(rec["lens"])})
        else:
            _viol(ctx, "recorded_split:%s:%s:N=%d:b=%d" % (src, tstr(rec["t"]), n, b), {"pieces_got": len(pieces), "pieces_expected": nb, "lens": rec["lens"][:10]})
    # LazyCall iterates zip(batches of x, batches of extra): extra = {} is an empty dict
    n = M + 1
    L = D.LazyCall(lambda xx: {"k1": xx["a"]}, {"a": np.arange(n, dtype=np.float64)})
    it = take(D.data_split(L, 1), 4 * M + 10)
    ctx.count(1, distinct_key=("lazy_boundary", n))
    if len(it) != n:
        _viol(ctx, "lazycall:empty_extra:N>MAX_ITER*b", {"N": n, "batch": 1, "pieces_got": len(it), "pieces_expected": n})
    ctx.part("recorded_splits", records=len(recs), accepted=accepted, rejected=rejected, from_repo_tests=len(test_recs), pytest=pytest_status)
    ctx.cov["tlc_runs"].append({"run": "DataOps RecPost (trace validation)", "records": len(recs), "wall_s": round(r.wall, 2)})
    return len(test_recs)


def run_repo_tests(ctx, D):
    """run tf_pwa/tests/test_data.py with data_split wrapped; return the recorded calls"""
    recs, meta = [], []
    try:
        import pytest
    except Exception:  # pragma: no cover
        return recs, meta, "pytest unavailable"
    repo = os.environ.get("REPO_ROOT", "/repo")
    test_file = os.path.join(repo, "tf_pwa", "tests", "test_data.py")
    if not os.path.exists(test_file):
        return recs, meta, "test_data.py not found"
    orig = D.data_split
    calls = []

    def wrapped(data, batch_size, axis=0):
        out = orig(data, batch_size, axis)
        if isinstance(data, D.LazyCall) or axis != 0:
            return out
        pieces = take(out, 100000)
        calls.append((data, batch_size, pieces))
        return iter(pieces)

    cwd = os.getcwd()
    twd = os.path.join(ctx.work, "pytest_cwd")
    os.makedirs(twd, exist_ok=True)
    D.data_split = wrapped
    D.split_generator = wrapped
    try:
        os.chdir(twd)
        import contextlib
        import io

        buf = io.StringIO()
        with contextlib.redirect_stdout(buf), contextlib.redirect_stderr(buf):
            rc = pytest.main(["-q", "-x", "-p", "no:cacheprovider", "--rootdir", twd, "-c", os.devnull, test_file])
        status = "exit %s" % int(rc)
    except BaseException as e:  # noqa: BLE001
        status = "error %r" % e
    finally:
        os.chdir(cwd)
        D.data_split = orig
        D.split_generator = orig
    for data, b, pieces in calls:
        try:
            r = record_split(data, b, pieces, "test_data.py")
        except Exception:  # noqa: BLE001
            r = None
        if r is None:
            continue
        recs.append(r)
        meta.append(("test_data.py", "none", int(b), r["n"], data, pieces))
    return recs, meta, status


# --------------------------------------------------------------------------
# part D: momentum files
# --------------------------------------------------------------------------
def datfile_part(ctx, maxp, maxev, all_formats):
    import tf_pwa.data as D

    r = tlc.run("DatFile", _cfg_dat(ctx, maxp, maxev), work=ctx.work, workers=16, timeout=1800)
    if r.violation:
        raise tlc.MachineryError("DatFile violates its own theorem %s" % r.violation)
    r.coverage = final_coverage(r)
    ctx.tlc(r, "DatFile MaxP=%d MaxEv=%d" % (maxp, maxev), vacuity_actions=["Pick", "LoadFile"])
    if r.coverage.get("Raise", 0) != 0:
        raise tlc.MachineryError("DatFile: Raise reachable on saved files")
    cases = r.out["cases"]
    if len(cases) != r.out["ncases"] or r.coverage.get("Pick") != len(cases) or r.coverage.get("Init") != r.out["nframes"]:
        raise tlc.MachineryError("DatFile table incomplete")
    wd = os.path.join(ctx.work, "dat")
    os.makedirs(wd, exist_ok=True)
    fmts_extra = ["txt_event_per_line", "npy", "npy3", "npz", "mixed"]
    nload = 0
    validated = 0
    for ci, c in enumerate(cases):
        n, N, groups, perm, layout = c["n"], c["N"], _seq(c["groups"]), _seq(c["perm"]), c["layout"]
        files = [np.array([_seq(row) for row in _seq(f)], dtype=np.float64) for f in _seq(c["files"])]
        p = np.array([[_seq(e) for e in _seq(q)] for q in _seq(c["p"])], dtype=np.float64)  # (n, N, 4)
        names = ["p%d" % q for q in perm]  # dat_order
        fmts = ["txt"] + (fmts_extra if all_formats else [fmts_extra[ci % len(fmts_extra)]])
        key0 = "datfile:n=%d:N=%d:groups=%s:order=%s:%s" % (n, N, "+".join(map(str, groups)), "".join(map(str, perm)), layout)
        for fmt in fmts:
            fnames = []
            for j, rows in enumerate(files):
                g = groups[j]
                ff = fmt
                if fmt == "mixed":
                    ff = ["txt", "npy", "npz"][(ci + j) % 3]
                base = os.path.join(wd, "f%d_%d" % (ci, j))
                if ff == "txt":
                    fn = base + ".dat"
                    np.savetxt(fn, rows)
                elif ff == "txt_event_per_line":
                    fn = base + ".dat"
                    np.savetxt(fn, rows.reshape((N, 4 * g)) if layout == "event_major" else rows.reshape((g, 4 * N)))
                elif ff == "npy":
                    fn = base + ".npy"
                    np.save(fn, rows)
                elif ff == "npy3":
                    fn = base + ".npy"
                    np.save(fn, rows.reshape((N, g, 4)) if layout == "event_major" else rows.reshape((g, N, 4)))
                else:
                    fn = base + ".npz"
                    np.savez(fn, rows)
                fnames.append(fn)
            kw = {}
            if layout == "particle_major":
                kw = {"order": (0, 1, 2), "split": [N] * len(files)}
            try:
                arg = fnames[0] if (len(fnames) == 1 and ci % 2) else fnames
                ret = D.load_dat_file(arg, names, **kw)
                nload += 1
                ctx.count(1, distinct_key=(key0, fmt))
                bad = [q for q in range(1, n + 1) if ("p%d" % q) not in ret or not np.array_equal(np.asarray(ret["p%d" % q]), p[q - 1])]
                if bad or len(ret) != n:
                    _viol(ctx, key0 + ":" + fmt, {"wrong_particles": bad, "got": short({k: np.asarray(v).tolist() for k, v in ret.items()}), "expected": short(p.tolist())})
                else:
                    validated += 1
            except Exception as e:  # noqa: BLE001
                _viol(ctx, key0 + ":" + fmt + ":raise", {"error": repr(e)})
            finally:
                for fn in fnames:
                    os.remove(fn)
        if ci == len(cases) // 2:
            ctx.sample({"op": "load_dat_file", "n": n, "N": N, "groups": groups, "dat_order": perm, "layout": layout, "file_rows": [f.tolist() for f in files][0][:4]})
    ctx.part("datfile", cases=len(cases), loads=nload)
    # inconsistent sizes must raise, not mis-assign
    fn = os.path.join(wd, "bad.dat")
    np.savetxt(fn, np.arange(20.0).reshape(5, 4))
    try:
        D.load_dat_file(fn, ["a", "b"])
        _viol(ctx, "datfile:rows_not_multiple_of_particles:accepted", {})
    except ValueError:
        pass
    os.remove(fn)
    return cases, validated


def writers_part(ctx, cases, quick):
    """SimpleData.savetxt / load_p4 / load_data and CalAngleData.savetxt on every dat_order"""
    from tf_pwa.cal_angle import CalAngleData
    from tf_pwa.config_loader import ConfigLoader
    from tf_pwa.data import data_index, data_shape
    from tf_pwa.phasespace import PhaseSpaceGenerator

    wd = os.path.join(ctx.work, "writers")
    os.makedirs(wd, exist_ok=True)
    res = {"R": {"J": 0, "P": 1, "mass": 1.0, "width": 0.1}, "S": {"J": 0, "P": 1, "mass": 0.8, "width": 0.1}}
    tops = {2: {"J": 0, "P": 1}, 3: {"J": 0, "P": -1}, 4: {"J": 0, "P": -1}}
    decays = {
        2: {"A": [["B", "C"]]},
        3: {"A": [["R", "C"]], "R": ["B", "D"]},
        4: {"A": [["R", "E"]], "R": [["S", "D"]], "S": ["B", "C"]},
    }
    finals = {2: ["B", "C"], 3: ["B", "C", "D"], 4: ["B", "C", "D", "E"]}
    fparity = {"B": -1, "C": -1, "D": -1, "E": -1}
    fparity4 = {"B": -1, "C": -1, "D": 1, "E": -1}
    nsave = 0
    validated = 0
    loaders = {}
    for n in (2, 3, 4):
        pc = json.loads(json.dumps(res))
        pc["$top"] = {"A": tops[n]}
        pc["$finals"] = {f: {"J": 0, "P": (fparity4 if n == 4 else fparity)[f]} for f in finals[n]}
        try:
            loaders[n] = ConfigLoader({"data": {"dat_order": list(finals[n])}, "decay": decays[n], "particle": pc})
            loaders[n].data  # noqa: B018
        except Exception as e:  # noqa: BLE001
            ctx.assume("ConfigLoader for %d final particles not constructible (%r): SimpleData writer not bound for n=%d" % (n, e, n))
            loaders.pop(n, None)
    single = [c for c in cases if len(_seq(c["groups"])) == 1 and c["layout"] == "event_major" and c["n"] in loaders]
    for ci, c in enumerate(single):
        n, N, perm = c["n"], c["N"], _seq(c["perm"])
        cl = loaders[n]
        sd = cl.data
        fin = finals[n]
        order_names = [fin[q - 1] for q in perm]
        sd.dic["dat_order"] = list(order_names)
        order = sd.get_dat_order()
        key0 = "writer:n=%d:N=%d:dat_order=%s" % (n, N, "".join(order_names))
        if [str(i) for i in order] != order_names:
            _viol(ctx, key0 + ":get_dat_order", {"got": [str(i) for i in order]})
            continue
        table = np.array([_seq(r) for r in _seq(_seq(c["files"])[0])], dtype=np.float64)
        p = np.array([[_seq(e) for e in _seq(q)] for q in _seq(c["p"])], dtype=np.float64)
        byname = {fin[q]: p[q] for q in range(n)}
        part_objs = {str(o): o for o in order}
        forms = {
            "dict": {part_objs[k]: v for k, v in byname.items()},
            "dict_str": dict(byname),
            "particle": {"particle": {part_objs[k]: {"p": v} for k, v in byname.items()}},
            "list": [byname[k] for k in order_names],
        }
        for fname, data in forms.items():
            for ext in (".dat", ".npy"):
                fn = os.path.join(wd, "w%s" % ext)
                try:
                    sd.savetxt(fn, data)
                    nsave += 1
                    ctx.count(1, distinct_key=(key0, fname, ext))
                    raw = np.loadtxt(fn).reshape((-1, 4)) if ext == ".dat" else np.load(fn).reshape((-1, 4))
                    if not np.array_equal(raw, table):
                        _viol(ctx, key0 + ":savetxt:%s%s" % (fname, ext), {"file": short(raw.tolist()), "expected": short(table.tolist())})
                        continue
                    back = sd.load_p4(fn)
                    bad = [k for k in order_names if not np.array_equal(np.asarray(data_index(back, k)), byname[k])]
                    if bad or len(back) != n:
                        _viol(ctx, key0 + ":load_p4:%s%s" % (fname, ext), {"wrong": bad})
                    else:
                        validated += 1
                except Exception as e:  # noqa: BLE001
                    _viol(ctx, key0 + ":%s%s:raise" % (fname, ext), {"error": repr(e)})
                finally:
                    if os.path.exists(fn):
                        os.remove(fn)
        # CalAngleData.savetxt with an explicit order
        try:
            cad = CalAngleData({"particle": {part_objs[k]: {"p": v} for k, v in byname.items()}})
            fn = os.path.join(wd, "cad.dat")
            cad.savetxt(fn, order=[part_objs[k] for k in order_names])
            raw = np.loadtxt(fn).reshape((-1, 4))
            nsave += 1
            if not np.array_equal(raw, table):
                _viol(ctx, key0 + ":CalAngleData.savetxt", {"file": short(raw.tolist()), "expected": short(table.tolist())})
            else:
                validated += 1
            os.remove(fn)
        except Exception as e:  # noqa: BLE001
            _viol(ctx, key0 + ":CalAngleData.savetxt:raise", {"error": repr(e)})
    # full pipeline with physical momenta: file -> load_data -> CalAngleData -> savetxt -> same file
    rng = np.random.RandomState(ctx.seed % (2**32))
    masses = {2: [0.5, 0.3], 3: [0.5, 0.3, 0.2], 4: [0.5, 0.3, 0.2, 0.1]}
    npipe = 0
    for n, cl in loaders.items():
        fin = finals[n]
        perms = list(itertools.permutations(range(n)))
        if quick:
            perms = perms[:: max(1, len(perms) // 4)]
        for perm in perms:
            order_names = [fin[q] for q in perm]
            sd = cl.data
            sd.dic["dat_order"] = list(order_names)
            N = 5
            import tensorflow as tf

            tf.random.set_seed(ctx.seed + npipe)
            mom = [np.asarray(x) for x in PhaseSpaceGenerator(3.0, masses[n]).generate(N)]
            byname = dict(zip(fin, mom))
            key0 = "pipeline:n=%d:dat_order=%s" % (n, "".join(order_names))
            fn = os.path.join(wd, "in.dat")
            fc = os.path.join(wd, "in_charge.dat")
            rows = np.stack([byname[k] for k in order_names]).transpose((1, 0, 2)).reshape((-1, 4))
            np.savetxt(fn, rows)
            charge = np.array([1, -1, 1, -1, -1], dtype=np.float64)
            np.savetxt(fc, charge)
            try:
                data = sd.load_data(fn, charge=fc)
                npipe += 1
                ctx.count(1, distinct_key=key0)
                if data_shape(data) != N:
                    _viol(ctx, key0 + ":size", {"got": data_shape(data)})
                # without cp transformation of the stored momenta? the preprocessor applies it for charge < 0
                out = os.path.join(wd, "out.dat")
                data.savetxt(out, order=[k for k in order_names], cp_trans=True, save_charge=True)
                back = np.loadtxt(out).reshape((-1, 4))
                cback = np.loadtxt(os.path.join(wd, "outc.dat"))
                if not np.allclose(back, rows, rtol=1e-12, atol=1e-12) or not np.array_equal(cback, charge):
                    _viol(ctx, key0 + ":savetxt_inverse", {"max_abs_diff": float(np.max(np.abs(back - rows)))})
                else:
                    validated += 1
                # particle assignment of the loaded momenta (events with charge +1 are stored unchanged)
                for k in fin:
                    got = np.asarray(data_index(data, ("particle", k, "p")))
                    if not np.array_equal(got[charge > 0], byname[k][charge > 0]):
                        _viol(ctx, key0 + ":assignment:%s" % k, {"got": short(got.tolist()), "expected": short(byname[k].tolist())})
                        break
                # default order = decay outs
                data.savetxt(out)
                outs = [str(i) for i in data.get_decay().outs]
                back = np.loadtxt(out).reshape((N, n, 4))
                for j, k in enumerate(outs):
                    got = np.asarray(data_index(data, ("particle", k, "p")))
                    if not np.array_equal(back[:, j], got):
                        _viol(ctx, key0 + ":savetxt_default_order", {"particle": k})
                        break
            except Exception as e:  # noqa: BLE001
                _viol(ctx, key0 + ":raise", {"error": repr(e)[:300]})
            finally:
                for f in os.listdir(wd):
                    os.remove(os.path.join(wd, f))
    ctx.part("writers", savetxt_calls=nsave, pipelines=npipe, particle_counts=sorted(loaders))
    return validated


def root_part(ctx):
    try:
        from tf_pwa import root_io

        if not root_io.has_uproot:
            raise ImportError("uproot")
    except Exception as e:  # noqa: BLE001
        ctx.assume("ROOT I/O (tf_pwa/root_io.py) skipped: uproot not importable (%r)" % e)
        return 0
    wd = os.path.join(ctx.work, "root")
    os.makedirs(wd, exist_ok=True)
    ok = 0
    for n in (1, 3, 6):
        dic = {"a": np.arange(1.0, n + 1), "b": np.arange(101.0, 101 + n), "idx": np.arange(n, dtype=np.int64)}
        fn = os.path.join(wd, "t%d.root" % n)
        try:
            root_io.save_dict_to_root(dic, fn, "tree")
            back = root_io.load_root_data(fn)
            got = back.get("tree0", {})
            ctx.count(1, distinct_key=("root", n))
            if set(got) != set(dic) or any(not np.array_equal(np.asarray(got[k]), dic[k]) for k in dic):
                _viol(ctx, "root_io:roundtrip:N=%d" % n, {"got": short({k: np.asarray(v).tolist() for k, v in got.items()})})
            else:
                ok += 1
        except Exception as e:  # noqa: BLE001
            ctx.notes.append("root_io round trip N=%d not executable in this environment: %r" % (n, e))
    ctx.part("root_io", roundtrips=ok)
    return ok


# --------------------------------------------------------------------------
def replay_counterexample(ctx, binder, trace):
    """the TLC counterexample of the legacy model (events lost), executed on the real
    data_generator: the repaired code must deliver Split, not the legacy output"""
    D = binder.D
    last = trace[-1][-1]
    cs = plain(last["cs"])
    d, n, b, t = cs["d"], cs["n"], cs["b"], cs["t"]
    x = build(d)
    legacy_out = [expect(p) for p in plain(last["out"])]
    kw = {"MAX_ITER": binder.max_iter} if binder.has_max_iter else {}
    got = [proj(p) for p in take(D.data_generator(x, fun=D._data_split, args=(b,), kwargs={"axis": 0}, **kw), n + binder.max_iter + 3)]
    nb = (n + b - 1) // b
    real = take(D.data_generator(x, fun=D._data_split, args=(b,), kwargs={"axis": 0}, **kw), n + binder.max_iter + 3)
    merged_ok = bool(real) and proj(D.data_merge(*real)) == expect(d)
    regressed = got == legacy_out and len(got) < nb
    ctx.part("legacy_counterexample", tree=tstr(t), N=n, batch=b, legacy_model_batches=len(legacy_out), declarative_batches=nb, real_batches=len(got), reproduces_on_code=bool(regressed))
    ctx.sample({"op": "GenLossless refuted for the legacy generator (Legacy=TRUE)", "tree": tstr(t), "N": n, "batch": b, "legacy_model_batches": len(legacy_out), "declarative_batches": nb, "real_data_generator_batches": len(got)})
    if regressed:
        _viol(ctx, binder.legacy_key(t), {"via": "legacy counterexample of TLC", "tree": tstr(t), "N": n, "batch": b, "batches_got": len(got), "batches_expected": nb})
    elif len(got) != nb or not merged_ok:
        _viol(ctx, "generator:%s:N=%d:b=%d" % (tstr(t), n, b), {"batches_got": len(got), "batches_expected": nb})
    return regressed


def lazy_angle_options_part(ctx, quick):
    """lazily evaluated angle data == eager angle data under every keyword of cal_angle_from_momentum: the deferred
    call must receive the same options as the eager one (keywords enumerated from the function's own signature)"""
    import inspect
    import itertools

    from tf_pwa.cal_angle import cal_angle_from_momentum
    from tf_pwa.data import LazyCall, LazyFile, data_to_numpy, flatten_dict_data

    from .. import models

    cfg = models.make_config(models.toy_dict(spin0=False))
    dg = cfg.get_amplitude().decay_group
    p4 = models.phsp_p4(12, ctx.seed % 1000 + 51)
    order = cfg.get_dat_order()
    pdict = dict(zip(order, [np.asarray(x) for x in p4]))
    sig = inspect.signature(cal_angle_from_momentum)
    space = {}
    for name, prm in sig.parameters.items():
        if name in ("p", "decs", "batch"):
            continue
        if isinstance(prm.default, bool):
            space[name] = [prm.default, not prm.default]
        elif name == "align_ref":
            space[name] = [None, "center_mass"]
        else:
            raise tlc.MachineryError("cal_angle_from_momentum has a keyword the check does not know: %s" % name)
    names = sorted(space)
    # one keyword away from the defaults, and all pairs in the thorough tier
    combos = [{}] + [{n: space[n][1]} for n in names]
    if not quick:
        combos += [{a: space[a][1], b: space[b][1]} for a, b in itertools.combinations(names, 2)]
    n = 0

    def flat(d):
        return {str(k): np.asarray(v) for k, v in flatten_dict_data(data_to_numpy(d)).items()}

    for opts in combos:
        key = "lazy_cal_angle:" + (",".join("%s=%s" % kv for kv in sorted(opts.items())) or "defaults")
        try:
            eager = flat(cal_angle_from_momentum(pdict, dg, **opts))
            for kind, lazy_p in (("LazyCall", LazyCall(lambda x: x, pdict)), ("LazyFile", LazyFile(pdict))):
                ld = cal_angle_from_momentum(lazy_p, dg, **opts)
                got = flat(ld.eval())
                n += 1
                ctx.count(1, distinct_key=(key, kind))
                bad = sorted(k for k in eager if k not in got or got[k].shape != eager[k].shape or not np.allclose(got[k], eager[k], rtol=1e-12, atol=1e-12, equal_nan=True))
                if bad or set(got) != set(eager):
                    _viol(ctx, key + ":" + kind, {"differing_leaves": bad[:6], "missing": sorted(set(eager) - set(got))[:4], "extra": sorted(set(got) - set(eager))[:4]})
                    break
        except Exception as ex:  # noqa: BLE001
            _viol(ctx, key + ":raise", {"error": repr(ex)[:300]})
    ctx.part("lazy_angle_options", option_sets=len(combos), comparisons=n, keywords=names)
    return n


def run(ctx):
    from ..prelude import import_tf_quiet

    import_tf_quiet()
    quick = ctx.tier == "quick"
    nodes, maxn, maxnbig, max_iter = (3, 4, 4, 3) if quick else (4, 6, 4, 3)
    out = tlc_dataops(ctx, nodes, maxn, maxnbig, max_iter)
    ctx.log("DataOps: %d shapes, %d cases" % (out["nshapes"], out["ncases"]))
    binder = Binder(ctx, out)
    trace = tlc_legacy(ctx, max_iter, exhaustive=not quick)
    regressed = replay_counterexample(ctx, binder, trace)
    ctx.log("legacy generator model refuted by TLC; its counterexample reproduces on the code:", regressed)
    binder.run_all()
    ctx.log("DataOps cases bound:", binder.n)
    structured_files(ctx, binder, 150 if quick else 2000)
    lazy_heavy(ctx, binder, 12 if quick else 150)
    ntests = boundary_and_traces(ctx, binder)
    ctx.log("boundary probes and recorded test calls validated by TLC (%d calls from test_data.py)" % ntests)
    cases, v1 = datfile_part(ctx, 4 if quick else 5, 3, all_formats=not quick)
    v2 = writers_part(ctx, cases, quick)
    v3 = root_part(ctx)
    v4 = lazy_objects_part(ctx, binder, quick)
    ctx.log("LazyCall object histories replayed: %d edges" % v4)
    v6 = lazy_cache_part(ctx, binder, quick)
    ctx.log("LazyCall cache-layer histories replayed: %d uses" % v6)
    v5 = cached_data_part(ctx, quick)
    ctx.log("cached-data sessions replayed: %d observations" % v5)
    v5 += lazy_angle_options_part(ctx, quick)
    ctx.cov["exhaustive"] = True
    ctx.cov["traces_validated_against_impl"] = binder.validated + v1 + v2 + v3 + v4 + v5 + v6
    ctx.cov["rule"] = (
        "DataOps: every tree of <=%d dict/list/tuple/leaf nodes (leaves 1-d or N x 2, empty containers included) x N<=%d "
        "(N<=%d for %d-node trees) x (batch 1..N+1 | every boolean mask | every path) is one TLC case (state space = shapes + cases + "
        "generator steps, MAX_ITER=%d in the model); invariants SplitMerge, BatchCallWhole, LazyNoExtra, MaskExact, IndexExact, GenPrefix, GenLossless, GenLeafless, ModelsAgree "
        "(generator model = repaired code; the pre-repair model Legacy=TRUE is refuted by TLC and its counterexample must not reproduce); "
        "every case executed on tf_pwa.data (data_split/split_generator, data_generator, data_merge, batch_call(_numpy), batch_sum, LazyCall, "
        "data_mask, data_index, structure helpers, save_data/load_data) and compared exactly; real MAX_ITER boundary and the calls of "
        "tests/test_data.py validated by TLC against Split. DatFile: every (n<=%d, N<=3, composition into files, dat_order permutation, layout) "
        "x file formats through load_dat_file, SimpleData.savetxt/load_p4/load_data, CalAngleData.savetxt. "
        "distinct = distinct (operation, tree, N, parameter) or (file case, format) cells"
        % (nodes, maxn, maxnbig, nodes, max_iter, 4 if quick else 5)
    )
    ctx.assume("N >= 1: with zero events data_split yields no piece and there is nothing to merge")
    ctx.assume("trees without any leaf carry no events; for them only the generator model is compared (drift only)")
    ctx.assume("save_data/load_data are judged on dict-rooted data (the cached-data format); bare arrays / lists at the root follow numpy.save's own conversion and are counted as informational")
    ctx.assume("event ids are float64 / int64 array contents < 2^53, so equality is exact; text files are written with numpy's default 18-digit format")
    ctx.assume("np.Inf shim installed by the harness for importing tf_pwa.config_loader under NumPy 2")
    ctx.assume("data_generator is called with MAX_ITER=%d to bind the step model (real default %d); for structures with a leaf MAX_ITER has no effect in the repaired model, so any loss there is a violation" % (max_iter, binder.real_max_iter))


def replay(ctx, path):
    with open(path) as f:
        rec = json.load(f)
    ctx.log("replaying", rec.get("key"))
    run(ctx)
