"""C19 -- a configuration determines the model deterministically and completely.

Spec: spec/DecayCard.tla (instantiates spec/LSCoupling.tla for the (l,s) rule).
TLC enumerates the card grammar as a state space (one state per card, the
invariants WellFormed, SeqIsSet, ChainShape, KeptSubset, DroppedIff,
FlatEquivalent, LineOrder, MirrorSameChains, NamesConsistent are evaluated per
card as the conjunction Theorems) and
emits every card with what it denotes: Expand, Chains, Kept, ParamNames, Free,
Bounded.

Binding B3 (exact): every emitted card is written as a dict config and loaded
by the real tf_pwa.config_loader.ConfigLoader;
  * chain set == Kept(card) (none dropped, none extra, none twice); every chain
    leads from the declared top to exactly the declared finals; quantum numbers
    of the particles are the declared ones; "no chain" <=> Kept = {}
  * parameter names == ParamNames, free set == Free, bound dictionary == Bounded
  * loaded again later in the same process (all other cards in between, same
    particle names with other quantum numbers): identical projection
  * written differently (aliases Par/m0/g0/m_min, J as "1/2", $include through
    share_dict, through one file, through a list of files with overriding
    entries, candidate lists written out, key order permuted, whole card from a
    YAML file, single decay line flat/nested): identical projection
  * get_decay().as_config() -> load: same chains, same quantum numbers.
"""
import contextlib
import copy
import io
import json
import os
import random
import time
import zlib

from .. import tlc

LEVEL = "model_checking"

INVARIANTS = [
    "WellFormed",
    "SeqIsSet",
    "ChainShape",
    "KeptSubset",
    "DroppedIff",
    "FlatEquivalent",
    "LineOrder",
    "MirrorSameChains",
    "CUnused",
    "NamesConsistent",
]

ALL_SHAPES = ["s3_1", "s3_2", "s3_12", "s3_3", "s3_sh", "s3_e", "s4_c", "s4_c2", "s4_b", "s4_m"]

TIERS = {
    "quick": dict(
        Shapes=[x for x in ALL_SHAPES if x not in ("s3_12", "s4_b")],  # both subsumed by s3_3 / s3_sh / s4_m
        Schemes=["vec", "bar"],
        MesonJ2=[0, 2],
        ScalarJ2=[0, 2],
        BaryonJ2=[1, 2],
        DecOpts=["pbreak", "l1"],
        ParOpts=["float_g_bnd", "float_mg_bnd"],
        COpts=["c-", "cc+"],
        AllLines=False,
        n_amp=400,
        n_var=80,
        tlc_timeout=600,
    ),
    "thorough": dict(
        Shapes=ALL_SHAPES,
        Schemes=["vec", "sca", "bar"],
        MesonJ2=[0, 2, 4],
        ScalarJ2=[0, 2],
        BaryonJ2=[1, 2],
        DecOpts=["pbreak", "pball", "l0"],  # l1 is in the quick tier
        ParOpts=["float_m", "bnd", "float_g_bnd", "float_mg_bnd"],
        COpts=["c+", "c-", "cc+", "cc-"],
        AllLines=True,
        n_amp=4000,
        n_var=700,
        tlc_timeout=2400,
    ),
}


def _tla_set(xs):
    return "{" + ", ".join(json.dumps(x) if isinstance(x, str) else str(x) for x in xs) + "}"


def _cfg(ctx, t, separate=False):
    """model-checking configuration; separate=True lists the theorems one by one (to name a failing one)"""
    p = os.path.join(ctx.work, "decaycard_%s%s.cfg" % (ctx.tier, "_sep" if separate else ""))
    with open(p, "w") as f:
        f.write("CONSTANTS\n")
        for k in ("Shapes", "Schemes", "MesonJ2", "ScalarJ2", "BaryonJ2", "DecOpts", "ParOpts", "COpts"):
            f.write("  %s = %s\n" % (k, _tla_set(t[k])))
        f.write("  AllLines = %s\n" % ("TRUE" if t["AllLines"] else "FALSE"))
        f.write("INIT Init\nNEXT Next\n")
        if separate:
            for inv in INVARIANTS:
                f.write("INVARIANT %s\n" % inv)
        else:
            f.write("INVARIANT Theorems\nPOSTCONDITION Post\n")
        f.write("CHECK_DEADLOCK FALSE\n")
    return p


# --------------------------------------------------------------------------
# card -> configuration
# --------------------------------------------------------------------------
def card_id(c):
    qs = ",".join("%s=%d%s" % (n, q[0], "+" if q[1] > 0 else "-") for n, q in sorted(c["qnsel"].items()))
    o = c["opt"]
    return "%s/%s/%s/%s%s" % (c["shape"], c["scheme"], qs, o["kind"], ("@%d" % o["at"]) if o["at"] else "")


def spin_value(j2, style):
    if j2 % 2 == 0:
        return j2 // 2
    return ("%d/2" % j2) if style == "str" else j2 / 2.0


RES_ORDER = ["R_BC", "R_BD", "R_CD", "Z1", "Z2", "Y1", "Y2", "X1", "X2", "X", "Y", "W", "U", "V", "U1", "U2", "V1", "V2"]
FINAL_MASS = {"B": 0.9, "C": 0.5, "D": 0.14, "E": 0.2}


def res_numbers(name):
    k = RES_ORDER.index(name)
    m0 = round(1.5 + 0.1 * k, 3)
    g0 = round(0.05 + 0.01 * k, 3)
    return m0, g0, round(m0 - 0.05, 3), round(m0 + 0.05, 3)


def resonances_of(c):
    return [n for n in c["qn"] if n != c["top"] and n not in c["finals"]]


def particle_props(c, name, alias=False, jstyle="float"):
    """property dict of one particle; alias=False is the expanded (canonical) spelling"""
    j2, p = c["qn"][name]
    kJ, kP, kM, kG = ("J", "Par", "m0", "g0") if alias else ("J", "P", "mass", "width")
    d = {kJ: spin_value(j2, jstyle), kP: p}
    if name == c["top"]:
        d[kM] = 6.0
    elif name in c["finals"]:
        d[kM] = FINAL_MASS[name]
    else:
        m0, g0, lo, hi = res_numbers(name)
        d[kM] = m0
        d[kG] = g0
        cq = c["cq"].get(name, 0) if isinstance(c.get("cq"), dict) else 0
        if cq:
            d["C"] = cq
        fl = c["float"].get(name, "")
        if fl:
            d["float"] = fl
        if name in c["bnd"]:
            if alias:
                d["m_min"], d["m_max"] = lo, hi
            else:
                d["mass_min"], d["mass_max"] = lo, hi
    return d


def line_entry(ln):
    e = [ln["outs"][0], ln["outs"][1]]
    opts = {}
    if ln["pbreak"]:
        opts["p_break"] = True
    if not ln.get("cbreak", True):
        opts["c_break"] = False
    if ln["ll"]:
        opts["l_list"] = sorted(ln["ll"])
    if opts:
        e.append(opts)
    return e


def decay_section(lines, flat_single=False):
    dec = {}
    for ln in lines:
        dec.setdefault(ln["core"], []).append(line_entry(ln))
    if flat_single:
        dec = {k: (v[0] if len(v) == 1 else v) for k, v in dec.items()}
    return dec


def slots_of(c):
    cd = c["cands"]
    return dict(cd) if isinstance(cd, dict) else {}


def make_config(c, alias=False, jstyle="float", flat=False, flat_single=False, include=None, res_split=None, rev_lines=False, slots_here=True):
    """dict configuration of a card.

    flat: candidate lists written out (lines = Expand(card), no named lists)
    include: None | name(s) put under $include; res_split: which resonances / keys
    stay in the main particle table (the rest lives in the included tables)
    """
    lines = c["expand"] if flat else c["lines"]
    if rev_lines:
        lines = list(reversed(lines))
    cfg = {"data": {"dat_order": list(c["finals"])}, "decay": decay_section(lines, flat_single)}
    part = {}
    part["$top"] = {c["top"]: particle_props(c, c["top"], alias, jstyle)}
    part["$finals"] = {n: particle_props(c, n, alias, jstyle) for n in c["finals"]}
    if not flat and slots_here:
        for s, cl in slots_of(c).items():
            part[s] = list(cl)
    for r in resonances_of(c):
        if res_split is not None and r not in res_split:
            continue
        props = particle_props(c, r, alias, jstyle)
        if res_split is not None and res_split[r] is not None:
            props = {k: v for k, v in props.items() if k in res_split[r]}
        part[r] = props
    if include is not None:
        part["$include"] = include
    cfg["particle"] = part
    cfg["constrains"] = {"decay": {"fix_chain_idx": 0, "fix_chain_val": 1.0}}
    return cfg


def shuffle_keys(obj, rng):
    """same mapping, other key order (lists keep their order: list order is content)"""
    if isinstance(obj, dict):
        ks = list(obj.keys())
        rng.shuffle(ks)
        return {k: shuffle_keys(obj[k], rng) for k in ks}
    if isinstance(obj, list):
        return [shuffle_keys(x, rng) for x in obj]
    return obj


# --------------------------------------------------------------------------
# loading and projecting
# --------------------------------------------------------------------------
@contextlib.contextmanager
def quiet():
    with contextlib.redirect_stdout(io.StringIO()):
        yield


def j2_of(J):
    return int(round(2 * float(J)))


def project(cfg, share=None, amp=True, want_config=False):
    """load a configuration with the real loader -> property-relevant projection"""
    from tf_pwa.config_loader import ConfigLoader

    out = {}
    with quiet():
        try:
            config = ConfigLoader(cfg, share_dict=share) if share is not None else ConfigLoader(cfg)
        except RuntimeError as e:
            if "not decay chain" in str(e):
                out["error"] = "nochain"
                return (out, None) if want_config else out
            out["error"] = "RuntimeError: %s" % e
            return (out, None) if want_config else out
        except Exception as e:  # noqa: BLE001
            out["error"] = "%s: %s" % (type(e).__name__, e)
            return (out, None) if want_config else out
        dg = config.get_decay()
        chains = []
        shape_ok = True
        qn = {}
        for ch in dg:
            chains.append(frozenset((str(d.core), tuple(sorted(str(o) for o in d.outs))) for d in ch))
            shape_ok = shape_ok and all(len(d.outs) == 2 for d in ch)
            out.setdefault("tops", set()).add(str(ch.top))
            out.setdefault("leaves", set()).add(tuple(sorted(str(o) for o in ch.outs)))
            for d in ch:
                for p in (d.core,) + tuple(d.outs):
                    qn[str(p)] = (j2_of(p.J), int(p.P))
                    out.setdefault("cq", {})[str(p)] = None if p.C is None else int(p.C)
                did = "%s->%s" % (d.core, "+".join(sorted(str(o) for o in d.outs)))
                out.setdefault("switches", {})[did] = (bool(d.p_break), bool(d.c_break))
                out.setdefault("ls", {})[did] = tuple(sorted((int(l), j2_of(sp)) for l, sp in d.get_ls_list()))
        out["order"] = chains
        out["chains"] = frozenset(chains)
        out["binary"] = shape_ok
        out["qn"] = qn
        if amp:
            try:
                a = config.get_amplitude()
                names = set(a.get_params().keys())
                out["names"] = frozenset(names)
                out["mw"] = {k: round(float(v), 9) for k, v in a.get_params().items() if k.endswith("_mass") or k.endswith("_width")}
                out["vm_names"] = frozenset(config.vm.variables.keys())
                free = set(config.vm.trainable_vars)
                out["free"] = frozenset(free)
                out["free_dup"] = len(free) != len(config.vm.trainable_vars)
                out["bounds"] = {str(k): tuple(None if x is None else float(x) for x in v) for k, v in config.bound_dic.items()}
                out["gauss"] = {str(k): tuple(v) for k, v in config.gauss_constr_dic.items()}
                out["vm_bnd"] = sorted(config.vm.bnd_dic.keys())
            except Exception as e:  # noqa: BLE001
                out["amp_error"] = "%s: %s" % (type(e).__name__, e)
    return (out, config) if want_config else out


def expected(c):
    E = c["expand"]

    def ch(seq):
        return frozenset((E[i - 1]["core"], tuple(sorted(E[i - 1]["outs"]))) for i in seq)

    exp = {
        "order": [ch(s) for s in c["kept"]],
        "names": frozenset(c["names"]),
        "free": frozenset(c["free"]),
    }
    exp["chains"] = frozenset(exp["order"])
    kd = sorted(set(i for s_ in c["kept"] for i in s_))
    did = lambda d: "%s->%s" % (d["core"], "+".join(sorted(d["outs"])))  # noqa: E731
    exp["ls"] = {did(E[i - 1]): tuple(sorted((l, s2) for l, s2 in c["allowed"][i - 1])) for i in kd}
    exp["switches"] = {did(E[i - 1]): (bool(E[i - 1]["pbreak"]), bool(E[i - 1].get("cbreak", True))) for i in kd}
    cqd = c["cq"] if isinstance(c.get("cq"), dict) else {}
    parts = set(n for i in kd for n in [E[i - 1]["core"]] + list(E[i - 1]["outs"]))
    exp["cq"] = {n: (cqd.get(n) or None) for n in parts}
    exp["mw"] = {}
    for n in c["names"]:
        if n.endswith("_mass"):
            exp["mw"][n] = res_numbers(n[: -len("_mass")])[0]
        elif n.endswith("_width"):
            exp["mw"][n] = res_numbers(n[: -len("_width")])[1]
    b = c["bounded"] if isinstance(c["bounded"], dict) else {}
    bounds = {}
    for n, kind in b.items():
        if kind == "range":
            _, _, lo, hi = res_numbers(n[: -len("_mass")])
            bounds[n] = (lo, hi)
        else:
            bounds[n] = (None, None)
    exp["bounds"] = bounds
    return exp


def fmt_chains(s):
    return sorted(sorted("%s->%s+%s" % (a, o[0], o[1]) for a, o in ch) for ch in s)


def compare_with_spec(ctx, c, cid, got, exp, tag=""):
    """impl projection against what the card denotes; returns True if equal"""
    ok = True
    if exp["chains"]:
        if "error" in got:
            ctx.violation(cid + tag + ":load", {"error": got["error"], "expected_chains": fmt_chains(exp["chains"])})
            return False
    else:
        if got.get("error") != "nochain":
            ctx.violation(cid + tag + ":expected_no_chain", {"got": got.get("error") or fmt_chains(got["chains"])})
            return False
        return True
    if got["chains"] != exp["chains"] or len(got["order"]) != len(exp["order"]):
        ctx.violation(
            cid + tag + ":chains",
            {
                "dropped": fmt_chains(exp["chains"] - got["chains"]),
                "extra": fmt_chains(got["chains"] - exp["chains"]),
                "n_got": len(got["order"]),
                "n_expected": len(exp["order"]),
            },
        )
        ok = False
    if got["tops"] != {c["top"]} or got["leaves"] != {tuple(sorted(c["finals"]))} or not got["binary"]:
        ctx.violation(cid + tag + ":top_or_finals", {"tops": sorted(got["tops"]), "leaves": sorted(got["leaves"])})
        ok = False
    bad_qn = {n: q for n, q in got["qn"].items() if tuple(c["qn"][n.split(":")[0]]) != q} if all(n.split(":")[0] in c["qn"] for n in got["qn"]) else {"undeclared": sorted(got["qn"])}
    if bad_qn:
        ctx.violation(cid + tag + ":quantum_numbers", {"got": bad_qn})
        ok = False
    for k in ("cq", "switches", "ls"):
        if got.get(k) != exp[k]:
            ctx.violation(cid + tag + ":" + k, {"got": got.get(k), "expected": exp[k]})
            ok = False
    if "amp_error" in got:
        ctx.violation(cid + tag + ":amplitude", {"error": got["amp_error"]})
        return False
    if "names" in got:
        if got["names"] != exp["names"]:
            ctx.violation(cid + tag + ":names", {"missing": sorted(exp["names"] - got["names"]), "extra": sorted(got["names"] - exp["names"])})
            ok = False
        if got["free"] != exp["free"] or got["free_dup"]:
            ctx.violation(cid + tag + ":free", {"not_free": sorted(exp["free"] - got["free"]), "unexpectedly_free": sorted(got["free"] - exp["free"]), "dup": got["free_dup"]})
            ok = False
        if got["mw"] != exp["mw"]:
            ctx.violation(cid + tag + ":mass_width_values", {"got": got["mw"], "expected": exp["mw"]})
            ok = False
        if got["bounds"] != exp["bounds"] or got["gauss"]:
            ctx.violation(cid + tag + ":bounds", {"got": got["bounds"], "expected": exp["bounds"], "gauss": got["gauss"]})
            ok = False
    return ok


REL_KEYS = ("error", "chains", "qn", "cq", "switches", "ls", "names", "free", "mw", "bounds", "gauss", "amp_error")


def relevant(p):
    return {k: p[k] for k in REL_KEYS if k in p}


def diff_keys(a, b):
    ra, rb = relevant(a), relevant(b)
    return [k for k in REL_KEYS if ra.get(k) != rb.get(k)]


def describe(p, keys):
    out = {}
    for k in keys:
        v = p.get(k)
        if k == "chains" and v is not None:
            v = fmt_chains(v)
        elif isinstance(v, (set, frozenset)):
            v = sorted(v)
        out[k] = v
    return out


# --------------------------------------------------------------------------
# variants of one card
# --------------------------------------------------------------------------
def write_yaml(path, obj):
    import yaml

    with open(path, "w") as f:
        yaml.safe_dump(obj, f, default_flow_style=None, sort_keys=False)
    return path


def variants(ctx, c, rng, serial):
    """[(name, cfg_or_path, share_dict)] -- all meant to denote the same model as make_config(c)"""
    res = resonances_of(c)
    out = []
    out.append(("alias_keys", make_config(c, alias=True, jstyle="str"), None))
    out.append(("expanded_candidates", make_config(c, flat=True), None))
    out.append(("flat_single_lines", make_config(c, flat_single=True), None))
    out.append(("key_order", shuffle_keys(make_config(c), rng), None))
    out.append(("key_order_alias", shuffle_keys(make_config(c, alias=True), rng), None))
    # $include through share_dict: all resonances live in the included table
    table = {r: particle_props(c, r) for r in res}
    out.append(("include_share_dict", make_config(c, include="res.yml", res_split={}), {"res.yml": copy.deepcopy(table)}))
    # the named candidate lists live in the included table as well
    table_s = dict(copy.deepcopy(table))
    table_s.update({s: list(cl) for s, cl in slots_of(c).items()})
    out.append(("include_share_dict_lists", make_config(c, include="all.yml", res_split={}, slots_here=False), {"all.yml": table_s}))
    # lines written in the opposite order: only the reference chain may change
    out.append(("line_order", make_config(c, rev_lines=True), None))
    # split definitions: main table keeps J/P (and overrides a wrong J,P of the include), include has the rest
    wrong = copy.deepcopy(table)
    split = {}
    for k, r in enumerate(res):
        if k % 2 == 0:
            wrong[r]["J"] = 3 if wrong[r]["J"] != 3 else 2
            wrong[r]["P"] = -wrong[r]["P"]
            split[r] = ("J", "P")
        else:
            split[r] = None if k % 4 == 1 else ()
    split = {r: v for r, v in split.items() if v != ()}
    out.append(("include_override", make_config(c, include="res.yml", res_split=split), {"res.yml": wrong}))
    # through files
    d = os.path.join(ctx.work, "inc")
    os.makedirs(d, exist_ok=True)
    # included definition overridden in the card with the OTHER spelling of the same attribute
    # (Par/P, m0/mass, g0/width): the card's own value wins (config.sample.yml)
    canon_alias = {"P": "Par", "mass": "m0", "width": "g0"}

    def wrong_values(props):
        w = dict(props)
        w["P"] = -w["P"]
        w["mass"] = round(w["mass"] + 0.3, 3)
        w["width"] = round(w["width"] + 0.02, 3)
        return w

    inc_canon = {r: wrong_values(table[r]) for r in res}
    main_alias = {r: {canon_alias[k]: table[r][k] for k in canon_alias} for r in res}
    cfg1 = make_config(c, include="res.yml", res_split={})
    cfg1["particle"].update(copy.deepcopy(main_alias))
    out.append(("include_canonical_override_alias", cfg1, {"res.yml": inc_canon}))
    inc_alias = {r: {canon_alias.get(k, k): v for k, v in wrong_values(table[r]).items()} for r in res}
    main_canon = {r: {k: table[r][k] for k in canon_alias} for r in res}
    f0 = write_yaml(os.path.join(d, "res_%d_o.yml" % serial), inc_alias)
    cfg2 = make_config(c, include=f0, res_split={})
    cfg2["particle"].update(copy.deepcopy(main_canon))
    cfg2["particle"] = shuffle_keys(cfg2["particle"], rng)
    out.append(("include_alias_file_override_canonical", cfg2, None))
    f1 = write_yaml(os.path.join(d, "res_%d_a.yml" % serial), table)
    out.append(("include_file", make_config(c, include=f1, res_split={}), None))
    # list of files with disjoint content
    first = {r: table[r] for r in res[::2]}
    second = {r: table[r] for r in res[1::2]}
    f2 = write_yaml(os.path.join(d, "res_%d_b.yml" % serial), first)
    f3 = write_yaml(os.path.join(d, "res_%d_c.yml" % serial), second)
    out.append(("include_file_list", make_config(c, include=[f2, f3], res_split={}), None))
    # the whole card from a YAML file
    odd = zlib.crc32(card_id(c).encode()) % 2 == 1  # a function of the card, so that --replay takes the same branch
    f4 = write_yaml(os.path.join(d, "card_%d.yml" % serial), make_config(c, alias=odd))
    out.append(("yaml_file" + ("_alias" if odd else ""), f4, None))
    return out


# --------------------------------------------------------------------------
def run_tlc(ctx):
    t = TIERS[ctx.tier]
    r = tlc.run("DecayCard", _cfg(ctx, t), work=ctx.work, workers=16, timeout=t["tlc_timeout"])
    if r.violation:
        # Theorems is the conjunction of the individual theorems (one evaluation of Sem per card); name the failing one
        r2 = tlc.run("DecayCard", _cfg(ctx, t, separate=True), work=ctx.work, workers=16, timeout=t["tlc_timeout"], coverage=False)
        raise tlc.MachineryError("DecayCard spec violates its own theorem %s at %s" % (r2.violation or r.violation, (r2.trace or r.trace)[-1:]))
    ctx.tlc(r, "DecayCard %s" % ctx.tier, vacuity_actions=["Init"])
    if not r.out or "cards" not in r.out:
        raise tlc.MachineryError("DecayCard produced no card table")
    cards = r.out["cards"]
    if len(cards) != r.distinct:
        raise tlc.MachineryError("card table size %d != distinct states %d" % (len(cards), r.distinct))
    ids = [card_id(c) for c in cards]
    if len(set(ids)) != len(ids):
        raise tlc.MachineryError("card ids are not unique")
    order = sorted(range(len(cards)), key=lambda i: ids[i])
    return [cards[i] for i in order], [ids[i] for i in order]


def check_vacuity(ctx, cards):
    """antecedents of the implication-shaped theorems must occur in the table"""
    n_drop = sum(1 for c in cards if 0 < len(c["kept"]) < len(c["chains"]))
    n_none = sum(1 for c in cards if not c["kept"])
    n_all = sum(1 for c in cards if c["kept"] and len(c["kept"]) == len(c["chains"]))
    n_leaf = sum(1 for c in cards if c["trees"] > len(c["chains"]))
    n_ll = sum(1 for c in cards if any(ln["ll"] for ln in c["lines"]))
    n_pb = sum(1 for c in cards if any(ln["pbreak"] for ln in c["lines"]))
    n_half = sum(1 for c in cards if any(q[0] % 2 for q in c["qn"].values()))
    n_bnd = sum(1 for c in cards if isinstance(c["bounded"], dict) and c["bounded"])
    stats = dict(cards=len(cards), some_chain_dropped=n_drop, no_chain_left=n_none, all_kept=n_all, wrong_leaves_filtered=n_leaf,
                 with_l_list=n_ll, with_p_break=n_pb, with_half_integer_spin=n_half, with_bounds=n_bnd,
                 max_chains=max(len(c["chains"]) for c in cards))
    ctx.part("card_table", **stats)
    for k in ("some_chain_dropped", "no_chain_left", "all_kept", "wrong_leaves_filtered", "with_l_list", "with_p_break", "with_half_integer_spin", "with_bounds"):
        if stats[k] == 0:
            raise tlc.MachineryError("vacuous card table: no card with %s" % k)
    return stats


def stratified(rng, cards, n):
    """indices of about n cards, every shape/scheme/option kind represented, kept-chain cards preferred"""
    groups = {}
    for i, c in enumerate(cards):
        groups.setdefault((c["shape"], c["scheme"], c["opt"]["kind"]), []).append(i)
    for g in groups.values():
        rng.shuffle(g)
        g.sort(key=lambda i: 0 if cards[i]["kept"] else 1)  # stable: loadable cards first
    out = []
    keys = sorted(groups)
    rng.shuffle(keys)  # any prefix of the result spreads over shapes, schemes and option kinds
    k = 0
    while len(out) < min(n, len(cards)):
        progressed = False
        for key in keys:
            g = groups[key]
            if k < len(g):
                out.append(g[k])
                progressed = True
                if len(out) >= n:
                    break
        k += 1
        if not progressed:
            break
    return out


class Guard:
    """Fail fast and bounded: a pass ends as soon as MAX_KEYS distinct violation keys have been collected
    (the remaining passes are skipped), and every pass has a wall-clock budget of FACTOR x its expected time
    (expected = number of loads x the per-load cost measured by the early probes on this machine)."""

    MAX_KEYS = 25
    FACTOR = 4.0
    FLOOR_S = 30.0

    def __init__(self, ctx):
        self.ctx = ctx
        self.stopped = None
        self.unit = {False: 0.006, True: 0.045}  # seconds per load without / with amplitude; re-measured by the probes
        self.name, self.t0, self.budget = "", time.time(), 1e9
        self.log = {}

    def found(self):
        return len(self.ctx.violations) + len(self.ctx.known)

    def start(self, name, n_plain, n_amp):
        expected = n_plain * self.unit[False] + n_amp * self.unit[True]
        self.name, self.t0 = name, time.time()
        self.budget = max(self.FACTOR * expected, self.FLOOR_S)
        self.log[name] = {"expected_s": round(expected, 1), "budget_s": round(self.budget, 1)}
        return self.stopped is None

    def ok(self):
        """call once per load; False = leave the pass"""
        if self.stopped:
            return False
        if self.found() >= self.MAX_KEYS:
            self.stopped = "%d distinct violation keys collected in %s; remaining loads and passes skipped" % (self.found(), self.name)
            return False
        el = time.time() - self.t0
        if el > self.budget:
            msg = "%s exceeded its wall-clock budget (%.0f s > %.0f s = %.0f x expected): loads are slowing down" % (self.name, el, self.budget, self.FACTOR)
            if self.found():
                self.stopped = msg + "; remaining passes skipped"
                return False
            raise tlc.MachineryError(msg + " and no violation was found so far")
        return True

    def end(self):
        self.log.setdefault(self.name, {})["wall_s"] = round(time.time() - self.t0, 1)


def renamed(c, mapping):
    """the same card with other resonance names (a different configuration that shares the slot names)"""

    def r(x):
        if isinstance(x, str):
            for a, b in mapping.items():
                x = x.replace(a, b)
            return x
        if isinstance(x, list):
            return [r(y) for y in x]
        if isinstance(x, dict):
            return {r(k): r(v) for k, v in x.items()}
        return x

    return r(c)


def share_dict_probe(ctx, guard, tf_cards, ids):
    """Two DIFFERENT cards that $include the same share_dict table (the MultiConfig pattern).  Card 1 overrides J, P,
    mass of the included resonances in its own particle section (canonical and alias spellings); card 2 takes the
    table as it is.  With one and the same share_dict object, in both orders and with the include given as a key and
    as a list: card 2's model must equal its load with a fresh deep copy of the table (and what the card denotes),
    card 1's chains / J,P / (l,s) lists must be its own, and the caller's table must be unchanged after every load."""
    groups = {}
    for i, c in enumerate(tf_cards):
        if c["kept"] and c["opt"]["kind"] == "none" and resonances_of(c):
            groups.setdefault((c["shape"], c["scheme"]), []).append(i)
    pairs = []
    for key in sorted(groups):
        g = sorted(groups[key], key=lambda i: ids[i])
        a = g[0]
        b = next((j for j in reversed(g) if tf_cards[j]["qnsel"] != tf_cards[a]["qnsel"]), None)
        if b is not None:
            pairs.append((a, b))
    pairs = pairs[:: max(1, len(pairs) // 4)][:5]
    n = 0
    for i1, i2 in pairs:
        c1, c2 = tf_cards[i1], tf_cards[i2]
        pid = "%s|%s" % (ids[i1], ids[i2].split("/")[2])  # same shape and scheme, other J^P
        res = resonances_of(c2)
        table0 = {r: particle_props(c2, r) for r in res}
        e1, e2 = expected(c1), expected(c2)
        for mode, inc in (("key", "res.yml"), ("list", ["res.yml"])):
            cfg2 = make_config(c2, include=inc, res_split={})
            cfg1 = make_config(c1, include=inc, res_split={})
            for k, r in enumerate(res):
                p1 = particle_props(c1, r)
                m = round(p1["mass"] + 0.2, 3)
                cfg1["particle"][r] = {"J": p1["J"], "Par": p1["P"], "m0": m} if k % 2 == 0 else {"J": p1["J"], "P": p1["P"], "mass": m}
            fresh2 = project(copy.deepcopy(cfg2), share={"res.yml": copy.deepcopy(table0)}, amp=True)
            n += 1
            compare_with_spec(ctx, c2, ids[i2], fresh2, e2, tag=":early_sd:%s:fresh" % mode)
            for order in ("1,2", "2,1,2"):
                if not guard.ok():
                    return n
                share = {"res.yml": copy.deepcopy(table0)}
                keep = copy.deepcopy(share)
                for step, which in enumerate(order.split(",")):
                    c, cfg, e = (c1, cfg1, e1) if which == "1" else (c2, cfg2, e2)
                    got = project(copy.deepcopy(cfg), share=share, amp=True)
                    n += 1
                    tag = "%s:early_sd:%s:%s:%d" % (pid, mode, order.replace(",", ""), step)
                    if share != keep:
                        ctx.violation(tag + ":table_modified", {"table_before": keep["res.yml"], "table_after": share["res.yml"]})
                        share = copy.deepcopy(share)  # keep probing with what a user would now have
                        keep = copy.deepcopy(share)
                    if which == "2":
                        dk = diff_keys(fresh2, got)
                        if dk:
                            ctx.violation(tag + ":card2:" + "+".join(dk), {"same_table_object_after_other_card": describe(got, dk), "fresh_copy_of_table": describe(fresh2, dk)})
                    else:
                        dk = []
                        if got.get("error"):
                            dk.append("error")
                        else:
                            if got["chains"] != e1["chains"]:
                                dk.append("chains")
                            if got["ls"] != e1["ls"]:
                                dk.append("ls")
                            if any(tuple(c1["qn"].get(nm.split(":")[0], ())) != q for nm, q in got["qn"].items()):
                                dk.append("qn")
                        if dk:
                            ctx.violation(tag + ":card1:" + "+".join(dk), {"got": describe(got, dk), "expected_chains": fmt_chains(e1["chains"]), "expected_ls": e1["ls"]})
    ctx.part("early_probes", share_dict_pairs=len(pairs), share_dict_loads=n)
    return n


def early_probes(ctx, guard, tf_cards, ids, rng):
    """Cheap and decisive 'repeated loads in one process' probes, before the bulk passes: state that leaks from one
    load into the next shows here within seconds.
      * a card and its copy with renamed candidates (same slot names, other content) loaded alternately
      * cards of different shapes that use the same slot names with other content (R_CD: [X1] / R_CD: [],
        R_BD a list / R_BD a particle, ...) loaded alternately
      * one and the same dict object loaded twice
    every load is compared with what the card denotes (spec) and with the first load of the same card."""
    by_shape = {}
    for i, c in enumerate(tf_cards):
        if c["kept"] and c["opt"]["kind"] == "none":
            by_shape.setdefault(c["shape"], []).append(i)
    picks = []
    for sh in sorted(by_shape):
        g = sorted(by_shape[sh], key=lambda i: (-len(tf_cards[i]["kept"]), ids[i]))
        picks.append(g[0])
    cards = [(ids[i], tf_cards[i]) for i in picks]
    # renamed copies of the cards with named candidate lists
    ren = {"Z1": "Qa", "Z2": "Qb", "Y1": "Qc", "Y2": "Qd", "X1": "Qe", "X2": "Qf", "U1": "Qg", "U2": "Qh", "V1": "Qi", "V2": "Qj"}
    RES_ORDER.extend(x for x in ren.values() if x not in RES_ORDER)
    extra = []
    for cid, c in cards:
        if slots_of(c):
            extra.append((cid + "~renamed", renamed(c, ren)))
    seq = []
    for cid, c in cards:
        seq.append((cid, c))
    both = cards + extra
    rounds = [both, list(reversed(both)), both[::2] + both[1::2]]
    first = {}
    n_loads = 0
    times = {False: [], True: []}
    guard.start("early probes", 0, 3 * len(both) + len(both))
    for rnd, order in enumerate(rounds):
        for cid, c in order:
            if not guard.ok():
                break
            amp = rnd != 1  # middle round without amplitude (measures the plain load)
            t0 = time.time()
            cfg0 = make_config(c)
            keep = copy.deepcopy(cfg0)
            got = project(cfg0, amp=amp)
            n_loads += 1
            compare_with_spec(ctx, c, cid, got, expected(c), tag=":early%d" % rnd)
            _ = cfg0 == keep  # the bulk passes do this comparison too: time the whole iteration
            times[amp].append(time.time() - t0)
            if cid in first:
                ref = first[cid]
                dk = [k for k in diff_keys(ref, got) if k in got or k == "error"]
                if dk:
                    ctx.violation("%s:early_reload:%s" % (cid, "+".join(dk)), {"first_load": describe(ref, dk), "load_after_other_cards": describe(got, dk)})
            elif amp:
                first[cid] = got
                ctx.count(1, distinct_key=cid + ":early", nontrivial=True)
                if len(first) == 1:
                    ctx.sample({"card": cid, "probe": "early alternating loads", "config": make_config(c), "kept_chains": fmt_chains(expected(c)["chains"]),
                                "implementation_chain_set_equal": got.get("chains") == expected(c)["chains"]})
    for cid, c in both[:: max(1, len(both) // 6)]:
        if not guard.ok():
            break
        cfg = make_config(c)
        a = project(cfg, amp=True)
        b = project(cfg, amp=True)
        n_loads += 2
        dk = diff_keys(a, b)
        if dk:
            ctx.violation("%s:early_twice:%s" % (cid, "+".join(dk)), {"first": describe(a, dk), "second": describe(b, dk)})
    n_loads += share_dict_probe(ctx, guard, tf_cards, ids)
    guard.end()
    for amp in (False, True):
        if len(times[amp]) >= 5:
            ts = sorted(times[amp])
            guard.unit[amp] = max(ts[len(ts) // 2], 0.003 if not amp else 0.02)
    ctx.part("early_probes", cards=len(both), renamed_copies=len(extra), loads=n_loads, violations=guard.found(),
             per_load_ms_plain=round(1000 * guard.unit[False], 2), per_load_ms_amplitude=round(1000 * guard.unit[True], 2))
    guard.probe_cards = len(first)
    ctx.log("early probes: %d loads on %d cards, %d violation keys; %.1f / %.1f ms per load" % (n_loads, len(both), guard.found(), 1000 * guard.unit[False], 1000 * guard.unit[True]))


def run(ctx, only=None, probes=None):
    tf_cards, ids = run_tlc(ctx)
    t = TIERS[ctx.tier]
    check_vacuity(ctx, tf_cards)
    bind(ctx, tf_cards, ids, t, only, probes)


def bind(ctx, tf_cards, ids, t, only=None, probes=None):
    """only: set of card ids (replay of one card); probes: True/False forces the early probes on/off"""
    with quiet():
        import tf_pwa.config_loader  # noqa: F401  (import cost outside the timed loops)
    rng = random.Random(ctx.seed)
    n = len(tf_cards)
    if only is not None:
        sel = [i for i in range(n) if ids[i] in only]
        amp_idx, var_idx = set(sel), set(sel)
        all_idx = sel
    else:
        all_idx = list(range(n))
        amp_list = stratified(rng, tf_cards, t["n_amp"])
        amp_idx = set(amp_list)
        var_idx = set(amp_list[: t["n_var"]])
    exps = {i: expected(tf_cards[i]) for i in all_idx}
    guard = Guard(ctx)

    # ---- early probes: repeated / alternating loads of a few cards ----------
    if (only is None) if probes is None else probes:
        early_probes(ctx, guard, tf_cards, ids, random.Random(ctx.seed + 1))

    # ---- pass 1: every card, shuffled order -------------------------------
    order1 = list(all_idx)
    rng.shuffle(order1)
    first = {}
    n_equal = 0
    guard.start("pass 1", len(order1), len(amp_idx))
    for i in order1:
        if not guard.ok():
            break
        c, cid = tf_cards[i], ids[i]
        cfg = make_config(c)
        before = copy.deepcopy(cfg)
        got = project(cfg, amp=(i in amp_idx))
        if cfg != before:
            ctx.notes.append("model_drift: loader mutated the caller's dict for %s" % cid) if len(ctx.notes) < 5 else None
            cfg = before
        first[i] = got
        ctx.count(1, distinct_key=cid, nontrivial=bool(c["kept"]))
        n_equal += compare_with_spec(ctx, c, cid, got, exps[i])
    guard.end()
    ctx.part("pass1_against_spec", cards=len(first), of=len(order1), with_amplitude=len(amp_idx & set(first)), equal=n_equal)
    ctx.log("pass 1: %d of %d cards against the spec, %d equal" % (len(first), len(order1), n_equal))

    # ---- variants + export on a subset ------------------------------------
    n_var = n_var_equal = n_exp = 0
    vkinds = {}
    var_done = 0
    guard.start("variants", 4 * len(var_idx), 14 * len(var_idx))
    for serial, i in enumerate(sorted(var_idx)):
        if i not in first or not guard.ok():
            break
        var_done += 1
        c, cid = tf_cards[i], ids[i]
        base = first[i]
        vrng = random.Random("%d:%s" % (ctx.seed, cid))
        for name, vcfg, share in variants(ctx, c, vrng, serial):
            got = project(vcfg, share=share, amp=True)
            n_var += 1
            vkinds[name] = vkinds.get(name, 0) + 1
            dk = diff_keys(base, got)
            if name == "line_order" and dk == ["free"]:
                # which chain is the reference follows the written order; everything else must agree
                tot = lambda p: frozenset(n for n in p["free"] if "_total_" in n)  # noqa: E731
                if len(got["free"]) == len(base["free"]) and got["free"] - tot(got) == base["free"] - tot(base):
                    dk = []
            if dk:
                ctx.violation("%s:variant:%s:%s" % (cid, name, "+".join(dk)), {"variant": describe(got, dk), "expanded_form": describe(base, dk), "config": vcfg if isinstance(vcfg, dict) else open(vcfg).read(), "share_dict": share})
            else:
                n_var_equal += 1
        # export -> reload (before and after the amplitude has been built)
        if "error" not in base:
            for when in ("before_amplitude", "after_amplitude"):
                got0, config = project(make_config(c), amp=(when == "after_amplitude"), want_config=True)
                try:
                    with quiet():
                        ex = config.get_decay().as_config()
                    ex = dict(ex)
                    ex["data"] = {"dat_order": list(c["finals"])}
                    back = project(ex, amp=False)
                except Exception as e:  # noqa: BLE001
                    back = {"error": "%s: %s" % (type(e).__name__, e)}
                n_exp += 1
                exp_keys = ["error", "chains", "qn", "cq", "switches", "ls"]
                dk = [k for k in exp_keys if back.get(k) != base.get(k)]
                if "ls" in dk and not back.get("error"):
                    # l_list is not part of the export (HelicityDecay consumes it): where the card restricts l the
                    # reloaded list may only be a superset; everywhere else it has to be identical
                    restricted = set("%s->%s" % (d_["core"], "+".join(sorted(d_["outs"]))) for d_ in c["expand"] if d_["ll"])
                    if all((k in restricted and set(v) <= set(back["ls"].get(k, ()))) or back["ls"].get(k) == v for k, v in base["ls"].items()) and set(back["ls"]) == set(base["ls"]):
                        dk.remove("ls")
                        ctx.part("model_drift", l_list_not_exported=1)
                if not back.get("error") and len(back["order"]) != len(base["order"]):
                    dk.append("count")
                if dk:
                    ctx.violation("%s:export:%s:%s" % (cid, when, "+".join(dk)), {"reloaded": describe(back, dk), "original": describe(base, dk)})
    guard.end()
    ctx.part("variants", cards=var_done, of=len(var_idx), loads=n_var, equal=n_var_equal, kinds=vkinds, export_reloads=n_exp)
    ctx.log("variants: %d loads on %d cards, %d equal; %d export round trips" % (n_var, var_done, n_var_equal, n_exp))

    # ---- pass 2: every card again, other order (everything else in between) ----
    order2 = list(all_idx)
    rng.shuffle(order2)
    n_same = 0
    amp2_idx = amp_idx if ctx.tier == "thorough" or only is not None else set(sorted(amp_idx)[::2])  # quick: every other one
    n_twice_plan = max(50, len(order2) // 20)
    n_inter_plan = max(40, len(amp_idx) // 5)
    guard.start("pass 2", len(order2) + 2 * n_twice_plan, len(amp2_idx) + n_inter_plan + len(amp_idx) // 10)
    n_reloaded = 0
    for i in order2:
        if i not in first or not guard.ok():
            break
        n_reloaded += 1
        c, cid = tf_cards[i], ids[i]
        got = project(make_config(c), amp=(i in amp2_idx))
        if i in amp_idx and i not in amp2_idx:
            got = dict(first[i], **got)  # names / constraints not rebuilt for this card in pass 2
        dk = diff_keys(first[i], got)
        if dk:
            ctx.violation("%s:reload:%s" % (cid, "+".join(dk)), {"first_load": describe(first[i], dk), "later_load": describe(got, dk)})
        else:
            n_same += 1
            if first[i].get("order") != got.get("order"):
                ctx.part("model_drift", chain_order_changed_on_reload=1)
    # immediate repetition of one and the same dict object
    n_twice = 0
    for i in order2[:n_twice_plan]:
        if i not in first or not guard.ok():
            break
        c, cid = tf_cards[i], ids[i]
        cfg = make_config(c)
        a = project(cfg, amp=(i in amp_idx))
        b = project(cfg, amp=(i in amp_idx))
        n_twice += 1
        dk = diff_keys(a, b) or diff_keys(first[i], b)
        if dk:
            ctx.violation("%s:twice:%s" % (cid, "+".join(dk)), {"first": describe(a, dk), "second": describe(b, dk)})
    # interleaved construction: several loaders are built first, their amplitudes afterwards in the opposite order
    n_inter = 0
    inter = [i for i in order2 if i in amp_idx and i in first and "names" in first[i]][:n_inter_plan]
    for k in range(0, len(inter), 8):
        if not guard.ok():
            break
        batch = inter[k : k + 8]
        loaders = []
        with quiet():
            from tf_pwa.config_loader import ConfigLoader

            for i in batch:
                try:
                    loaders.append(ConfigLoader(make_config(tf_cards[i])))
                except Exception as e:  # noqa: BLE001
                    loaders.append(e)
            for i, config in reversed(list(zip(batch, loaders))):
                n_inter += 1
                try:
                    if isinstance(config, Exception):
                        raise config
                    a = config.get_amplitude()
                    got = {"names": frozenset(a.get_params().keys()), "free": frozenset(config.vm.trainable_vars),
                           "chains": frozenset(frozenset((str(d.core), tuple(sorted(str(o) for o in d.outs))) for d in ch) for ch in config.get_decay()),
                           "bounds": {str(kk): tuple(None if x is None else float(x) for x in v) for kk, v in config.bound_dic.items()}}
                except Exception as e:  # noqa: BLE001
                    got = {"error": "%s: %s" % (type(e).__name__, e)}
                dk = [kk for kk in got if got[kk] != first[i].get(kk)]
                if dk:
                    ctx.violation("%s:interleaved:%s" % (ids[i], "+".join(dk)), {"first_load": describe(first[i], dk), "interleaved": describe(got, dk)})
    guard.end()
    ctx.part("pass2_reload", cards=n_reloaded, of=len(order2), identical=n_same, same_dict_twice=n_twice, interleaved_amplitudes=n_inter)
    ctx.log("pass 2: %d of %d cards reloaded, %d identical" % (n_reloaded, len(order2), n_same))
    if guard.stopped is None and only is None:
        density_observation(ctx)
        binding_demo(ctx, tf_cards, ids, [i for i in order1 if "names" in first.get(i, {})])
    ctx.part("guard", passes=guard.log, max_keys=Guard.MAX_KEYS, factor=Guard.FACTOR, stopped=guard.stopped or "")
    if guard.stopped:
        ctx.notes.append("stopped early: " + guard.stopped)
        ctx.log("stopped early:", guard.stopped)
    ctx.cov["exhaustive"] = guard.stopped is None and only is None and len(first) == len(tf_cards)

    # ---- evidence -----------------------------------------------------------
    ctx.cov["traces_validated_against_impl"] = len(first) + getattr(guard, "probe_cards", 0)
    pool = [i for i in (sorted(amp_idx) if only is None else all_idx) if i in first] or list(first)
    preds = [
        lambda c: c["shape"] == "s3_sh" and c["trees"] > len(c["chains"]) and 0 < len(c["kept"]) < len(c["chains"]),
        lambda c: c["shape"] == "s4_m" and 0 < len(c["kept"]) < len(c["chains"]),
        lambda c: c["scheme"] == "bar" and c["opt"]["kind"] == "pbreak" and c["kept"],
        lambda c: isinstance(c["bounded"], dict) and c["bounded"] and c["kept"],
    ]
    for pr in preds:
        for i in pool:
            c = tf_cards[i]
            if pr(c):
                ctx.sample({"card": ids[i], "config": make_config(c), "trees_from_top": c["trees"], "chains_with_declared_finals": len(c["chains"]),
                            "kept_chains": fmt_chains(exps[i]["chains"]), "dropped_by_selection_rule": len(c["chains"]) - len(c["kept"]),
                            "n_names": len(c["names"]), "free": sorted(c["free"]), "bounds": exps[i]["bounds"],
                            "implementation_chain_set_equal": first[i].get("chains") == exps[i]["chains"]})
                break
    ctx.cov["rule"] = (
        "every card of the grammar (shape x final-state scheme x J^P assignment of the resonances x one option site) is one TLC state; "
        "TLC checks %s per card and emits Expand/Chains/Kept/ParamNames/Free/Bounded; every card is loaded by ConfigLoader twice "
        "(two shuffled passes over all cards in one process) and its chain set, tops, leaves, quantum numbers compared exactly; "
        "parameter names, free set, bound dictionary compared for a stratified subset of %d cards; %d of them are also loaded in %d "
        "alternative spellings and through as_config() -> reload. non-trivial = card with at least one kept chain" % (", ".join(INVARIANTS), len(amp_idx), len(var_idx), len(vkinds))
    )
    ctx.assume("np.Inf shim of the harness prelude (tf_pwa.config_loader does not import under NumPy 2 otherwise)")
    ctx.assume("data section reduced to dat_order (no event files); default cut list (ls_cut only), cp_trans default")
    ctx.assume("grammar: distinct final-state names, no decay written twice, acyclic cards; one option site per card")
    ctx.assume("parameter VALUES (random initial values) are not compared; names, fixed/free sets, bound and gauss dictionaries are")
    ctx.assume("the first kept chain in written order is the reference chain (constrains.decay.fix_chain_idx = 0 as in config.sample.yml)")
    ctx.assume("exported configuration is required to reproduce chains and J, P only (the property's wording), not parameter names or l_list")


def binding_demo(ctx, tf_cards, ids, idx):
    """self-test that must fail: a corrupted table entry has to be rejected by the comparison"""

    class Collect:
        def __init__(self):
            self.keys = []

        def violation(self, key, detail):
            self.keys.append(key)

    for i in idx:
        c = tf_cards[i]
        if len(c["kept"]) >= 2 and c["free"]:
            got = project(make_config(c), amp=True)
            wrong1 = expected(dict(c, kept=c["kept"][1:]))  # one allowed chain declared dropped
            wrong2 = expected(dict(c, free=sorted(c["free"])[1:]))  # one free parameter declared fixed
            k1, k2, k0 = Collect(), Collect(), Collect()
            compare_with_spec(k1, c, ids[i], got, wrong1)
            compare_with_spec(k2, c, ids[i], got, wrong2)
            compare_with_spec(k0, c, ids[i], got, expected(c))
            ok = bool(k1.keys) and any(k.endswith(":chains") for k in k1.keys) and k2.keys == [ids[i] + ":free"] and not k0.keys
            ctx.cov["binding_demo"] = {"card": ids[i], "corrupted_chain_set_rejected": k1.keys, "corrupted_free_set_rejected": k2.keys, "uncorrupted_accepted": not k0.keys}
            if not ok:
                raise tlc.MachineryError("binding demonstration failed: %s" % ctx.cov["binding_demo"])
            return
    raise tlc.MachineryError("binding demonstration: no suitable card")


JUDGE_DENSITY = True  # judged since the repair f6c52dc (the model a configuration determines must not depend on earlier loads)


def density_observation(ctx):
    """Same particle names, other spin of the top particle, one process: does the second model's density
    depend on the first?  (functools.lru_cache on HelicityDecay._get_cg_matrix is keyed by particle *names*.)
    Outside the wording of C19 (chains, names, constraints) -> recorded, not judged, unless JUDGE_DENSITY."""
    import numpy as np
    from tf_pwa.config_loader import ConfigLoader
    from tf_pwa.phasespace import PhaseSpaceGenerator

    def cfg(ja, names):
        r, b, c, d = names
        return {
            "data": {"dat_order": [b, c, d]},
            "decay": {"A": [[r, d]], r: [b, c]},
            "particle": {"$top": {"A": {"J": ja, "P": -1, "mass": 3.0}},
                         "$finals": {b: {"J": 0, "P": -1, "mass": 0.5}, c: {"J": 0, "P": -1, "mass": 0.5}, d: {"J": 0, "P": -1, "mass": 0.14}},
                         r: {"J": 1, "P": -1, "mass": 1.5, "width": 0.1}},
            "constrains": {"decay": {"fix_chain_idx": 0, "fix_chain_val": 1.0}},
        }

    p4 = [np.array(x) for x in PhaseSpaceGenerator(3.0, [0.5, 0.5, 0.14]).generate(6)]

    def dens(ja, names):
        with quiet():
            c = ConfigLoader(cfg(ja, names))
            return np.array(c.get_amplitude()(c.data.cal_angle(p4)))

    try:
        ref = dens(1, ("Qr", "Qb", "Qc", "Qd"))  # names never used before in this process
        dens(0, ("Pr", "Pb", "Pc", "Pd"))
        after = dens(1, ("Pr", "Pb", "Pc", "Pd"))  # same card as ref up to renaming, loaded after its J=0 sibling
    except Exception as e:  # noqa: BLE001
        ctx.notes.append("density observation not computable: %s" % e)
        return
    same = bool(np.allclose(ref, after, rtol=1e-8, atol=1e-12))
    ctx.part("observation_outside_statement", density_independent_of_earlier_loads=same)
    if not same:
        ctx.notes.append(
            "observation (not judged): the density of a card loaded after a card with the same particle names and another "
            "spin differs from the density of the same card under fresh names (max rel. deviation %.3g): "
            "HelicityDecay._get_cg_matrix is cached by particle names across loads" % float(np.max(np.abs(after - ref) / np.abs(ref)))
        )
        if JUDGE_DENSITY:
            ctx.violation("density:same_names_other_spin", {"fresh_names": ref.tolist(), "after_sibling": after.tolist()})


def replay(ctx, path):
    with open(path) as f:
        j = json.load(f)
    cid = j["key"].split(":")[0]
    if ":early" in j["key"]:
        run(ctx, only=set(), probes=True)  # the early alternating-load probes (deterministic), no bulk pass
    else:
        run(ctx, only={cid})
