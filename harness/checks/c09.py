"""C09 -- uncertainties are first-order propagated from the inverse Hessian.

Spec: spec/ErrProp.tla.  The states are expression trees over value+-error
numbers (one action per operator of the NumberError API); TLC checks, in exact
rational arithmetic, that the operator rules as implemented (Rule) reproduce
first-order propagation (Ref, forward-mode differentiation of the whole tree)
and that sigma >= 0 (NonNegative) and the logarithmic terms of powers
(TransLaw).  The spec transcribes err_num.py as repaired by ce344f3 / 0b78787
(constants AbsFix = LogFix = TRUE); with the flags FALSE it transcribes the
code as found, NonNegative / TransLaw then are probes that fail and whose TLC
counterexamples are reproduced on the real class.

Binding (B3): every tree TLC emits is evaluated with the real
tf_pwa.err_num.NumberError / cal_err and compared with sqrt(Ref) from TLC;
transcendental trees with a dual-number reference cross-checked by Richardson
finite differences; VarsManager.error_trans / ParamsTrans on the same trees
with TLC's exact gradient and random covariance matrices;
VarsManager.trans_error_matrix on the TLC-enumerated bound configurations;
ConfigLoader.get_params_error / cal_hesse_error against the inverse of a
finite-difference Hessian of the reported NLL; fit-fraction errors (both
library paths) against sqrt(g V g) with g the finite-difference gradient of the
fraction itself.
"""
import contextlib
import io
import json
import math
import os
import random
import time
import warnings
import zlib
from fractions import Fraction

import numpy as np

from .. import tlc
from .. import errprop_c09 as E

LEVEL = "exploration"

ACTIONS = [
    "Neg", "PowCs", "OpConsts", "OpRights", "OpLefts", "Cal1", "Cal2s", "Cal2cs", "Cal2ls", "Applys",
    "Reflecteds", "Exp", "Log", "SqrtFD", "Sin", "PowHs", "PowUs", "RevPows", "TNeg", "TSquare",
    "TExpLog", "TLogExp", "TOpConsts", "TOpRights", "TOpLefts",
]
# Which behaviour spec/ErrProp.tla transcribes.  As found (both False) the operator rules return negative
# sigmas (AbsFix) and take the wrong logarithm (LogFix); the invariants NonNegative / TransLaw then are probes
# that must fail.  After the corresponding repair of tf_pwa/err_num.py set the flag to True: the spec's Rule
# follows the repaired code and the probe becomes an ordinary invariant of the main run.
# True since /repo ce344f3 (np.abs in * and /) and 0b78787 (log(base), abs(log(other))).
SPEC_ABS_FIX = True
SPEC_LOG_FIX = True
MAIN_INVARIANTS = ["Magnitude", "ValueAgrees", "NegCharacterised", "CalNonNeg", "TransCharacterised", "BoundCongruence"]

# tolerances (measured margins on the unchanged tree are recorded in the evidence)
TOL_EXACT = 1e-12  # NumberError vs sqrt(Ref), rational trees
TOL_TRANS = 1e-10  # transcendental trees vs dual-number reference
TOL_NUMGRAD = 1e-6  # rules that differentiate numerically themselves (cal_err / apply without grad)
TOL_FD = 1e-5  # anything compared with a finite-difference reference (DESIGN 4)


def _cfg(ctx, name, quick, invariants, post=True):
    p = os.path.join(ctx.work, "errprop_%s.cfg" % name)
    a = "Q" if quick else "T"
    with open(p, "w") as f:
        f.write(
            "CONSTANTS\n ULeaves <- ULeaves%s\n Consts <- Consts%s\n PowN <- PowN%s\n Depth = %d\n"
            " ULeaves3 <- ULeaves3T\n Consts3 <- Consts3T\n PowN3 <- PowN3T\n ValCap = 12\n AbsFix = %s\n LogFix = %s\n"
            "INIT Init\nNEXT Next\n" % (a, a, a, 2 if quick else 3, "TRUE" if SPEC_ABS_FIX else "FALSE", "TRUE" if SPEC_LOG_FIX else "FALSE")
        )
        for inv in invariants:
            f.write("INVARIANT %s\n" % inv)
        if post:
            f.write("POSTCONDITION Post\n")
        f.write("CHECK_DEADLOCK FALSE\n")
    return p


def _fr(p):
    return Fraction(int(p[0]), int(p[1]))


def _close(a, b, rel, abs_=1e-300):
    if not (math.isfinite(a) and math.isfinite(b)):
        return False
    return abs(a - b) <= rel * max(abs(a), abs(b)) + abs_


@contextlib.contextmanager
def _quiet():
    buf = io.StringIO()
    with contextlib.redirect_stdout(buf), warnings.catch_warnings(), np.errstate(all="ignore"):
        warnings.simplefilter("ignore")
        yield buf


class Margins(object):
    """largest observed relative deviation per comparison class (evidence)"""

    def __init__(self):
        self.m = {}

    def add(self, name, got, ref, scale=None):
        s = scale if scale is not None else max(abs(ref), 1e-300)
        d = abs(got - ref) / s if math.isfinite(got) else float("inf")
        self.m[name] = max(d, self.m.get(name, 0.0))
        return d


# ---------------------------------------------------------------------------
# NumberError on one tree
def _eval_ne(t, B):
    """-> (value, error) floats or raises"""
    with np.errstate(all="ignore"), warnings.catch_warnings():
        warnings.simplefilter("ignore")
        r = E.walk(t, B)
    return float(r.value), float(r.error)


def _scale(t):
    """natural size of an uncertainty of the tree: absolute floor of the comparisons where
    the first-order uncertainty vanishes (zero derivative) -- tol * this scale"""
    return max(float(E.frac(p, 2)) for p in E.leaf_list(t))


def _judge(val, err, rv, rs, tol, scale=1.0):
    """-> None if the node satisfies the property, else the kind of failure"""
    floor = tol * scale * max(1.0, abs(rv))
    if not _close(val, rv, max(tol, 1e-12), 1e-13):
        return "value"
    if not _close(abs(err), rs, tol, floor):
        return "magnitude"
    if err < 0 and abs(err) > floor:
        return "negative_sigma"
    return None


def _node_ref(t):
    if E.is_transcendental(t):
        v, s, _ = E.float_ref(t)
        return v, s
    v, r, _ = E.exact_ref(t)
    return float(v), math.sqrt(float(r))


def _node_tol(t, fd):
    if t[0] == "sqrtfd" or (fd and t[0] in ("apply", "cal1", "cal2", "cal2c", "cal2l")):
        return TOL_NUMGRAD
    if E.is_transcendental(t):
        return TOL_TRANS
    return TOL_EXACT


def _locate(t, mkB, fd=False):
    """smallest failing subtree in post-order -> (subtree, kind, got, ref) or None"""
    for s in E.subtrees(t):
        try:
            rv, rs = _node_ref(s)
        except Exception:
            continue
        try:
            val, err = _eval_ne(s, mkB())
        except Exception as e:  # noqa: BLE001
            return s, "raise", repr(e), (rv, rs)
        tol = max(_node_tol(x, fd) for x in E.subtrees(s))
        k = _judge(val, err, rv, rs, tol, _scale(s))
        if k:
            return s, k, (val, err), (rv, rs)
    return None


def _report(ctx, t, mkB, variant="", fd=False):
    loc = _locate(t, mkB, fd)
    if loc is None:
        # the whole tree fails but no single node does: accumulated rounding? report the tree itself
        ctx.violation("tree:unlocalised:%s" % E.py_expr(t)[:80], {"tree": t, "expr": E.py_expr(t)})
        return "unlocalised"
    s, kind, got, ref = loc
    if s[0] not in ("apply", "cal1", "cal2", "cal2c", "cal2l"):
        variant = ""  # the variant only changes how cal_err / apply obtain their gradient
    key = "%s:%s%s" % (E.node_class(s), kind, variant)
    ctx.violation(
        key,
        {
            "minimal_failing_expression": E.py_expr(s),
            "got(value,error)": got,
            "expected(value,sigma)": ref,
            "found_in_tree": E.py_expr(t),
            "tree": s,
        },
    )
    return key


# ---------------------------------------------------------------------------
def _tlc_part(ctx, quick):
    # TLC's -coverage costs more than the whole search here (x3): thorough tier only
    invs = MAIN_INVARIANTS + (["NonNegative"] if SPEC_ABS_FIX else []) + (["TransLaw"] if SPEC_ABS_FIX and SPEC_LOG_FIX else [])
    r = tlc.run("ErrProp", _cfg(ctx, "main", quick, invs), work=ctx.work, workers=16, timeout=2400, coverage=not quick)
    if r.violation:
        tr = r.trace[-1][-1].get("tree") if r.trace else None
        raise tlc.MachineryError(
            "ErrProp: theorem %s fails on the specification itself at %s" % (r.violation, E.py_expr(E.to_list(tr)) if tr else "?")
        )
    out = r.out
    if out is None:
        raise tlc.MachineryError("ErrProp wrote no table")
    cnt = dict(out["counts"])
    total = sum(cnt[k] for k in ("rat", "rat3", "cal", "unsup", "trans", "trans2", "bound"))
    if total != r.distinct:
        raise tlc.MachineryError("declarative families (%d trees) != states reached by Next (%d)" % (total, r.distinct))
    # distinct states per generating operator, from the table (equal to the reachable set by the line above)
    by_tag = {}
    for fam in ("rat", "rat3"):
        for piece in out[fam]:
            for row in piece:
                by_tag[row[0][0]] = by_tag.get(row[0][0], 0) + 1
    for row in out["cal"] + out["trans"]:
        by_tag[row[0][0]] = by_tag.get(row[0][0], 0) + 1
    for t in out["unsup"]:
        by_tag[t[0]] = by_tag.get(t[0], 0) + 1
    for t in out["trans2"]:
        by_tag["over:" + t[0]] = by_tag.get("over:" + t[0], 0) + 1
    binops = sum(by_tag.get(k, 0) for k in ("add", "sub", "mul", "div"))
    table_counts = {
        "Neg": by_tag.get("neg", 0), "PowCs": by_tag.get("powc", 0), "OpConsts": sum(by_tag.get(k, 0) for k in ("addc", "subc", "mulc", "divc")),
        "OpRights": binops, "OpLefts": binops, "Cal1": by_tag.get("cal1", 0), "Cal2s": by_tag.get("cal2", 0), "Cal2cs": by_tag.get("cal2c", 0),
        "Cal2ls": by_tag.get("cal2l", 0), "Applys": by_tag.get("apply", 0), "Reflecteds": sum(by_tag.get(k, 0) for k in E.REFL),
        "Exp": by_tag.get("exp", 0), "Log": by_tag.get("log", 0), "SqrtFD": by_tag.get("sqrtfd", 0), "Sin": by_tag.get("sin", 0),
        "PowHs": by_tag.get("powh", 0), "PowUs": by_tag.get("powu", 0), "RevPows": by_tag.get("rpow", 0), "TNeg": by_tag.get("over:neg", 0),
        "TSquare": by_tag.get("over:powc", 0), "TExpLog": by_tag.get("over:exp", 0), "TLogExp": by_tag.get("over:log", 0),
        "TOpConsts": sum(by_tag.get("over:" + k, 0) for k in ("addc", "subc", "mulc", "divc")),
        "TOpRights": sum(by_tag.get("over:" + k, 0) for k in ("add", "sub", "mul", "div")),
        "TOpLefts": sum(by_tag.get("over:" + k, 0) for k in ("add", "sub", "mul", "div")),
    }
    if not r.coverage or set(r.coverage) <= {"Init"}:
        r.coverage = dict(table_counts)  # quick tier: states per operator from the table instead of -coverage
        cnt["action_counts_from"] = "table"
    else:
        cnt["action_counts_from"] = "tlc -coverage"
    ctx.tlc(r, "ErrProp depth<=%d" % (2 if quick else 3), vacuity_actions=ACTIONS)
    # non-vacuity of the characterisation invariants: their antecedents occur
    neg_sigma = sum(1 for fam in ("rat", "rat3") for piece in out[fam] for row in piece if row[2] < 0 and row[3][0] > 0)
    law_fail = sum(1 for row in out["trans"] if row[1] and not row[3])
    mag_fail = sum(1 for row in out["trans"] if row[1] and not row[2])
    cnt.update(rule_negative_sigma=neg_sigma, symbolic_law_fails=law_fail, symbolic_magnitude_fails=mag_fail)
    ctx.part("tlc", **cnt)
    return out


def _probes(ctx, quick, NumberError, cal_err):
    """the two invariants that are expected to fail on the rules as transcribed:
    a TLC counterexample is a design-level finding; reproduce it on the real code"""
    res = {}
    todo = ([] if SPEC_ABS_FIX else ["NonNegative"]) + ([] if SPEC_ABS_FIX and SPEC_LOG_FIX else ["TransLaw"])
    for inv in todo:
        r = tlc.run(
            "ErrProp", _cfg(ctx, "probe_" + inv, quick, [inv], post=False), work=ctx.work, workers=4, timeout=1200,
            expect_violation=True, coverage=False,
        )
        if not r.violation:
            res[inv] = {"tlc": "holds on the specification"}
            continue
        if not r.trace:
            raise tlc.MachineryError("probe %s: violated but no trace parsed" % inv)
        t = E.to_list(r.trace[-1][-1]["tree"])
        hist = [x[0] for x in r.trace]
        mk = lambda: E.NEBackend(NumberError, cal_err)  # noqa: E731
        loc = _locate(t, mk)
        res[inv] = {"tlc_counterexample": E.py_expr(t), "actions": hist, "reproduced_on_code": loc is not None}
        ctx.log("probe %s: TLC counterexample %s -> %s" % (inv, E.py_expr(t), "reproduced on NumberError" if loc else "NOT reproduced (model drift)"))
        if loc is not None:
            _report(ctx, t, mk)
            ctx.sample({"probe": inv, "tlc_counterexample": E.py_expr(t), "code(value,error)": loc[2], "first_order(value,sigma)": loc[3]})
        else:
            ctx.notes.append("model_drift: spec rule violates %s at %s but the code does not" % (inv, E.py_expr(t)))
    ctx.part("probes", **{k: json.dumps(v, default=str) for k, v in res.items()})
    return res


def _exact_part(ctx, out, NumberError, cal_err, mg):
    """rational trees + cal_err/apply trees: exact Ref from TLC"""
    rows = []
    for piece in out["rat"]:
        rows += [("rat", x) for x in piece]
    for piece in out["rat3"]:
        rows += [("rat3", x) for x in piece]
    rows += [("cal", x) for x in out["cal"]]
    n_fail = 0
    n_drift = 0
    n_neg_pred = 0
    fails_by_key = {}
    mkB = lambda: E.NEBackend(NumberError, cal_err)  # noqa: E731
    for fam, (t, rv, rsgn, rq, rref, rgrad) in rows:
        # the harness' own exact oracle must agree with TLC's, entry by entry
        v, ref, g = E.exact_ref(t)
        if v != _fr(rv) or ref != _fr(rref) or [Fraction(x) for x in g] != [_fr(x) for x in rgrad]:
            raise tlc.MachineryError("oracles disagree on %s: TLC %s %s, harness %s %s" % (E.py_expr(t), rv, rref, v, ref))
        rs = math.sqrt(float(ref))
        rule_neg = rsgn < 0 and rq[0] > 0
        n_neg_pred += rule_neg
        variants = [("", mkB, False)]
        if fam == "cal":
            variants.append((":numeric_grad", lambda: E.NEBackend(NumberError, cal_err, fd=True), True))
        elif zlib.crc32(json.dumps(t).encode()) % 4 == 0:
            variants.append((":int_constants", lambda: E.NEBackend(NumberError, cal_err, int_consts=True), False))
        for vname, mk, fd in variants:
            tol = TOL_NUMGRAD if fd else TOL_EXACT
            try:
                val, err = _eval_ne(t, mk())
            except Exception as e:  # noqa: BLE001
                _report(ctx, t, mk, variant=vname if fd else "", fd=fd)
                n_fail += 1
                continue
            ctx.count(1, distinct_key=(fam, json.dumps(t)), nontrivial=t[0] != "U")
            mg.add("exact_value" + vname, val, float(v), max(abs(float(v)), 1.0))
            if not vname and E.depth(t) >= 2 and E.n_leaves(t) >= 3 and zlib.crc32(json.dumps(t).encode()) % 5000 == 0:
                ctx.sample({"tree": E.py_expr(t), "tlc(value, Ref)": ["%d/%d" % tuple(rv), "%d/%d" % tuple(rref)],
                            "NumberError(value, error)": [val, err], "sqrt(Ref)": rs}, limit=5)
            if math.isfinite(err):
                mg.add("exact_sigma" + vname, abs(err), rs, max(rs, _scale(t) * max(1.0, abs(float(v)))))
            k = _judge(val, err, float(v), rs, tol, _scale(t))
            if k:
                key = _report(ctx, t, mk, variant=vname if fd else "", fd=fd)
                fails_by_key[key] = fails_by_key.get(key, 0) + 1
                n_fail += 1
            # conformance of the transcription (not a verdict): sign and magnitude predicted by Rule
            if not vname:
                pred_err = (-1 if rule_neg else 1) * math.sqrt(float(_fr(rq)))
                if not _close(err, pred_err, 1e-9, 1e-12):
                    n_drift += 1
    ctx.part("number_error_exact", trees=len(rows), failing_evaluations=n_fail, rule_predicts_negative_sigma=n_neg_pred,
             transcription_drift=n_drift, failures_by_key=json.dumps(fails_by_key, sort_keys=True))
    if n_drift:
        ctx.notes.append("model_drift: %d trees where NumberError differs from Rule of spec/ErrProp.tla (spec no longer transcribes the code)" % n_drift)
    return rows


def _unsup_part(ctx, out, NumberError, cal_err):
    n_te = 0
    n_ok = 0
    for t in out["unsup"]:
        try:
            val, err = _eval_ne(t, E.NEBackend(NumberError, cal_err))
        except TypeError:
            n_te += 1
            continue
        # someone implemented the reflected operator: hold it to the property
        v, ref, _ = E.exact_ref(t)
        k = _judge(val, err, float(v), math.sqrt(float(ref)), TOL_EXACT, _scale(t))
        if k:
            ctx.violation("%s:%s" % (E.node_class(t), k), {"expr": E.py_expr(t), "got": (val, err), "expected": (float(v), math.sqrt(float(ref)))})
        else:
            n_ok += 1
        ctx.count(1, distinct_key=("unsup", json.dumps(t)))
    ctx.part("reflected_operators", trees=len(out["unsup"]), type_error=n_te, supported_and_correct=n_ok)
    if n_te:
        ctx.assume("number (op) NumberError for + - * / raises TypeError (no __radd__/__rsub__/__rmul__/__rtruediv__): no uncertainty is reported, "
                   "so the property is neither satisfied nor violated there (%d TLC-enumerated cases)" % n_te)


def _trans_part(ctx, out, NumberError, cal_err, mg):
    rows = [(t, is1, magok, lawok) for t, is1, magok, lawok in out["trans"]] + [(t, False, True, True) for t in out["trans2"]]
    n_fail = 0
    n_disc = 0
    n_drift = 0
    n_pred_fail = 0
    fails_by_key = {}
    mkB = lambda: E.NEBackend(NumberError, cal_err)  # noqa: E731
    for t, is1, magok, lawok in rows:
        try:
            rv, rs, g = E.float_ref(t)
            fs, fg, dis = E.fd_ref(t)
        except Exception as e:  # noqa: BLE001
            raise tlc.MachineryError("reference not computable for %s: %r" % (E.py_expr(t), e))
        # the two references must agree, else the point is ill-conditioned for finite differences
        gs = max(max(abs(x) for x in g), 1e-12)
        if dis > 1e-6 * gs or not _close(fs, rs, TOL_FD, 1e-9):
            if not _close(fs, rs, 1e-3, 1e-6):
                raise tlc.MachineryError("dual-number and finite-difference references disagree on %s: %r vs %r" % (E.py_expr(t), rs, fs))
            n_disc += 1
        else:
            mg.add("trans_dual_vs_fd", fs, rs, max(rs, 1e-9))
        tol = max(_node_tol(x, False) for x in E.subtrees(t))
        try:
            val, err = _eval_ne(t, mkB())
            k = _judge(val, err, rv, rs, tol, _scale(t))
        except Exception:  # noqa: BLE001
            val = err = float("nan")
            k = "raise"
        ctx.count(1, distinct_key=("trans", json.dumps(t)))
        if is1:
            n_pred_fail += not lawok
            if (k is None) != bool(lawok):
                n_drift += 1
        if k:
            key = _report(ctx, t, mkB)
            fails_by_key[key] = fails_by_key.get(key, 0) + 1
            n_fail += 1
        elif math.isfinite(err):
            mg.add("trans_sigma" + (":numeric_grad" if tol == TOL_NUMGRAD else ""), abs(err), rs, max(rs, _scale(t) * max(1.0, abs(rv))))
    ctx.part("number_error_transcendental", trees=len(rows), failing=n_fail, fd_ill_conditioned=n_disc,
             tlc_symbolic_law_predicts_failure=n_pred_fail, prediction_vs_code_mismatch=n_drift,
             failures_by_key=json.dumps(fails_by_key, sort_keys=True))
    if n_disc > 0.05 * len(rows):
        raise tlc.MachineryError("too many ill-conditioned finite-difference points (%d of %d)" % (n_disc, len(rows)))
    if n_drift:
        ctx.notes.append("model_drift: %d transcendental trees where the verdict on the code differs from the symbolic law of the spec" % n_drift)
    return rows


# ---------------------------------------------------------------------------
class TFBackend(object):
    def __init__(self, tf, tensors):
        self.tf = tf
        self.x = tensors
        self.i = 0

    def leaf(self, P):
        v = self.x[self.i]
        self.i += 1
        return v

    def const(self, P):
        return float(_fr(P))

    def apply_pow(self, a, n):
        return a**n

    def cal(self, which, args):
        return E.f1(*args) if which == 1 else E.g2(*args)

    def exp(self, a):
        return self.tf.exp(a)

    def log(self, a):
        return self.tf.math.log(a)

    def powreal(self, a, e):
        return a**e

    def sqrt(self, a):
        return self.tf.sqrt(a)

    def sin(self, a):
        return self.tf.sin(a)


def _cov(rng, n):
    """random covariance matrix with correlations"""
    a = rng.normal(size=(n, n))
    m = a @ a.T + 0.2 * np.eye(n)
    s = rng.uniform(0.05, 0.7, size=n) / np.sqrt(np.diag(m))
    return m * s[:, None] * s[None, :]


def _params_trans_part(ctx, exact_rows, trans_rows, rng, mg, quick):
    """VarsManager.error_trans / ParamsTrans.get_error on TLC trees: sqrt(J V J^T) with J exact (TLC)"""
    import tensorflow as tf

    from tf_pwa.variable import VarsManager

    nmax = 4
    pool = [(t, [float(_fr(x)) for x in g]) for fam, (t, _, _, _, _, g) in exact_rows if fam != "cal" and 1 <= len(g) <= nmax and t[0] != "U"]
    tpool = [t for t, _, _, _ in trans_rows if E.n_leaves(t) <= nmax and "sqrtfd" not in json.dumps(t)]
    rs = random.Random(ctx.seed + 9)
    n_rat = 200 if quick else 4000
    n_tr = 100 if quick else 2000
    sel = rs.sample(pool, min(n_rat, len(pool)))
    tsel = rs.sample(tpool, min(n_tr, len(tpool)))
    vm = VarsManager(dtype=tf.float64)
    names = ["p%d" % i for i in range(nmax)]
    for n in names:
        vm.add_real_var(n, 1.0)
    n_fail = 0
    n_eval = 0

    def run_one(t, gref, tol, cls):
        nonlocal n_fail, n_eval
        ls = E.leaf_list(t)
        k = len(ls)
        # leaves are mapped to the first k variables; unused variables stay connected with zero gradient
        for n, p in zip(names, ls):
            vm.set(n, float(_fr(p)))
        V = _cov(rng, nmax)
        with _quiet():
            with vm.error_trans(V) as pt:
                y = E.walk(t, TFBackend(tf, [pt[n] for n in names[:k]]))
            err = float(pt.get_error(y))
        gv = np.zeros(nmax)
        gv[:k] = gref
        ref = math.sqrt(max(gv @ V @ gv, 0.0))
        n_eval += 1
        ctx.count(1, distinct_key=("pt", json.dumps(t)))
        if ref < 1e-9 * max(np.abs(gv).max(), 1.0):
            return  # J V J^T cancels to rounding: sqrt ill-conditioned
        mg.add("params_trans:" + cls, err, ref, max(ref, 1e-12))
        if not _close(err, ref, tol, 1e-12):
            n_fail += 1
            ctx.violation("params_trans:get_error:%s" % cls, {"expr": E.py_expr(t), "got": err, "expected": ref, "V": V.tolist(), "J": gv.tolist()})

    for t, g in sel:
        run_one(t, g, 1e-9, "rational_tree")
    for t in tsel:
        _, _, g = E.float_ref(t)
        fs, fg, dis = E.fd_ref(t)
        if dis > 1e-6 * max(np.abs(fg).max(), 1e-12) or not np.allclose(fg, g, rtol=1e-5, atol=1e-8):
            continue
        run_one(t, np.array(g), 1e-9, "transcendental_tree")
    # vector / list / dict / matrix forms on a few tuples of trees
    n_multi = 0
    for j in range(3 if quick else 40):
        ts = rs.sample(sel, 3)
        V = _cov(rng, nmax)
        vals = [rs.choice([-2.0, -1.5, 0.5, 3.0, 1.25]) for _ in names]
        for n, v in zip(names, vals):
            vm.set(n, v)
        grads = []
        ok = True
        for t, _ in ts:
            # evaluate the tree at the common point (leaf values of the tree are replaced by the variables' values)
            k = E.n_leaves(t)
            try:
                d = E.walk(t, _PointDual(vals[:k], nmax))
            except ZeroDivisionError:
                ok = False
                break
            if not all(math.isfinite(x) for x in d.g) or max(abs(x) for x in d.g) > 1e6:
                ok = False
                break
            grads.append(np.array(d.g, dtype=float))
        if not ok:
            continue
        J = np.stack(grads)
        ref_m = J @ V @ J.T
        ref_e = np.sqrt(np.clip(np.diag(ref_m), 0, None))
        with _quiet():
            with vm.error_trans(V) as pt:
                ys = [E.walk(t, TFBackend(tf, [pt[n] for n in names[: E.n_leaves(t)]])) for t, _ in ts]
                yv = tf.stack(ys)
            e_list = [float(x) for x in pt.get_error(ys, keep=True)]
            e_dict = pt.get_error({"a": ys[0], "b": [ys[1], ys[2]]}, keep=True)
            e_vec = np.array(pt.get_error(yv, keep=True))
            m_list = np.array(pt.get_error_matrix(ys, keep=True))
            m_vec = np.array(pt.get_error_matrix(yv, keep=True))
        n_multi += 1
        n_eval += 5
        sc = max(ref_e.max(), 1e-12)
        if ref_e.min() < 1e-7 * sc:
            continue
        got = {
            "list": np.array(e_list), "dict": np.array([float(e_dict["a"]), float(e_dict["b"][0]), float(e_dict["b"][1])]),
            "vector": e_vec,
        }
        for nm, gvals in got.items():
            mg.add("params_trans:" + nm, float(np.abs(gvals - ref_e).max()) + sc, sc, sc)
            if not np.allclose(gvals, ref_e, rtol=1e-9, atol=1e-12 * sc):
                ctx.violation("params_trans:get_error:%s_form" % nm, {"exprs": [E.py_expr(t) for t, _ in ts], "at": vals, "got": gvals.tolist(), "expected": ref_e.tolist()})
                n_fail += 1
        for nm, m in (("list_of_scalars", m_list), ("vector_tensor", m_vec)):
            if not np.allclose(m, ref_m, rtol=1e-9, atol=1e-10 * np.abs(ref_m).max()):
                ctx.violation("params_trans:get_error_matrix:%s" % nm, {"exprs": [E.py_expr(t) for t, _ in ts], "at": vals, "got": m.tolist(), "expected": ref_m.tolist()})
                n_fail += 1
    ctx.part("params_trans", rational_trees=len(sel), transcendental_trees=len(tsel), multi_output_cases=n_multi, evaluations=n_eval, failing=n_fail)


class _PointDual(E.DualBackend):
    """float dual numbers with the leaves' values taken from a point"""

    def __init__(self, point, n):
        E.DualBackend.__init__(self, n, False)
        self.point = point

    def leaf(self, P):
        g = [0.0] * self.n
        g[self.i] = 1.0
        v = float(self.point[self.i])
        self.i += 1
        return E.Dual(v, g)


def _bound_part(ctx, out, rng, mg, quick):
    """V_y = y' V_x y' on every TLC-enumerated bound configuration"""
    import tensorflow as tf

    from tf_pwa.variable import VarsManager

    kinds = {"none": None, "both": (-1.5, 2.5), "lower": (0.5, None), "upper": (None, 1.0)}
    n_fail = 0
    n_eval = 0
    reps = 1 if quick else 10
    for cfg in out["bound"]:
        vm = VarsManager(dtype=tf.float64)
        names = ["b%d" % i for i in range(len(cfg))]
        for n in names:
            vm.add_real_var(n, 0.7)
        bd = {n: kinds[k] for n, k in zip(names, cfg) if kinds[k] is not None}
        with _quiet():
            vm.set_bound(bd)
        for rep in range(reps):
            x = rng.uniform(-2.0, 2.0, size=len(cfg))
            x = np.where(np.abs(x) < 0.2, 0.6, x)
            Vx = _cov(rng, len(cfg))
            with _quiet():
                Vy = np.array(vm.trans_error_matrix(Vx, x))
            d_fd = np.ones(len(cfg))
            d_cf = np.ones(len(cfg))
            for i, (n, k) in enumerate(zip(names, cfg)):
                if k == "none":
                    continue
                b = vm.bnd_dic[n]
                g, dis = E.richardson_grad(lambda z: b.get_x2y(float(z[0])), [x[i]])
                d_fd[i] = g[0]
                lo, hi = kinds[k]
                if k == "both":
                    d_cf[i] = (hi - lo) * math.cos(x[i]) / 2
                elif k == "lower":
                    d_cf[i] = x[i] / math.sqrt(x[i] ** 2 + 1)
                else:
                    d_cf[i] = -x[i] / math.sqrt(x[i] ** 2 + 1)
            if not np.allclose(d_fd, d_cf, rtol=1e-6, atol=1e-8):
                raise tlc.MachineryError("finite-difference and closed-form dy/dx disagree for %s at %s" % (cfg, x))
            ref = d_cf[:, None] * Vx * d_cf[None, :]
            ref_fd = d_fd[:, None] * Vx * d_fd[None, :]
            n_eval += 1
            ctx.count(1, distinct_key=("bound", tuple(cfg)), nontrivial=any(k != "none" for k in cfg))
            sc = np.abs(ref).max()
            mg.add("trans_error_matrix", float(np.abs(Vy - ref).max()) + sc, sc, sc)
            if not (np.allclose(Vy, ref, rtol=1e-9, atol=1e-12 * sc) and np.allclose(Vy, ref_fd, rtol=TOL_FD, atol=1e-7 * sc)):
                n_fail += 1
                ctx.violation("trans_error_matrix:%s" % "-".join(cfg), {"x": x.tolist(), "Vx": Vx.tolist(), "got": Vy.tolist(), "expected": ref.tolist()})
    ctx.part("trans_error_matrix", configurations=len(out["bound"]), evaluations=n_eval, failing=n_fail)


def _vm_minimize_part(ctx, out, rng, mg, quick):
    """VarsManager.minimize / minimize_error (the generic fit helper next to trans_error_matrix):
    the uncertainties they report for a quadratic function with known Hessian A in the physical
    parameters y must be sqrt(diag(A^-1)) whatever bounds are installed.
    * minimize_error(fcn, result): differentiates fcn itself.
    * minimize(fcn, method=callable): the minimiser is a stand-in that returns the exact minimum and the
      exact inverse Hessian in the fit variables x, so that only the mapping to y is observed."""
    import tensorflow as tf
    from scipy.optimize import OptimizeResult

    from tf_pwa.variable import VarsManager

    kinds = {"none": None, "both": (-1.5, 2.5), "lower": (0.5, None), "upper": (None, 1.0)}
    centre = {"none": 0.3, "both": 1.2, "lower": 1.4, "upper": -0.6}
    n_eval = 0
    fails = {}
    cfgs = [c for c in out["bound"] if not quick or c[0] == "none"]
    for cfg in cfgs:
        nvar = len(cfg)
        vm = VarsManager(dtype=tf.float64)
        names = ["b%d" % i for i in range(nvar)]
        c0 = np.array([centre[k] for k in cfg]) + rng.uniform(-0.05, 0.05, size=nvar)
        for n, v in zip(names, c0):
            vm.add_real_var(n, float(v))
        a = rng.normal(size=(nvar, nvar))
        A = a @ a.T + 0.5 * np.eye(nvar)
        At = tf.constant(A)
        ct = tf.constant(c0)

        def fcn():
            y = tf.stack([vm.variables[n] for n in names]) - ct
            return 0.5 * tf.reduce_sum(y * tf.linalg.matvec(At, y))

        bd = {n: kinds[k] for n, k in zip(names, cfg) if kinds[k] is not None}
        with _quiet():
            vm.set_bound(bd)
        ref = np.sqrt(np.diag(np.linalg.inv(A)))
        # (i) minimize_error at the exact minimum
        res = OptimizeResult(x=c0.copy(), fun=0.0, success=True)
        with _quiet():
            got = np.array(vm.minimize_error(fcn, res))
        n_eval += 1
        ctx.count(1, distinct_key=("vm.minimize_error", tuple(cfg)), nontrivial=bool(bd))
        for i, k in enumerate(cfg):
            if not _close(float(got[i]), float(ref[i]), 1e-8):
                key = "vm.minimize_error:%s" % ("unbounded" if k == "none" else k + "_bound")
                fails[key] = fails.get(key, 0) + 1
                ctx.violation(key, {"bounds": {n: list(v) for n, v in bd.items()}, "minimum": c0.tolist(), "hessian": A.tolist(),
                                    "parameter": names[i], "got": float(got[i]), "expected sqrt(diag(H^-1))": float(ref[i])})
            else:
                mg.add("vm.minimize_error", float(got[i]), float(ref[i]))
        # (ii) minimize with an exact stand-in minimiser
        for n, v in zip(names, c0):
            vm.set(n, float(v), val_in_fit=False)
        x_min = np.array(vm.get_all_val(True), dtype=float)
        d = np.ones(nvar)
        for i, (n, k) in enumerate(zip(names, cfg)):
            if k != "none":
                b = vm.bnd_dic[n]
                g, _ = E.richardson_grad(lambda z: b.get_x2y(float(z[0])), [x_min[i]])
                d[i] = g[0]
        Vx = np.linalg.inv(d[:, None] * A * d[None, :])

        def exact_minimiser(f, x0, **kw):
            val, grad = f(x_min)
            if np.abs(grad).max() > 1e-9:
                raise tlc.MachineryError("stand-in minimiser: gradient %s at the minimum" % grad)
            return OptimizeResult(x=x_min.copy(), fun=val, jac=grad, hess_inv=Vx.copy(), success=True)

        with _quiet():
            ret = vm.minimize(fcn, method=exact_minimiser)
        got = np.sqrt(np.abs(np.diag(np.array(ret.hess_inv))))
        n_eval += 1
        ctx.count(1, distinct_key=("vm.minimize", tuple(cfg)), nontrivial=bool(bd))
        if not np.allclose(np.array(ret.x, dtype=float), c0, rtol=1e-9, atol=1e-9):
            ctx.violation("vm.minimize:x:%s" % "-".join(cfg), {"got": list(map(float, ret.x)), "expected": c0.tolist()})
        for i, k in enumerate(cfg):
            if not _close(float(got[i]), float(ref[i]), 1e-6):
                key = "vm.minimize:hess_inv:%s" % ("unbounded" if k == "none" else k + "_bound")
                fails[key] = fails.get(key, 0) + 1
                ctx.violation(key, {"bounds": {n: list(v) for n, v in bd.items()}, "minimum": c0.tolist(), "x_min": x_min.tolist(),
                                    "parameter": names[i], "got": float(got[i]), "expected sqrt(diag(H^-1))": float(ref[i])})
            else:
                mg.add("vm.minimize:hess_inv", float(got[i]), float(ref[i]))
    ctx.part("vm_minimize", configurations=len(cfgs), evaluations=n_eval, failures_by_key=json.dumps(fails, sort_keys=True))


# ---------------------------------------------------------------------------
def run(ctx):
    quick = ctx.tier == "quick"
    rng = np.random.RandomState(ctx.seed % (2**32))
    from .. import prelude

    prelude.import_tf_quiet()
    from tf_pwa.err_num import NumberError, cal_err

    mg = Margins()
    out = _tlc_part(ctx, quick)
    _probes(ctx, quick, NumberError, cal_err)
    t0 = time.time()
    exact_rows = _exact_part(ctx, out, NumberError, cal_err, mg)
    ctx.log("exact trees done in %.1fs" % (time.time() - t0))
    _unsup_part(ctx, out, NumberError, cal_err)
    t0 = time.time()
    trans_rows = _trans_part(ctx, out, NumberError, cal_err, mg)
    ctx.log("transcendental trees done in %.1fs" % (time.time() - t0))
    t0 = time.time()
    _params_trans_part(ctx, exact_rows, trans_rows, rng, mg, quick)
    _bound_part(ctx, out, rng, mg, quick)
    _vm_minimize_part(ctx, out, rng, mg, quick)
    ctx.log("params_trans / trans_error_matrix done in %.1fs" % (time.time() - t0))
    from ..model_c09 import model_part

    model_part(ctx, rng, mg, quick, exact_rows)
    ctx.part("margins", **{k: float("%.3g" % v) for k, v in sorted(mg.m.items())})
    ctx.cov["exhaustive"] = False
    ctx.cov["traces_validated_against_impl"] = len(exact_rows) + len(trans_rows)
    ctx.cov["rule"] = (
        "TLC reaches every expression tree of depth <= 2 over the quick/thorough alphabets (thorough: plus depth-3 trees "
        "over a smaller alphabet) by applying one NumberError operator per step, and the cal_err/apply, reflected, "
        "transcendental families; every emitted tree is evaluated with the real NumberError/cal_err and compared with "
        "sqrt(Ref) from TLC (rational, exact) or a dual-number reference cross-checked by Richardson finite differences "
        "(transcendental). Sampled trees x random covariance matrices through VarsManager.error_trans; all 64 bound "
        "configurations through trans_error_matrix; fitted spin-0 three-body models for get_params_error / "
        "cal_hesse_error / fit fractions vs finite differences. distinct_nontrivial = distinct (family, tree) or "
        "(model, quantity) cases with at least one operator / one free parameter"
    )
    ctx.assume("operands of a binary NumberError operator are independent quantities (no shared uncertain leaf): NumberError carries no correlations")
    ctx.assume("ln(x)^2 = ln(y)^2 for positive rationals iff x = y or x*y = 1 (used by the symbolic root law of the spec)")
    ctx.assume("np.Inf shim of harness/prelude.py for importing tf_pwa.config_loader / applications")
    ctx.assume("continuous quantifier (fit points, covariance matrices, leaf values) is sampled; the discrete quantifier (operators, tree shapes up to the bound, bound configurations, resonance pairs) is enumerated")


def replay(ctx, path):
    run(ctx)
