"""C07 -- returned gradients and Hessians are the true derivatives of the returned NLL.

Spec: spec/Jets.tla.  TLC checks, over exact rational 2-jets, that the
hand-derived assembly formulas transcribed from the code (default / extended /
cached models, the cfit chain rule through I_sig and I_bg with its extended
terms, the bound transforms, the Gaussian-constraint terms, the sum over data
sets) produce the gradient, Hessian and Hessian-vector product of the NLL
definitions composed in jet arithmetic, for every small jet; it also
enumerates the scenario space of the numerical part with its applicability
conditions.  Four transcribed behaviours of the current code are switches of
the specification (decided here by observing the code); where TLC refutes the
formula under the observed switch the finding is then reproduced numerically.

Binding (B3): scenarios (model kind x floating set x bounds x tie x Gaussian
constraints x batch) on real FCN objects; oracle = Richardson central finite
differences of the reported NLL (gradient), of the reported gradient (Hessian,
Hessian-vector product), through vm.trans_fcn_grad / trans_f_grad_hess /
trans_grad_hessp; the value returned with gradient / Hessian equals the
stand-alone NLL; independence of the batch size.
"""
import json
import math
import os
import random

import numpy as np

from .. import tlc
from ..lik_c06 import CFIT_KINDS, IMPL_KINDS, INVARIANT_ONLY, Factory, quiet, registered_custom_models, take

LEVEL = "exploration"

JET_INV = {
    "lemma": ["LemmaMulDiv", "LemmaLnMul", "LemmaComposeMul", "LemmaComposeLn", "LemmaSym"],
    "default": ["GradFormula", "HessFormula", "HesspFormula", "CachedIntFormula", "CachedAmpFormula", "MixGradFormula"],
    "cfit": ["CfitGradFormula", "CfitHessFormula"],
    "bound": ["BoundGradFormula", "BoundHessFormula", "BoundHesspFormula"],
    "constr": ["ConstrGradFormula", "ConstrHessFormula"],
    "hesspkind": ["HesspKindFormula"],
    "sumvar": ["SumVarFormula"],
    "scenarios": [],
}
A_R = "A->R_BD.CR_BD->B.D_total_0r"
A_I = "A->R_BD.CR_BD->B.D_total_0i"
B_R = "A->R_CD.BR_CD->C.D_total_0r"
B_I = "A->R_CD.BR_CD->C.D_total_0i"
IDENT_REL, IDENT_ABS = 1e-8, 1e-12
FD_REL, FD_ABS, FD_AGREE = 1e-5, 1e-7, 1e-6
PINNED = {"hessp": "full", "tied": "include", "sumvar": "own"}
DRIFT = {
    "hessp": ("zero", "grad_hessp:gauss_constr_hessian_missing", "FCN.grad_hessp adds no Gaussian-constraint Hessian"),
    "tied": ("skip", "gauss_constr:tied_name:nll_grad", "a constraint on a tied (non-head) name is in the NLL but not in gradient / Hessian"),
    "sumvar": ("sum", "simple_cfit:nll_grad_hessian:sumvar_hessian", "SumVar.__call__ uses the Hessians of all factors for every factor"),
}


def jets_cfg(path, part, grid, v, filt="ok", inv=None):
    with open(path, "w") as f:
        f.write('CONSTANTS\n Part = "%s"\n Grid = "%s"\n HesspConstr = "%s"\n TiedConstr = "%s"\n CfitHessp = "%s"\n SumVarHess = "%s"\n CaseFilter = "%s"\nINIT Init\nNEXT Next\n'
                % (part, grid, v["hessp"], v["tied"], v["cfith"], v["sumvar"], filt))
        for i in inv if inv is not None else JET_INV[part]:
            f.write("INVARIANT %s\n" % i)
        f.write("POSTCONDITION Post\nCHECK_DEADLOCK FALSE\n")
    return path


# --------------------------------------------------------------------------
# real objects
# --------------------------------------------------------------------------
class Scn:
    """one TLC scenario as a real likelihood object (fresh ConfigLoader)"""

    def __init__(self, fac, sc, rng, with_eff):
        self.sc = sc
        kind = sc["kind"]
        self.kind = kind
        self.spec_kind, opts = IMPL_KINDS[kind] if kind in IMPL_KINDS else INVARIANT_ONLY[kind]
        self.cfit = self.spec_kind in CFIT_KINDS
        opts = dict(opts)
        if self.cfit:
            opts["bg_frac"] = 0.3
        else:
            opts["bg_weight"] = 0.4
        con = {}
        if sc["floating"] in ("mass", "mass_width"):
            con["free_var"] = ["R_BD_mass"] + (["R_BD_width"] if sc["floating"] == "mass_width" else [])
        if sc["share"] == "tie":
            con["var_equal"] = [[A_R, B_R]]  # B_R becomes the non-head name of the group
        self.constr = {}
        if sc["constr"] in ("head", "two_heads"):
            self.constr[A_I] = [0.4, 0.7]
            if sc["constr"] == "two_heads":
                self.constr[B_I] = [-0.2, 1.3]
        elif sc["constr"] == "tied":
            self.constr[B_R] = [0.6, 0.5]
        elif sc["constr"] == "head_and_tied":  # two constraints that resolve to the same variable
            self.constr[A_R] = [0.9, 0.6]
            self.constr[B_R] = [0.6, 0.5]
        if self.constr:
            con["gauss_constr"] = {k: list(v) for k, v in self.constr.items()}
        rng_ = {
            "none": {},
            "coupling_two": {A_R: [0.0, 5.0]},
            "coupling_lower": {A_R: [0.05, None]},
            "coupling_upper": {A_R: [None, 6.0]},
            "mass_two": {"R_BD_mass": [2.3, 2.6]},
            "width_lower": {"R_BD_width": [0.05, None]},
            "mixed": {A_R: [None, 6.0], "R_BD_mass": [2.3, 2.6], A_I: [-4.0, 4.0]},
        }[sc["bounds"]]
        if rng_:
            con["var_range"] = rng_
        if sc.get("resolution", 1) == 2:
            opts["resolution_size"] = 2
        self.c, self.pool, self.amp = quiet(fac.new_config, opts, con or None)
        self.vm = self.amp.vm
        # background / efficiency as functions of floating parameters of the same VarsManager (scenario dimension
        # "shape"): the model is then built directly, Model_cfit(amp, w_bkg, bg_f=..., eff_f=...)
        self.shape = sc.get("shape", "columns")
        self.direct = self.shape != "columns"
        self.bg_f = self.eff_f = None
        self.model = None
        if self.direct:
            import tensorflow as tf
            from tf_pwa.data import data_index
            from tf_pwa.variable import Variable

            if self.shape in ("bg_param", "bg_eff_param"):
                slope = Variable("bg_slope", vm=self.vm)
                slope.real_var(value=0.7)

                def bg_f(data, slope=slope):
                    m = data_index(data, ("particle", "(B, C)", "m"))
                    return tf.exp(-slope() * (m - 4.0))

                self.bg_f = bg_f
            if self.shape in ("eff_param", "bg_eff_param"):
                eslope = Variable("eff_slope", vm=self.vm)
                eslope.real_var(value=-0.5)

                def eff_f(data, eslope=eslope):
                    m = data_index(data, ("particle", "(B, D)", "m"))
                    return tf.exp(-eslope() * (m - 2.4))

                self.eff_f = eff_f
            if kind == "cfit_ext":
                quiet(self.c.free_for_extended, self.amp)
        self.bounds = dict(self.c.bound_dic)
        if set(self.bounds) != set(rng_):
            raise tlc.MachineryError("bounds of the configuration not taken over: %s" % self.bounds)
        nd, nb, nm = (7 if self.cfit else 5), (0 if self.cfit else 2), 6
        self.resolution = sc.get("resolution", 1)
        self.ragged_batch = 3
        if self.resolution == 2:
            # every event = 2 consecutive weighted samples (`resolution_size: 2`); batches are multiples of 2
            nd, nb = 2 * (5 if self.cfit else 4), (0 if self.cfit else 2 * 2)
            self.ragged_batch = 4
        npool = fac.pool_size
        dw = np.array([rng.uniform(0.5, 1.5) for _ in range(nd)])
        if self.resolution == 2:
            k = 2 * rng.randrange(nd // 2)
            dw[k : k + 2] *= -0.5  # one event with negative weight
        else:
            dw[rng.randrange(nd)] *= -0.5  # one negative data weight
        mv = np.array([rng.uniform(0.5, 1.5) for _ in range(nm)])
        ex_d, ex_m = {}, {}
        if self.cfit:
            ex_d["bg_value"] = [rng.uniform(0.5, 1.5) for _ in range(nd)]
            ex_m["bg_value"] = [rng.uniform(0.5, 1.5) for _ in range(nm)]
            if with_eff:
                ex_d["eff_value"] = [rng.uniform(0.5, 1.5) for _ in range(nd)]
                ex_m["eff_value"] = [rng.uniform(0.5, 1.5) for _ in range(nm)]
        self.with_eff = with_eff and self.cfit
        self.data = take(self.pool, rng.sample(range(npool), nd), weight=dw, **ex_d)
        self.phsp = take(self.pool, rng.sample(range(npool), nm), weight=mv, **ex_m)
        self.bg = take(self.pool, rng.sample(range(npool), nb)) if nb else None
        self.keep = fac.__dict__.setdefault("keep", [])  # never freed: tf_pwa caches by id()

    def finish_setup(self):
        """after the first get_fcn (which may free a parameter: extended models)"""
        self.names = list(self.vm.trainable_vars)
        # parameter scales for step sizes (masses and widths are small numbers with steep dependence;
        # in the fit coordinates a bounded parameter is of order one)
        self.scale = np.array([abs(float(self.vm.get(n, val_in_fit=False))) * 0.1 if (n.endswith(("_mass", "_width")) and n not in self.bounds) else 1.0 for n in self.names])

    def fcn(self, batch):
        if self.direct:
            from tf_pwa.model import FCN
            from tf_pwa.model.cfit import Model_cfit, ModelCfitExtended

            if self.model is None:
                cls = ModelCfitExtended if self.kind == "cfit_ext" else Model_cfit
                self.model = cls(self.amp, 0.3, self.bg_f, self.eff_f)
            f = quiet(FCN, self.model, self.data, self.phsp, batch=batch, gauss_constr=dict(self.c.gauss_constr_dic))
            self.keep.append((self, f))
            if not hasattr(self, "names"):
                self.finish_setup()
                want = (["bg_slope"] if self.bg_f is not None else []) + (["eff_slope"] if self.eff_f is not None else [])
                if any(w not in self.names for w in want):
                    raise tlc.MachineryError("shape parameter not floating: %s not all in %s" % (want, self.names))
            return f
        all_data = ([self.data], [self.phsp], ([self.bg] if self.bg is not None else None), None)
        f = quiet(self.c.get_fcn, all_data=all_data, batch=batch)
        self.keep.append((self, f))
        if not hasattr(self, "names"):
            self.finish_setup()
        return f

    # the documented bound maps, independent of the sympy objects of tf_pwa.variable.Bound
    def y_of_x(self, x):
        y = np.array(x, dtype=float)
        for i, n in enumerate(self.names):
            if n in self.bounds:
                a, b = self.bounds[n]
                if a is not None and b is not None:
                    y[i] = (b - a) * (math.sin(x[i]) + 1) / 2 + a
                elif a is not None:
                    y[i] = a - 1 + math.sqrt(x[i] ** 2 + 1)
                elif b is not None:
                    y[i] = b + 1 - math.sqrt(x[i] ** 2 + 1)
        return y


def richardson(F, x, d, h):
    """central differences along d with steps h and h/2 -> (extrapolated, D(h/2), |D(h)-D(h/2)|)"""
    d1 = (np.asarray(F(x + h * d), dtype=float) - np.asarray(F(x - h * d), dtype=float)) / (2 * h)
    d2 = (np.asarray(F(x + h / 2 * d), dtype=float) - np.asarray(F(x - h / 2 * d), dtype=float)) / h
    return (4 * d2 - d1) / 3, d2, np.abs(d1 - d2)


def richardson_adaptive(F, x, d, ref_scale):
    """smaller steps until the two step sizes agree to FD_AGREE (relative to the larger of the result and ref_scale);
    -> (extrapolated, well_conditioned)"""
    ext = None
    for h in (4e-4, 1e-4, 2.5e-5):
        ext, _, dis = richardson(F, x, d, h)
        if np.max(dis) <= FD_AGREE * max(float(np.max(np.abs(ext))), ref_scale, 1e-3):
            return ext, True
    return ext, False


def fd_ok(a, b, scale):
    tol = np.maximum(FD_REL * np.maximum(np.abs(a), np.abs(b)), FD_ABS * max(1.0, scale))
    return np.all(np.abs(np.asarray(a) - np.asarray(b)) <= tol)


def ident_ok(a, b, scale=1.0):
    a, b = np.asarray(a, dtype=float), np.asarray(b, dtype=float)
    return a.shape == b.shape and np.all(np.abs(a - b) <= IDENT_REL * np.maximum(np.maximum(np.abs(a), np.abs(b)), scale) + IDENT_ABS)


# --------------------------------------------------------------------------
def probe_variants(ctx, fac):
    """the four transcribed behaviours of spec/Jets.tla, decided by observing the code"""
    import tensorflow as tf
    from tf_pwa.model import FCN, Model
    from tf_pwa.model.model import GaussianConstr
    from tf_pwa.variable import SumVar

    rng = random.Random(ctx.seed + 1)
    v = {}
    base = {"floating": "couplings", "bounds": "none", "share": "tie", "batch": "single"}
    s = Scn(fac, dict(base, kind="default", constr="tied"), rng, False)
    s.finish_setup()
    x0 = np.array(s.vm.get_all_val())
    p = np.array([rng.gauss(0, 1) for _ in x0])
    model = Model(s.amp, 0.4)
    f0 = quiet(FCN, model, s.data, s.phsp, bg=s.bg, batch=65000)
    f1 = quiet(FCN, model, s.data, s.phsp, bg=s.bg, batch=65000, gauss_constr={A_I: (0.4, 0.7)})
    h0 = np.array(quiet(f0.grad_hessp, x0, p)[1], dtype=float)
    h1 = np.array(quiet(f1.grad_hessp, x0, p)[1], dtype=float)
    k = s.names.index(A_I)
    d = h1 - h0
    if np.allclose(d, 0, atol=1e-9):
        v["hessp"] = "zero"
    elif abs(d[k] - p[k] / 0.7**2) < 1e-8 and np.allclose(np.delete(d, k), 0, atol=1e-9):
        v["hessp"] = "full"
    else:
        raise tlc.MachineryError("FCN.grad_hessp treats the constraint Hessian in a way the specification does not describe: %s" % d)
    gc = GaussianConstr(s.vm, {B_R: (0.6, 0.5)})
    term = float(gc.get_constrain_term())
    g = np.array(gc.get_constrain_grad(), dtype=float)
    if B_R in s.vm.trainable_vars or term == 0:
        raise tlc.MachineryError("tie group not as expected: %s" % s.vm.same_list)
    v["tied"] = "skip" if np.allclose(g, 0) else "include"
    # cfit: whose Hessian-vector product?
    sc = Scn(fac, dict(base, kind="cfit", constr="none", share="none"), rng, False)
    xc = np.array(sc.vm.get_all_val())
    pc = np.array([rng.gauss(0, 1) for _ in xc])
    fc = sc.fcn(65000)
    fd = quiet(FCN, Model(sc.amp, 0.0), sc.data, sc.phsp, batch=65000)
    a = quiet(fc.grad_hessp, xc, pc)
    b = quiet(fd.grad_hessp, xc, pc)
    v["cfith"] = "inherited" if ident_ok(a[0], b[0]) and ident_ok(a[1], b[1]) else "own"
    # SumVar second-order reconstruction with two factors
    var = [tf.Variable(0.3, dtype="float64"), tf.Variable(-0.2, dtype="float64")]
    ha = tf.constant([[1.0, 2.0], [2.0, -1.0]], dtype="float64")
    hb = tf.constant([[0.5, 0.0], [0.0, 3.0]], dtype="float64")
    sv = SumVar([tf.constant(1.0, dtype="float64"), tf.constant(2.0, dtype="float64")], [tf.constant([1.0, 0.0], dtype="float64"), tf.constant([0.0, 1.0], dtype="float64")], var, hess=[ha, hb])
    with tf.GradientTape(persistent=True) as t0:
        with tf.GradientTape() as t1:
            y = sv()[1]
        g1 = t1.gradient(y, var, unconnected_gradients="zero")
    hh = np.array([[float(z) for z in t0.gradient(gi, var, unconnected_gradients="zero")] for gi in g1])
    if np.allclose(hh, hb.numpy()):
        v["sumvar"] = "own"
    elif np.allclose(hh, (ha + hb).numpy()):
        v["sumvar"] = "sum"
    else:
        raise tlc.MachineryError("SumVar.__call__ second order: neither reading of the specification: %s" % hh)
    return v


def run(ctx):
    from ..prelude import import_tf_quiet

    import_tf_quiet()
    quick = ctx.tier == "quick"
    rng = random.Random(ctx.seed)
    fac = Factory(ctx.seed, pool_size=96)
    # Three switches of the specification are pinned to the repaired code (fix: commits 59a054f, 3fab827, 83f38f8);
    # CfitHessp follows the observed behaviour (still a listed finding).  The working tree is observed all the
    # same: a reappearance of a repaired behaviour is a violation under its old key, never a change of the spec.
    det = probe_variants(ctx, fac)
    v = dict(det)
    v.update(PINNED)
    ctx.log("code variants (by behaviour):", det, "specification pinned to:", PINNED)
    for sw_, (bad_value, key, what) in DRIFT.items():
        if det[sw_] == bad_value:
            ctx.violation(key, {"drift": "the working tree shows the behaviour repaired earlier", "switch": sw_, "observed": bad_value, "what": what})
    ctx.part("switches", observed=det, used_by_tlc=v)
    wdir = ctx.work

    # ------------------------------------------------------------------ TLC
    grid = {"lemma": "small" if quick else "full", "default": "full", "cfit": "small" if quick else "full", "bound": "small" if quick else "full", "constr": "full"}
    for part in ("lemma", "default", "cfit", "bound", "constr"):
        inv = list(JET_INV[part])
        if part == "constr" and v["hessp"] == "full":
            inv.append("ConstrHesspFormula")
        r = tlc.run("Jets", jets_cfg(os.path.join(wdir, "jets_%s.cfg" % part), part, grid[part], v, inv=inv), work=wdir, workers=16, coverage=(part in ("lemma", "constr")), timeout=2400)
        if r.violation:
            raise tlc.MachineryError("Jets.tla part %s: formula %s is refuted (%s); either the transcription is wrong or the code has a defect the specification does not list"
                                     % (part, r.violation, r.trace[-1:] if r.trace else ""))
        ctx.tlc(r, "Jets: " + part + " (" + grid[part] + " grid)", vacuity_actions=(["Expand"] if part in ("lemma", "constr") else None))
        if r.distinct < 50:
            raise tlc.MachineryError("Jets.tla part %s: only %d states" % (part, r.distinct))
        ctx.log("TLC %s: %d states, %.0fs" % (part, r.distinct, r.wall))
    predicted = {}
    counterfactual = []
    for name, part, inv, filt, sw_, bad in (
        ("grad_hessp omits the Gaussian-constraint Hessian", "constr", "ConstrHesspFormula", "ok", "hessp", "zero"),
        ("constraint on a tied (non-head) name missing from gradient and Hessian", "constr", "ConstrGradFormula", "affected", "tied", "skip"),
        ("cfit models inherit the Hessian-vector product of the default NLL", "hesspkind", "HesspKindFormula", "ok", "cfith", "inherited"),
        ("SumVar second-order term uses the Hessians of all factors", "sumvar", "SumVarFormula", "ok", "sumvar", "sum"),
    ):
        active = v[sw_] == bad
        invs = [inv]
        if not active and part == "constr":
            invs = ["ConstrGradFormula", "ConstrHessFormula"] + (["ConstrHesspFormula"] if v["hessp"] == "full" else [])
        r = tlc.run("Jets", jets_cfg(os.path.join(wdir, "jets_x_%s.cfg" % inv), part, "full", v, filt=filt, inv=invs), work=wdir, workers=8, coverage=False, timeout=600, expect_violation=True)
        if active and r.violation != inv:
            raise tlc.MachineryError("Jets.tla: %s expected to be refuted for '%s', TLC says %s" % (inv, name, r.violation))
        if not active and r.violation:
            raise tlc.MachineryError("Jets.tla: %s refuted under the repaired switch value (%s)" % (r.violation, name))
        ctx.tlc(r, "Jets: " + ("design-level finding, " if active else "repaired, proved: ") + name)
        predicted[inv] = active
        if active:
            ctx.notes.append("TLC refutes %s under the observed code variant: %s" % (inv, name))
        else:
            # counterfactual: the old behaviour is still refuted by the specification
            vo = dict(v)
            vo[sw_] = bad
            r = tlc.run("Jets", jets_cfg(os.path.join(wdir, "jets_cf_%s.cfg" % inv), part, "full", vo, filt=filt, inv=[inv]), work=wdir, workers=8, coverage=False, timeout=600, expect_violation=True)
            if r.violation != inv:
                raise tlc.MachineryError("Jets.tla: counterfactual %s=%s is not refuted (%s)" % (sw_, bad, r.violation))
            ctx.tlc(r, "Jets: counterfactual (old behaviour refuted), " + name)
            counterfactual.append(inv)
    r = tlc.run("Jets", jets_cfg(os.path.join(wdir, "jets_scn.cfg"), "scenarios", "small", v), work=wdir, workers=4, coverage=False, timeout=600)
    scenarios = sorted(r.out["scenarios"], key=lambda s: json.dumps(s, sort_keys=True))
    custom, _ = registered_custom_models()
    missing = [k for k in custom if not any(s["kind"] == k for s in scenarios)]
    if missing:
        raise tlc.MachineryError("likelihood models registered by tf_pwa/model/custom.py but absent from the scenario space of spec/Jets.tla: %s" % missing)
    ctx.tlc(r, "Jets: scenario space")
    if len(scenarios) < 100:
        raise tlc.MachineryError("scenario space too small: %d" % len(scenarios))
    ctx.part("tlc", scenarios=len(scenarios), predicted_findings=[k for k, a in predicted.items() if a], counterfactual_refutations=counterfactual)

    # ---------------------------------------------------------------- replay
    # stratified: every kind; every bound kind, floating set, constraint kind at least once
    budget = 6 if quick else 36
    chosen = choose(scenarios, rng, budget, quick)
    npoints = 1 if quick else 2
    stats = {"scenarios": 0, "points": 0, "fd_checks": 0, "ill_conditioned": 0, "identities": 0, "max_fd_rel": 0.0}
    for i, sc in enumerate(chosen):
        check_scenario(ctx, fac, sc, rng, npoints, det, stats, quick, with_eff=(i % 3 == 0 or sc["kind"] == "cfit_cached"))
    ctx.part("replay", chosen=len(chosen), **stats)
    if stats["fd_checks"] < 3 * len(chosen):
        raise tlc.MachineryError("too few well-conditioned finite-difference points: %s" % stats)
    ctx.cov["traces_validated_against_impl"] = stats["scenarios"]
    ctx.cov["rule"] = (
        "TLC checks every assembly formula transcribed from the code against jet arithmetic on all small jets (values {1,2,3}, derivatives {-1,0,1}; "
        "sub-grid for the cfit/bound parts in the quick tier) and enumerates the scenario space (kind x floating set x bounds x tie x constraints x batch, "
        "with applicability conditions); the harness samples scenarios stratified over kinds and features, builds each as a real FCN through ConfigLoader, and "
        "compares gradient.p, Hessian.p and grad_hessp with Richardson-extrapolated central differences of the reported NLL / reported gradient along random "
        "directions in the fit coordinates (through vm.trans_*), discarding points whose two step sizes disagree by more than 1e-6 relative; plus identities "
        "(value with gradient/Hessian = stand-alone NLL, gradients of the three calls equal, ragged batches = single batch). evaluations = comparisons made; "
        "distinct non-trivial = distinct (scenario, observer) pairs with at least one well-conditioned comparison"
    )
    ctx.assume("numpy.Inf shim (harness/prelude.py) so that tf_pwa.config_loader imports")
    ctx.assume("TensorFlow's automatic differentiation of one batch is trusted by the specification; the numerical part does not rely on it")
    ctx.assume("parameter points are interior points (random, inside every range); cached models only with floating couplings")
    ctx.assume("finite differences: steps 4e-4 and 2e-4 times the parameter scale, agreement 1e-5 relative / 1e-7 absolute, ill-conditioned points discarded and counted")


SLOW = {"cached_amp": (0, 2), "cached_int": (0, 4), "cfit_cached": (1, 4)}  # tf.function tracing: 10-100 s per first call; (quick, thorough) scenarios


def choose(scenarios, rng, budget, quick):
    """stratified sample of the TLC scenario table: every feature value with several kinds, every kind"""
    # every scenario is run as a call sequence (P0, P1, P0; directions d1, d2, d1): the first visit of a sequence
    # is the "single" scenario with the same other entries
    res2 = [s for s in scenarios if s["calls"] == "sequence" and s["resolution"] == 2]
    scenarios = [s for s in scenarios if s["calls"] == "sequence" and s["resolution"] == 1]
    kinds = sorted(set(s["kind"] for s in scenarios))
    fast = [k for k in kinds if k not in SLOW]
    pools = {k: [s for s in scenarios if s["kind"] == k] for k in kinds}
    for k in kinds:
        rng.shuffle(pools[k])

    def richness(s):
        r = sum(s[a] != b for a, b in (("bounds", "none"), ("constr", "none"), ("floating", "couplings"), ("share", "none")))
        nrag = sum(c["batch"] == "ragged" for c in chosen)
        return r + (1 if (s["batch"] == "ragged") == (nrag < (4 if quick else 25)) else 0)

    need = [("bounds", b) for b in ("coupling_two", "coupling_lower", "coupling_upper", "mass_two", "width_lower", "mixed")]
    need += [("constr", c) for c in ("head", "two_heads", "tied", "head_and_tied")] + [("floating", f) for f in ("mass", "mass_width")] + [("share", "tie"), ("batch", "ragged")]
    chosen = []
    # the slow kinds: few scenarios, one batch (every further batch size is another trace)
    for k, (nq, nt) in SLOW.items():
        cand = sorted([s for s in pools.get(k, []) if s["batch"] == "single"], key=lambda s: -richness(s))
        chosen += cand[: (nq if quick else nt)]
    # always: an extended cfit model with ragged batches (the batch-size clause on the model that once raised there)
    # (quick tier: combined with a background function of a floating parameter, see below)
    cand = sorted([s for s in pools.get("cfit_ext", []) if s["batch"] == "ragged" and s["shape"] == ("bg_param" if quick else "columns") and s["floating"] == "couplings"],
                  key=lambda s: (-richness(s), json.dumps(s, sort_keys=True)))
    chosen += cand[:1]
    # always: background and efficiency functions of floating parameters (I_bg, I_sig with curvature) for cfit and
    # extended cfit; one batch, couplings floating (quick: two scenarios, thorough: every shape for both kinds, twice)
    wanted = [("cfit", "bg_eff_param")]
    if not quick:
        wanted += [("cfit_ext", "bg_param")]
        wanted += [(k, sh) for k in ("cfit", "cfit_ext") for sh in ("bg_param", "eff_param", "bg_eff_param")]
    for n_, (k, sh) in enumerate(wanted):
        cand = [s for s in pools[k] if s["shape"] == sh and s["floating"] == "couplings" and s not in chosen and (s["batch"] == "single" or n_ >= 2 or quick)]
        cand.sort(key=lambda s: (-richness(s) if n_ % 2 else richness(s), json.dumps(s, sort_keys=True)))
        chosen += cand[:1]
    # always: the registered custom models beyond simple / simple_cfit, with ragged batches (their NLL parts carry
    # terms that belong to the data set, not to the batch: value with gradient = stand-alone NLL for every batch size)
    for k in (("constr_frac",) if quick else ("constr_frac", "cfit_constr_frac", "simple_clip", "simple_chi2")):
        cand = sorted([s for s in pools.get(k, []) if s["batch"] == "ragged" and s["floating"] == "couplings" and s["bounds"] == "none"],
                      key=lambda s: (-richness(s), json.dumps(s, sort_keys=True)))
        chosen += cand[:1]
    # always: a detector-resolution model (resolution_size 2) for cfit (quick) and default, extended (thorough),
    # with batches that split the sample
    for k in (("cfit",) if quick else ("cfit", "default", "extended", "cfit")):
        cand = sorted([s for s in res2 if s["kind"] == k and s["batch"] == "ragged" and s["floating"] == "couplings" and s not in chosen],
                      key=lambda s: (-richness(s), json.dumps(s, sort_keys=True)))
        chosen += cand[:1]
    # always: two Gaussian constraints that resolve to one variable (head and tied name of a tie group)
    cand = sorted([s for s in pools.get("default", []) if s["constr"] == "head_and_tied" and s["shape"] == "columns" and s["batch"] == "single" and s["floating"] == "couplings" and s not in chosen],
                  key=lambda s: (richness(s), json.dumps(s, sort_keys=True)))
    chosen += cand[:1]
    # always: the mixed likelihood (MixLogLikehoodFCN) over the extended and over the default model, batches that
    # split the merged sample
    for k, rich in (("mix_extended", True), ("mix_default", False)) + (() if quick else (("mix_extended", False), ("mix_default", True))):
        cand = sorted([s for s in pools.get(k, []) if s["batch"] == "ragged" and s["floating"] == "couplings" and s not in chosen],
                      key=lambda s: ((-richness(s) if rich else richness(s)), json.dumps(s, sort_keys=True)))
        chosen += cand[:1]
    fast = [x for x in fast if not x.startswith("mix_")]
    if quick:
        # quick tier: `simple` (BaseCustomModel with one normalisation factor) is represented by constr_frac, which runs
        # the same code with two factors and the once-per-data-set term
        fast = [x for x in fast if x != "simple"]
    for k in pools:
        pools[k] = [s for s in pools[k] if s["shape"] == "columns" or s in chosen]
    # kinds not yet present come first in the rotation
    fast = sorted(fast, key=lambda k: any(c["kind"] == k for c in chosen))
    for k in ("constr_frac", "cfit_constr_frac", "simple_clip", "simple_chi2"):
        fast = [x for x in fast if x != k]
    ki = 0
    rep = 0
    while len(chosen) < budget and rep < 40:
        for f, val in need:
            if len(chosen) >= budget:
                break
            for t in range(len(fast)):
                k = fast[(ki + t) % len(fast)]
                cand = [s for s in pools[k] if s[f] == val and s not in chosen]
                if cand:
                    cand.sort(key=lambda s: -richness(s))
                    chosen.append(cand[0] if len(chosen) % 2 == 0 else rng.choice(cand))  # alternately feature-rich and arbitrary
                    ki += t + 1
                    break
        rep += 1
    for k in fast:  # every kind at least once (appended: forced scenarios are never displaced)
        if not any(s["kind"] == k for s in chosen):
            chosen.append(max(pools[k], key=richness))
    return chosen


def sc_tag(sc):
    return "%s|%s|%s|%s|%s|%s|%s|res%s" % (sc["kind"], sc["floating"], sc["bounds"], sc["share"], sc["constr"], sc["batch"], sc.get("shape", "columns"), sc.get("resolution", 1))


def check_scenario(ctx, fac, sc, rng, npoints, v, stats, quick, with_eff):
    from tf_pwa.model import FCN, Model

    tag = sc_tag(sc)
    try:
        s = Scn(fac, sc, rng, with_eff)
        fcn = s.fcn(65000)
        vm = s.vm
        quiet(vm.set_bound, s.bounds)
    except tlc.MachineryError:
        raise
    except Exception as e:  # noqa: BLE001
        ctx.violation("%s:build:raise" % sc["kind"], {"scenario": sc, "error": repr(e)[:300]})
        return
    stats["scenarios"] += 1
    kind = sc["kind"]
    cfit_family = kind in ("cfit", "cfit_cached", "cfit_ext", "simple_cfit", "constr_frac", "cfit_constr_frac", "simple_chi2")
    n = len(s.names)
    f_g = vm.trans_fcn_grad(fcn.nll_grad)
    f_gh = vm.trans_f_grad_hess(fcn.nll_grad_hessian)
    f_hp = vm.trans_grad_hessp(fcn.grad_hessp)
    x_start = np.array(quiet(vm.get_all_val, True), dtype=float)
    # constraint data in the order of the trainable variables
    # diagonal (in y) of the Hessian of those constraint terms whose gradient is reported
    hc = np.zeros(n)
    tied_idx = None
    for nm, (mu, sg) in s.constr.items():
        if nm in s.names:
            hc[s.names.index(nm)] += 1 / sg**2
        else:
            tied_idx = s.names.index(A_R)  # the head of the tie group carries the tied name
            if v["tied"] == "include":
                hc[tied_idx] += 1 / sg**2
    sampled = False
    hessp_done = False
    visit0 = None
    for pt in range(npoints):
        x = x_start + np.array([rng.gauss(0, 0.25) for _ in range(n)]) * s.scale
        stats["points"] += 1

        def val(xx):
            return float(quiet(fcn, s.y_of_x(xx)))

        def val_g(xx):
            return float(quiet(f_g, xx)[0])

        def grad(xx):
            return np.array(quiet(f_g, xx)[1], dtype=float)

        def report(observer, what, key_tail, detail):
            key = "%s:%s:%s" % (kind, observer, key_tail)
            detail = dict(detail, scenario=sc, what=what, point=x.tolist(), parameters=s.names, with_eff=s.with_eff)
            ctx.violation(key, detail)

        try:
            v0 = val(x)
            v1, g1 = quiet(f_g, x)
            g1 = np.array(g1, dtype=float)
        except Exception as e:  # noqa: BLE001
            report("nll_grad", "raises", "raise", {"error": repr(e)[:1500]})
            return
        if g1.shape != (n,):
            report("nll_grad", "gradient length differs from the number of floating parameters", "shape", {"shape": list(g1.shape), "n": n})
            return
        nscale = abs(v0) + 1.0
        stats["identities"] += 1
        ctx.count(1)
        value_ok = ident_ok(v1, v0, nscale)
        if not value_ok:
            if kind == "cfit_cached" and s.with_eff:
                # the C06 defect (efficiency missing in the cached integral): nll_grad evaluates another function than
                # fcn() and nll_grad_hessian; every further comparison at this point would restate it
                ctx.violation("cfit_cached:nll_grad:value_differs_from_nll:eff_value", {"nll": v0, "value_with_gradient": float(v1), "scenario": sc})
                stats["skipped_after_known_value_defect"] = stats.get("skipped_after_known_value_defect", 0) + 1
                continue
            else:
                report("nll_grad", "value returned with the gradient differs from the stand-alone NLL", "value", {"nll": v0, "with_gradient": float(v1)})
        V = val if value_ok else val_g  # the NLL the gradient claims to differentiate
        dirs = [np.array([rng.gauss(0, 1) for _ in range(n)]) * s.scale for _ in range(2 if quick else 3)]
        if not quick and pt == 0:
            dirs += [np.eye(n)[i] * s.scale[i] for i in range(n)]
        # ---- gradient: g.d against the derivative of the reported NLL along d
        for d in dirs:
            gd = float(g1 @ d)
            sc_g = float(np.abs(g1) @ np.abs(d))
            ext, well = richardson_adaptive(V, x, d, sc_g)
            if not well:
                stats["ill_conditioned"] += 1
                continue
            stats["fd_checks"] += 1
            ctx.count(1, distinct_key=(tag, "nll_grad"))
            if fd_ok(gd, ext, sc_g):
                stats["max_fd_rel"] = max(stats["max_fd_rel"], abs(gd - ext) / max(sc_g, 1e-12))
                continue
            # a constraint on a tied name: the term is in the NLL, not in the gradient
            if tied_idx is not None and v["tied"] == "skip":
                mu, sg = s.constr[B_R]
                yk = s.y_of_x(x)[tied_idx]
                miss = np.zeros(n)
                miss[tied_idx] = (yk - mu) / sg**2 * dydx(s, x)[tied_idx]
                if fd_ok(gd + float(miss @ d), ext, sc_g):
                    ctx.violation("gauss_constr:tied_name:nll_grad", {"scenario": sc, "g.d": gd, "fd": float(ext), "missing_term.d": float(miss @ d)})
                    continue
            report("nll_grad", "gradient is not the derivative of the reported NLL", "gradient", {"g.d": gd, "fd": float(ext), "direction": d.tolist(), "gradient": g1.tolist()})
            break
        # ---- Hessian and Hessian-vector product against the derivative of the reported gradient
        try:
            vh, gh, hh = quiet(f_gh, x)
            gh, hh = np.array(gh, dtype=float), np.array(hh, dtype=float)
            hess_exc = None
        except Exception as e:  # noqa: BLE001
            hess_exc = e
            report("nll_grad_hessian", "raises", "raise", {"error": repr(e)[:1500]})
        if hess_exc is None:
            stats["identities"] += 2
            ctx.count(2)
            if not ident_ok(float(vh), float(v1), nscale):
                report("nll_grad_hessian", "value returned with the Hessian differs from the value returned with the gradient", "value", {"with_hessian": float(vh), "with_gradient": float(v1)})
            if not ident_ok(gh, g1, float(np.max(np.abs(g1))) + 1e-9):
                report("nll_grad_hessian", "gradient returned with the Hessian differs from nll_grad's", "gradient", {"with_hessian": gh.tolist(), "nll_grad": g1.tolist()})
            if hh.shape != (n, n) or not ident_ok(hh, hh.T, float(np.max(np.abs(hh))) + 1e-9):
                report("nll_grad_hessian", "Hessian not a symmetric n x n matrix", "shape", {"shape": list(hh.shape)})
                hess_exc = True
        first = None  # (direction, hessp) of the first grad_hessp call at this point
        for d in dirs[: (2 if quick else 3)]:
            ext, well = richardson_adaptive(grad, x, d, 0.0)
            sc_h = float(np.max(np.abs(ext))) + 1e-9
            if not well:
                stats["ill_conditioned"] += 1
                continue
            dyd = dydx(s, x)
            # what is known to be missing, expressed in the fit coordinates
            miss_c = hc * dyd * dyd * d  # constraint Hessian times d
            if hess_exc is None:
                stats["fd_checks"] += 1
                ctx.count(1, distinct_key=(tag, "nll_grad_hessian"))
                hd = hh @ d
                if fd_ok(hd, ext, sc_h):
                    stats["max_fd_rel"] = max(stats["max_fd_rel"], float(np.max(np.abs(hd - ext))) / sc_h)
                elif kind == "simple_cfit" and v["sumvar"] == "sum":
                    ctx.violation("simple_cfit:nll_grad_hessian:sumvar_hessian", {"scenario": sc, "H.d": hd.tolist(), "fd": ext.tolist()})
                else:
                    report("nll_grad_hessian", "Hessian is not the derivative of the reported gradient", "hessian", {"H.d": hd.tolist(), "fd": ext.tolist(), "direction": d.tolist()})
            if kind == "cached_amp" and (quick or stats.get("cached_amp_hessp", 0) >= 1) and not hessp_done:
                stats["hessp_skipped_slow_trace"] = stats.get("hessp_skipped_slow_trace", 0) + 1
                continue
            try:
                hessp_done = True
                if kind == "cached_amp":
                    stats["cached_amp_hessp"] = 1
                ghp, hp = quiet(f_hp, x, d)
                ghp, hp = np.array(ghp, dtype=float), np.array(hp, dtype=float)
            except Exception as e:  # noqa: BLE001
                report("grad_hessp", "raises", "raise", {"error": repr(e)[:1500]})
                break
            stats["fd_checks"] += 1
            stats["identities"] += 1
            ctx.count(2, distinct_key=(tag, "grad_hessp"))
            if first is None:
                first = (d, hp)
            good_g = ident_ok(ghp, g1, float(np.max(np.abs(g1))) + 1e-9)
            good_h = fd_ok(hp, ext, sc_h)
            if good_g and good_h:
                stats["max_fd_rel"] = max(stats["max_fd_rel"], float(np.max(np.abs(hp - ext))) / sc_h)
                continue
            if cfit_family and v["cfith"] == "inherited":
                # is it the default model's formula?  (same amplitude object, same samples, same weights and w_bkg)
                fdflt = quiet(FCN, Model(s.amp, 0.4, resolution_size=s.resolution), s.data, s.phsp, bg=s.bg, batch=65000, gauss_constr=dict(s.c.gauss_constr_dic))
                gd_, hd_ = quiet(vm.trans_grad_hessp(fdflt.grad_hessp), x, d)
                if ident_ok(ghp, gd_, float(np.max(np.abs(ghp))) + 1e-9) and ident_ok(hp, hd_, float(np.max(np.abs(hp))) + 1e-9):
                    ctx.violation("%s:grad_hessp:default_model_formula" % kind, {"scenario": sc, "gradient_from_grad_hessp": ghp.tolist(), "nll_grad": g1.tolist(), "hessp": hp.tolist(), "fd": ext.tolist()})
                    continue
            if good_g and np.any(hc) and v["hessp"] == "zero" and fd_ok(hp + miss_c, ext, sc_h):
                ctx.violation("grad_hessp:gauss_constr_hessian_missing", {"scenario": sc, "hessp": hp.tolist(), "fd": ext.tolist(), "constraint_hessian.d": miss_c.tolist()})
                continue
            report("grad_hessp", "gradient / Hessian-vector product not the derivatives of the reported NLL", "hessp" if good_g else "gradient",
                   {"hessp": hp.tolist(), "fd": ext.tolist(), "gradient": ghp.tolist(), "nll_grad": g1.tolist(), "direction": d.tolist()})
            break
        # ---- the first direction once more, on the same object, after other directions
        if first is not None:
            try:
                _, hp_again = quiet(f_hp, x, first[0])
                stats["identities"] += 1
                ctx.count(1, distinct_key=(tag, "grad_hessp:repeat"))
                if not ident_ok(np.array(hp_again, dtype=float), first[1], float(np.max(np.abs(first[1]))) + 1e-9):
                    report("grad_hessp", "the same direction gives another product after calls with other directions", "call_sequence",
                           {"first_call": first[1].tolist(), "repeated": np.array(hp_again, dtype=float).tolist()})
            except Exception as e:  # noqa: BLE001
                report("grad_hessp", "raises", "raise", {"error": repr(e)[:1500]})
        if pt == 0:
            visit0 = dict(x=x.copy(), v=float(v1), g=g1.copy(), h=(hh.copy() if hess_exc is None else None), first=first, dirs=dirs)
        # ---- independence of the batch size (ragged batches against one batch)
        if sc["batch"] == "ragged" and pt == 0:
            fr = s.fcn(s.ragged_batch)
            y = s.y_of_x(x)
            try:
                a = quiet(fr.nll_grad, y)
                b = quiet(fcn.nll_grad, y)
                stats["identities"] += 2
                ctx.count(2, distinct_key=(tag, "batch"))
                if not ident_ok(float(a[0]), float(b[0]), nscale) or not ident_ok(a[1], b[1], float(np.max(np.abs(b[1]))) + 1e-9):
                    report("nll_grad", "depends on the batch size", "batch", {"batch3": [float(a[0]), np.array(a[1]).tolist()], "single": [float(b[0]), np.array(b[1]).tolist()]})
            except Exception as e:  # noqa: BLE001
                if kind == "cfit_ext" and "Shapes of all inputs must match" in str(e):
                    ctx.violation("cfit_ext:nll_grad:ragged_batch:raise", {"scenario": sc, "error": repr(e)[:200]})
                else:
                    report("nll_grad", "raises for batch 3", "batch:raise", {"error": repr(e)[:1500]})
            try:
                a = quiet(fr.nll_grad_hessian, y)
                b = quiet(fcn.nll_grad_hessian, y)
                stats["identities"] += 1
                ctx.count(1)
                if not ident_ok(np.array(a[2]), np.array(b[2]), float(np.max(np.abs(np.array(b[2])))) + 1e-9):
                    report("nll_grad_hessian", "depends on the batch size", "batch", {"max_diff": float(np.max(np.abs(np.array(a[2]) - np.array(b[2]))))})
                if not quick:
                    d = dirs[0]
                    a = quiet(fr.grad_hessp, y, d)
                    b = quiet(fcn.grad_hessp, y, d)
                    stats["identities"] += 1
                    ctx.count(1)
                    if not ident_ok(np.array(a[1]), np.array(b[1]), float(np.max(np.abs(np.array(b[1])))) + 1e-9):
                        report("grad_hessp", "depends on the batch size", "batch", {"max_diff": float(np.max(np.abs(np.array(a[1]) - np.array(b[1]))))})
            except Exception as e:  # noqa: BLE001
                report("nll_grad_hessian", "raises for batch 3", "batch:raise", {"error": repr(e)[:1500]})
        if not sampled:
            ctx.sample({"scenario": sc, "parameters": s.names, "x": x.tolist(), "nll": v0, "gradient": g1.tolist(), "bounds": {k: list(b) for k, b in s.bounds.items()}})
            sampled = True
    if visit0 is None:
        return
    skip_hp = kind == "cached_amp" and not hessp_done
    hp_known_wrong = cfit_family and v["cfith"] == "inherited"
    scale_g = float(np.max(np.abs(visit0["g"]))) + 1e-9

    def key_report(observer, what, tail, detail):
        ctx.violation("%s:%s:%s" % (kind, observer, tail), dict(detail, scenario=sc, what=what, parameters=s.names))

    # ---- call sequence P0, P1, P0 on the same object
    try:
        if npoints == 1:
            # quick tier: the second point is visited without finite differences (identities between the calls)
            x1 = x_start + np.array([rng.gauss(0, 0.25) for _ in range(n)]) * s.scale
            d2 = visit0["dirs"][1]
            a0 = float(quiet(fcn, s.y_of_x(x1)))
            a1, ag = quiet(f_g, x1)
            ah = quiet(f_gh, x1)
            stats["identities"] += 3
            ctx.count(3, distinct_key=(tag, "sequence:P1"))
            ns = abs(a0) + 1.0
            if not ident_ok(float(a1), a0, ns) or not ident_ok(float(ah[0]), a0, ns):
                key_report("nll_grad_hessian", "values of the three calls differ at the second point", "sequence:value", {"fcn": a0, "nll_grad": float(a1), "nll_grad_hessian": float(ah[0])})
            if not ident_ok(np.array(ah[1], dtype=float), np.array(ag, dtype=float), float(np.max(np.abs(np.array(ag, dtype=float)))) + 1e-9):
                key_report("nll_grad_hessian", "gradients of nll_grad and nll_grad_hessian differ at the second point", "sequence:gradient", {})
            if not skip_hp:
                _, ahp = quiet(f_hp, x1, d2)
                hd2 = np.array(ah[2], dtype=float) @ d2
                stats["identities"] += 1
                ctx.count(1)
                if not hp_known_wrong and not (np.any(hc) and v["hessp"] == "zero") and not ident_ok(np.array(ahp, dtype=float), hd2, float(np.max(np.abs(hd2))) * 1e2 + 1e-9):
                    key_report("grad_hessp", "Hessian-vector product differs from Hessian times vector at the second point", "sequence:hessp", {"hessp": np.array(ahp, dtype=float).tolist(), "H.d": hd2.tolist()})
        # back at the first point: everything as at the first visit
        x0 = visit0["x"]
        b1, bg_ = quiet(f_g, x0)
        stats["identities"] += 2
        ctx.count(2, distinct_key=(tag, "sequence:P0_again"))
        if not ident_ok(float(b1), visit0["v"], abs(visit0["v"]) + 1.0) or not ident_ok(np.array(bg_, dtype=float), visit0["g"], scale_g):
            key_report("nll_grad", "value / gradient at the first point differ after a visit of another point", "sequence:revisit", {"first": visit0["v"], "again": float(b1)})
        if visit0["h"] is not None:
            bh = quiet(f_gh, x0)
            stats["identities"] += 1
            ctx.count(1)
            if not ident_ok(np.array(bh[2], dtype=float), visit0["h"], float(np.max(np.abs(visit0["h"]))) + 1e-9):
                key_report("nll_grad_hessian", "Hessian at the first point differs after a visit of another point", "sequence:revisit", {})
        if visit0["first"] is not None and not skip_hp:
            _, bhp = quiet(f_hp, x0, visit0["first"][0])
            stats["identities"] += 1
            ctx.count(1)
            if not ident_ok(np.array(bhp, dtype=float), visit0["first"][1], float(np.max(np.abs(visit0["first"][1]))) + 1e-9):
                key_report("grad_hessp", "Hessian-vector product at the first point differs after a visit of another point", "sequence:revisit",
                           {"first": visit0["first"][1].tolist(), "again": np.array(bhp, dtype=float).tolist()})
    except Exception as e:  # noqa: BLE001
        key_report("nll_grad", "raises during the call sequence P0, P1, P0", "sequence:raise", {"error": repr(e)[:1500]})


def only(vec, idx):
    out = np.zeros_like(vec)
    out[idx] = vec[idx]
    return out


def dydx(s, x):
    """derivative of the documented bound maps (closed form)"""
    out = np.ones(len(x))
    for i, n in enumerate(s.names):
        if n in s.bounds:
            a, b = s.bounds[n]
            if a is not None and b is not None:
                out[i] = (b - a) * math.cos(x[i]) / 2
            elif a is not None:
                out[i] = x[i] / math.sqrt(x[i] ** 2 + 1)
            elif b is not None:
                out[i] = -x[i] / math.sqrt(x[i] ** 2 + 1)
    return out


def replay(ctx, path):
    run(ctx)
