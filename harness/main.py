import argparse
import importlib
import os
import sys
import traceback


def main():
    ap = argparse.ArgumentParser()
    ap.add_argument("pid")
    ap.add_argument("--tier", default=os.environ.get("VERIF_TIER", "quick"), choices=["quick", "thorough"])
    ap.add_argument("--replay", default=None)
    a = ap.parse_args()
    seed = int(os.environ.get("VERIF_SEED", "20261004"))
    from . import prelude  # noqa: F401  (np.Inf shim, sys.path)
    from .core import Ctx
    from .tlc import MachineryError

    pid = a.pid.upper()
    try:
        mod = importlib.import_module("harness.checks.%s" % pid.lower())
    except ModuleNotFoundError as e:
        print("no check for", pid, e)
        return 2
    ctx = Ctx(pid, a.tier, seed, mod.LEVEL)
    prelude.seed_all(seed)
    # wall-clock guard: a change to the library may make a check pathologically slow (state leaking
    # between loads, ...); a check must still end and report what it found
    import signal

    limit = int(os.environ.get("VERIF_TIMEOUT", "1500" if a.tier == "quick" else "5400"))

    class _Timeout(Exception):
        pass

    def _alarm(signum, frame):
        raise _Timeout()

    signal.signal(signal.SIGALRM, _alarm)
    signal.alarm(limit)
    try:
        if a.replay:
            ctx.replaying = True
            mod.replay(ctx, a.replay)
        else:
            mod.run(ctx)
        signal.alarm(0)
    except _Timeout:
        signal.alarm(0)
        for hook in list(ctx.flush_hooks):
            try:
                hook()
            except Exception:
                traceback.print_exc()
        ctx.notes.append("stopped by the wall-clock guard after %d s" % limit)
        if ctx.violations:
            print("TIMEOUT", pid, "after %d s: reporting the violations found so far" % limit, flush=True)
            return ctx.finish()
        print("MACHINERY-FAILURE", pid, "wall-clock guard (%d s) expired without a verdict" % limit, flush=True)
        import shutil

        shutil.rmtree(ctx.work, ignore_errors=True)
        return 2
    except MachineryError as e:
        print("MACHINERY-FAILURE", pid, e, flush=True)
        import shutil

        shutil.rmtree(ctx.work, ignore_errors=True)
        return 2
    except Exception:
        traceback.print_exc()
        print("MACHINERY-FAILURE", pid, "unexpected exception", flush=True)
        import shutil

        shutil.rmtree(ctx.work, ignore_errors=True)
        return 2
    return ctx.finish()


if __name__ == "__main__":
    sys.exit(main())
