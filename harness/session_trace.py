"""B2 binding (code -> spec) for spec/Session.tla, property C17.

The library's public override blocks and read-only computations are wrapped at
run time (monkeypatching installed and removed by this module; nothing under
/repo changes).  While a flow runs -- one of the repository's own composite
entry points (ConfigLoader.fit / cal_fitfractions / plot_partial_wave / ...),
or a seeded random user session that nests these blocks and injects a fault --
one record is logged per Session action, after the state change, with the
projected model state (the observers of session_replay.SessionReplayer).
spec/SessionTrace.tla then validates every trace: TLC follows the records with
the actions of Session.tla and checks Transparent / NotFullHonest /
SelectionSound and the restore discipline of every frame at every step.

run(ctx)  records the flows of the tier, validates them in one TLC run (plus the
          binding demonstrations: traces that must be rejected) and reports.
replay(ctx, path)  re-records and re-validates the flow of one stored violation.
"""
import contextlib
import copy
import io
import json
import os
import random
import sys
import time

import numpy as np

from . import models, tlc
from . import session_driver as sd
from .session_replay import RES, Injected, SessionReplayer, four_body_dict, pval

# the key of the one scenario that is outside the LIFO nesting Session.tla assumes (see notes/C17_trace.md):
# recorded and validated, reported as an observation unless this is set
JUDGE_HELD_GENERATOR = False

RESTORING = {"temp_params_amp", "temp_params_vm", "temp_var"}
ENTER_ACTION = {
    "temp_params_amp": "EnterTempParamsAmp",
    "temp_params_vm": "EnterTempParamsVM",
    "temp_var": "EnterTempVar",
    "mask_params": "EnterMask",
    "temp_used_res": "EnterTempUsedRes",
    "temp_total_gls_one": "EnterGlsOne",
    "temp_config": "EnterTempConfig",
}
START_ACTION = {
    "partial_weight": "StartPartialWeight",
    "partial_weight_interference": "StartInterference",
    "fit_fractions": "StartFitFractions",
    "plot_weights": "StartPlotWeights",
    "factor_iteration": "StartFactorIteration",
}
RESTORE_EVENTS = {"ExitNormal", "ExitOuterExc", "Raise", "Abandon"}
PLOT = {"3body": {"mass": {"R_BC": {"display": "M(BC)"}}}, "4body": {"mass": {"R4": {"display": "M(R4)"}}}, "direct": {"mass": {"R_BC": {"display": "M(BC)"}}}}
# "direct": the 3-body toy plus the non-resonant chain A -> B C D (tf_pwa's default 3-body decay AngSam3Decay): K = 4 chains,
# chain 4 contains no resonance, so no set_used_res(names) can select it; set_used_chains can
DIRECT_DECAY = {"A": [["R_BC", "D"], ["R_BD", "C"], ["R_CD", "B"], ["B", "C", "D"]]}
NCHAINS = {"3body": 3, "4body": 3, "direct": 4}

REC = None  # the recorder that is active now (hooks are inert without one)


# --------------------------------------------------------------------------
# the real model: SessionReplayer's models and observers + data files for the ConfigLoader entry points
# --------------------------------------------------------------------------
class Bench(SessionReplayer):
    def __init__(self, work, seed, model="3body", n_data=40, n_phsp=120, n_events=6, extra=None, tag=""):
        from tf_pwa.config import regist_config

        self.use_tf_function = False
        self.model_name = model
        self.seed = seed
        self.ff_method = "old"
        if model == "3body":
            d = models.toy_dict()
            self.pname, self.res = "R_BD_mass", dict(RES)
            ph = {}
        elif model == "direct":
            d = models.toy_dict(extra={"decay": copy.deepcopy(DIRECT_DECAY)})
            self.pname, self.res = "R_BD_mass", dict(RES)
            ph = {}
        else:
            d = four_body_dict()
            self.pname, self.res = "R4_mass", {1: "R2", 2: "R3", 3: "R4"}
            ph = dict(masses=(0.5, 0.14, 0.5, 0.14), m0=5.3)
        self.dir = os.path.join(work, "bench_%s_%d%s" % (model, seed, tag))
        os.makedirs(self.dir, exist_ok=True)
        files = {}
        for name, n, s in (("data", n_data, seed + 11), ("phsp", n_phsp, seed + 12)):
            p4 = models.phsp_p4(n, s, **ph)
            files[name] = os.path.join(self.dir, name + ".dat")
            np.savetxt(files[name], np.stack(p4, axis=1).reshape(-1, 4))
        d["data"].update({"data": [files["data"]], "phsp": [files["phsp"]]})
        d["plot"] = copy.deepcopy(PLOT[model])
        for k, v in (extra or {}).items():
            if isinstance(v, dict) and isinstance(d.get(k), dict):
                d[k].update(v)
            else:
                d[k] = v
        self.dict = d
        self.config = models.make_config(d)
        self.amp = self.config.get_amplitude()
        self.dg = self.amp.decay_group
        self.vm = self.amp.vm
        models.set_reproducible_params(self.config, seed)
        self.p4 = models.phsp_p4(n_events, seed, **ph)
        self.K = NCHAINS[model]
        if len(self.dg.chains) != self.K:
            raise tlc.MachineryError("session model %s does not have %d chains" % (model, self.K))
        self.probe = self.config.data.cal_angle(self.p4)
        self.data = self.config.data.cal_angle(self.p4)
        try:
            regist_config(sd_cfg_key(), 0)
        except Exception:
            pass
        self.init_params = dict(self.amp.get_params())
        self.orig_sum_amp = None
        # chain ids (1-based) that contain a resonance, computed from the chains themselves
        self.res_chains = {}
        for i, c in enumerate(self.dg.chains):
            for r in c.inner:
                self.res_chains.setdefault(str(r), set()).add(i + 1)
        self.reset()

    def reset(self):
        SessionReplayer.reset(self)
        self.dg.set_used_chains(list(range(len(self.dg.chains))))  # every chain (the parent resets to three)

    def install_fault(self, at):
        """raise inside the k-th inner evaluation (DecayGroup.sum_amp); evaluations of the observer do not count"""
        self.uninstall_fault()
        self.calls = 0
        orig = self.dg.sum_amp
        self.orig_sum_amp = orig

        def faulty(*a, **kw):
            if REC is not None and REC.observing:
                return orig(*a, **kw)
            self.calls += 1
            if at is not None and self.calls == at:
                raise Injected("fault at inner evaluation %d" % at)
            return orig(*a, **kw)

        self.dg.sum_amp = faulty

    def chains_of(self, res):
        """chain ids selected by set_used_res(res) (names / particles / chain indices), by the harness's own reading"""
        if not isinstance(res, (list, tuple)):
            res = [res]
        out = set()
        for r in res:
            if isinstance(r, int):
                out.add(r + 1)
            else:
                out |= self.res_chains.get(str(r), set())
        return sorted(out)


def sd_cfg_key():
    from .session_replay import CFG_KEY

    return CFG_KEY


# --------------------------------------------------------------------------
# recorder
# --------------------------------------------------------------------------
class _Frame:
    def __init__(self, kind, comp=False, ntodo=0, started=True, pending=None):
        self.kind, self.comp, self.ntodo, self.started, self.pending = kind, comp, ntodo, started, pending
        self.done = 0
        self.entry_exc = sys.exc_info()[1]


class Recorder:
    """one trace: records of Session actions with the projected state after each"""

    def __init__(self, bench, name, dens_budget=30, log_compsteps=True, disabled=()):
        self.b = bench
        self.name = name
        self.events = []
        self.frames = []
        self.busy = 0
        self.observing = False
        self.log_compsteps = log_compsteps
        self.disabled = set(disabled)  # hooks switched off (binding demonstration)
        self.dens_budget = dens_budget
        self.drift = 0
        self._vec = {}
        self._ids = {}
        self._keep = {}
        self._exc = []
        self.init = self.observe(dens=True)
        self.last = self.init

    # -- interning -----------------------------------------------------
    def _intern_vec(self, tag, vec):
        # parameter vectors are compared much more strictly than densities: two parameter points that get one id
        # have densities that get one id as well
        tol = (1e-9, 1e-300) if tag == "dens" else (1e-13, 1e-15)
        vec = np.asarray(vec, dtype=float)
        lst = self._vec.setdefault(tag, [])
        for i, v in enumerate(lst):
            if v.shape == vec.shape and np.allclose(v, vec, rtol=tol[0], atol=tol[1], equal_nan=True):
                return i + 1
        lst.append(vec)
        return len(lst)

    def _intern(self, tag, key):
        d = self._ids.setdefault(tag, {})
        if key not in d:
            d[key] = len(d) + 1
        return d[key]

    def _exc_id(self, e):
        for i, x in enumerate(self._exc):
            if x is e:
                return i + 1
        self._exc.append(e)
        return len(self._exc)

    # -- projection (SessionReplayer.snapshot + the equality structure Session.tla needs) ------
    def observe(self, dens=False):
        from tf_pwa.config import get_config

        b = self.b
        self.observing = True
        try:
            if not dens:
                b.amp.pdf = lambda data: np.zeros(1)  # the observer's density is not needed for this record
            try:
                snap = b.snapshot()
            finally:
                if not dens:
                    del b.amp.pdf
            cfgd = None
            for c in get_config.__closure__ or ():
                if isinstance(c.cell_contents, dict):
                    cfgd = c.cell_contents
            items = []
            for k in sorted(cfgd, key=str):
                v = cfgd[k]
                if isinstance(v, (bool, int, float, str, type(None))):
                    items.append((str(k), repr(v)))
                else:
                    self._keep[id(v)] = v  # keeps the id unique for the lifetime of the trace
                    items.append((str(k), "obj%d" % self._intern("obj", id(v))))
        finally:
            self.observing = False
        polar = snap["polar"]
        flags = set(polar.values())
        if len(flags) > 1:
            raise tlc.MachineryError("mixed coordinate forms are outside Session.tla: %s" % polar)
        vec = []
        phys = snap["phys"]
        done = set()
        for n in sorted(polar):
            a, c = phys[n + "r"], phys[n + "i"]
            z = a * np.exp(1j * c) if polar[n] else complex(a, c)
            vec += [z.real, z.imag]
            done |= {n + "r", n + "i"}
        for n in sorted(phys):
            if n not in done:
                vec.append(phys[n])
        mf = set(snap["mask_factor"])
        if len(mf) > 1:
            # some decays masked, some not: no block of the library produces that on purpose (temp_total_gls_one sets
            # all flags); projected as "masked" so that the record is compared with the specification's state and a
            # restoring record that leaves it behind is refused (a violation), not a machinery failure
            mf = {True}
        mask = snap["mask"]
        st = {
            "p": self._intern_vec("p", vec),
            "maskv": 0 if not mask else self._intern_vec(("mask", tuple(sorted(mask))), [mask[k] for k in sorted(mask)]),
            "active": sorted(snap["active"]),
            "notFull": bool(snap["not_full"]),
            "maskFactor": bool(mf and next(iter(mf))),
            "cfg": self._intern("cfg", tuple(items)),
            "polar": (not flags) or bool(next(iter(flags))),
            "bnd": len(b.vm.bnd_dic) > 0,
            "dens": self._intern_vec("dens", snap["dens"]) if dens else 0,
        }
        return st

    def dens_id(self):
        self.observing = True
        try:
            return self._intern_vec("dens", np.asarray(self.b.amp.pdf(self.b.probe)))
        finally:
            self.observing = False

    @staticmethod
    def same(a, b):
        return all(a[k] == b[k] for k in a if k != "dens")

    # -- logging -------------------------------------------------------
    def log(self, action, st=None, **fields):
        if st is None:
            want_dens = not self.frames and self.dens_budget > 0
            st = self.observe(dens=want_dens)
            if want_dens:
                self.dens_budget -= 1
        ev = dict(a=action, st=st, **fields)
        self.events.append(ev)
        self.last = st
        return ev

    def emit_changes(self, new, via, q=None, as_res=None):
        """deliberate changes (or changes made by code that is not hooked): one record per changed field"""
        old = self.last
        if self.same(old, new):
            self.last = new
            return
        cur = dict(old, dens=0)
        inside = bool(self.frames)
        steps = []
        if new["p"] != old["p"]:
            cur = dict(cur, p=new["p"])
            if not inside:
                steps.append(("UserSetParam", cur, {}))
            elif any(f.kind in RESTORING for f in self.frames):
                steps.append(("InnerSetParam", cur, {}))
            else:
                steps.append(("Unmodelled:p", cur, {}))
        if new["active"] != old["active"] or new["notFull"] != old["notFull"]:
            cur = dict(cur, active=new["active"], notFull=new["notFull"])
            if inside:
                steps.append(("Unmodelled:selection", cur, {}))
            elif as_res is not None:
                steps.append(("UserSetRes", cur, {"q": as_res}))
            else:
                steps.append(("UserSetChains", cur, {"q": q if q is not None else [i + 1 for i in self.b.dg.chains_idx]}))
        if new["polar"] != old["polar"]:
            cur = dict(cur, polar=new["polar"])
            steps.append(("UserCoord" if not inside else "Unmodelled:polar", cur, {}))
        if new["bnd"] != old["bnd"]:
            cur = dict(cur, bnd=new["bnd"])
            steps.append(("UserSetBound" if not inside else "Unmodelled:bnd", cur, {}))
        for f in ("maskv", "maskFactor", "cfg"):
            if new[f] != old[f]:
                cur = dict(cur, **{f: new[f]})
                steps.append(("Unmodelled:" + f, cur, {}))
        for i, (a, st, fields) in enumerate(steps):
            if i == len(steps) - 1:
                d = new["dens"]
                if not d and not inside and self.dens_budget > 0 and not a.startswith("Unmodelled"):
                    self.dens_budget -= 1
                    d = self.dens_id()
                st = dict(st, dens=d)
            self.log(a, st=st, via=via, **fields)
        if via == "drift":
            self.drift += len(steps)

    def pre(self):
        """state changed since the last record by code that is not hooked?"""
        cur = self.observe()
        if not self.same(cur, self.last):
            self.emit_changes(cur, "drift")

    def resync(self):
        self.last = self.observe()

    # -- frames --------------------------------------------------------
    def push(self, fr):
        self.frames.append(fr)
        return fr

    def leave(self, fr, exc=None, abandon=False):
        if fr not in self.frames:
            return
        pos = self.frames.index(fr) + 1
        top = pos == len(self.frames)
        self.frames.remove(fr)
        if fr.comp and not fr.started:
            self.resync()
            return
        if abandon:
            self.log("Abandon", pos=pos, kind=fr.kind)
        elif exc is None:
            self.log("ExitNormal", pos=pos, kind=fr.kind)
        elif top:
            self.log("ExitExc", pos=pos, kind=fr.kind, exc=self._exc_id(exc))
        else:
            self.log("ExitOuterExc", pos=pos, kind=fr.kind)

    def selection_call(self, name, args, kwargs):
        """DecayGroup.set_used_chains / set_used_res returned"""
        top = self.frames[-1] if self.frames else None
        if top is not None and top.comp:
            e = sys.exc_info()[1]
            in_flight = e is not None and e is not top.entry_exc
            if in_flight or (top.started and top.done >= top.ntodo):
                self.resync()  # the epilogue of the computation: its effect is logged with the Exit record
            elif not top.started:
                top.started = True
                a, fields = top.pending
                self.log(a, **fields)
            else:
                top.done += 1
                if self.log_compsteps:
                    self.log("CompStep")
                else:
                    self.resync()
            return
        new = self.observe()
        if name == "set_used_res" and not kwargs.get("only", False) and len(args) == 1 and not any(isinstance(i, int) for i in (args[0] if isinstance(args[0], (list, tuple)) else [args[0]])):
            self.emit_changes(new, name, as_res=self.b.chains_of(args[0]))
        else:
            self.emit_changes(new, name)

    # -- result --------------------------------------------------------
    def trace(self):
        """records with consecutive exception exits of one exception merged into one Raise"""
        ev = []
        for e in self.events:
            if e["a"] == "ExitExc" and ev and ev[-1]["a"] == "Raise" and ev[-1]["exc"] == e["exc"] and ev[-1]["_low"] == e["pos"] + 1:
                r = ev[-1]
                r["n"] += 1
                r["kinds"].append(e["kind"])
                r["sts"].append(e["st"])
                r["st"] = e["st"]
                r["_low"] = e["pos"]
            elif e["a"] == "ExitExc":
                ev.append({"a": "Raise", "n": 1, "kinds": [e["kind"]], "sts": [e["st"]], "st": e["st"], "exc": e["exc"], "_low": e["pos"]})
            else:
                ev.append(dict(e))
        for e in ev:
            e.pop("_low", None)
        return {"name": self.name, "silent": not self.log_compsteps, "init": self.init, "ev": ev}


# --------------------------------------------------------------------------
# hooks (installed on the library's classes / module attributes at run time)
# --------------------------------------------------------------------------
class _CM:
    def __init__(self, inner, kind, fields, mine):
        self.inner, self.kind, self.fields, self.mine = inner, kind, fields, mine
        self.live = False

    def __enter__(self):
        rec = REC
        if rec is None or rec.busy or rec.observing or not self.mine(rec) or self.kind in rec.disabled:
            return self.inner.__enter__()
        rec.pre()
        rec.busy += 1
        try:
            val = self.inner.__enter__()
        finally:
            rec.busy -= 1
        self.live = True
        self.rec = rec
        self.frame = rec.push(_Frame(self.kind))
        rec.log(ENTER_ACTION[self.kind], **self.fields(rec))
        return val

    def __exit__(self, et, ev, tb):
        if not self.live or REC is not self.rec:
            return self.inner.__exit__(et, ev, tb)
        rec = self.rec
        rec.pre()
        rec.busy += 1
        try:
            r = self.inner.__exit__(et, ev, tb)
        except BaseException as e:
            rec.busy -= 1
            rec.leave(self.frame, exc=e)
            raise
        rec.busy -= 1
        rec.leave(self.frame, exc=None if (et is None or r) else ev)
        return r


class _Gen:
    """DecayGroup.factor_iteration: Start at the first step, CompStep per chain (selection hook), End / Abandon"""

    def __init__(self, inner):
        self.inner = inner
        self.state = "new"
        self.rec = None

    def __iter__(self):
        return self

    def __next__(self):
        if self.state == "new":
            rec = REC
            if rec is None or rec.busy or rec.observing or "factor_iteration" in rec.disabled:
                self.state = "off"
            else:
                rec.pre()
                self.rec = rec
                order = [i + 1 for i in rec.b.dg.chains_idx]
                self.frame = rec.push(_Frame("factor_iteration", comp=True, ntodo=len(order)))
                rec.log("StartFactorIteration", order=order)
                self.state = "on"
        if self.state != "on" or REC is not self.rec:
            return next(self.inner)
        try:
            return next(self.inner)
        except StopIteration:
            self.state = "done"
            self.rec.leave(self.frame)
            raise
        except BaseException as e:
            self.state = "done"
            self.rec.leave(self.frame, exc=e)
            raise

    def close(self):
        if self.state == "on" and REC is self.rec:
            self.state = "done"
            try:
                self.inner.close()
            finally:
                self.rec.leave(self.frame, abandon=True)
        else:
            self.inner.close()

    def __del__(self):
        try:
            self.close()
        except BaseException:
            pass


class Hooks:
    def __init__(self):
        self.undo = []

    def _set(self, obj, name, new):
        self.undo.append((obj, name, obj.__dict__[name] if isinstance(obj, type) else getattr(obj, name)))
        setattr(obj, name, new)

    def _everywhere(self, orig, new):
        for name, mod in list(sys.modules.items()):
            if mod is None or not name.startswith("tf_pwa"):
                continue
            for k, v in list(vars(mod).items()):
                if v is orig:
                    self._set(mod, k, new)

    def remove(self):
        for obj, name, old in reversed(self.undo):
            setattr(obj, name, old)
        self.undo = []

    def install(self):
        import tf_pwa.applications  # noqa: F401  (modules that hold references must be loaded before patching)
        import tf_pwa.config as cfgmod
        import tf_pwa.config_loader  # noqa: F401
        import tf_pwa.config_loader.plotter as plotter
        import tf_pwa.experimental.factor_system as fs
        import tf_pwa.fitfractions as ff
        from tf_pwa.amp.amp import AbsPDF, BaseAmplitudeModel
        from tf_pwa.amp.core import DecayGroup
        from tf_pwa.variable import VarsManager

        def cm_method(cls, name, kind, fields, who):
            orig = cls.__dict__[name]

            def wrapper(self, *a, **kw):
                return _CM(orig(self, *a, **kw), kind, lambda rec: fields(rec, self, a, kw), lambda rec: who(rec) is self)

            wrapper.__name__ = name
            self._set(cls, name, wrapper)

        none = lambda rec, self_, a, kw: {}
        cm_method(AbsPDF, "temp_params", "temp_params_amp", none, lambda rec: rec.b.amp)
        cm_method(VarsManager, "temp_params", "temp_params_vm", none, lambda rec: rec.b.vm)
        cm_method(VarsManager, "mask_params", "mask_params", none, lambda rec: rec.b.vm)
        cm_method(DecayGroup, "temp_used_res", "temp_used_res", lambda rec, s, a, kw: {"q": rec.b.chains_of(a[0] if a else kw["res"])}, lambda rec: rec.b.dg)
        cm_method(BaseAmplitudeModel, "temp_total_gls_one", "temp_total_gls_one", none, lambda rec: rec.b.amp)

        orig_tc = cfgmod.temp_config
        self._everywhere(orig_tc, lambda name, var: _CM(orig_tc(name, var), "temp_config", lambda rec: {}, lambda rec: True))
        orig_tv = fs.temp_var
        self._everywhere(orig_tv, lambda vm: _CM(orig_tv(vm), "temp_var", lambda rec: {}, lambda rec: rec.b.vm is vm))

        # derived computations
        def comp(orig, kind, describe, who):
            def wrapper(*a, **kw):
                rec = REC
                if rec is None or rec.busy or rec.observing or kind in rec.disabled or not who(rec, a, kw):
                    return orig(*a, **kw)
                d = describe(rec, a, kw)
                if d is None:
                    return orig(*a, **kw)
                fields, ntodo, lazy = d
                rec.pre()
                fr = rec.push(_Frame(kind, comp=True, ntodo=ntodo, started=not lazy, pending=(START_ACTION[kind], fields)))
                if not lazy:
                    rec.log(START_ACTION[kind], **fields)
                try:
                    ret = orig(*a, **kw)
                except BaseException as e:
                    rec.leave(fr, exc=e)
                    raise
                rec.leave(fr)
                return ret

            wrapper.__name__ = getattr(orig, "__name__", "wrapper")
            return wrapper

        def arg(a, kw, i, name, default=None):
            return a[i] if len(a) > i else kw.get(name, default)

        def pw_desc(rec, a, kw):
            combine = arg(a, kw, 2, "combine")
            if combine is None:
                combine = [[i] for i in range(len(rec.b.dg.chains))]
            todo = [rec.b.chains_of(c) for c in combine]
            return {"todo": todo}, len(todo), False

        is_dg = lambda rec, a, kw: a and a[0] is rec.b.dg
        is_amp = lambda rec, a, kw: a and a[0] is rec.b.amp
        self._set(DecayGroup, "partial_weight", comp(DecayGroup.__dict__["partial_weight"], "partial_weight", pw_desc, is_dg))
        self._set(BaseAmplitudeModel, "partial_weight", comp(BaseAmplitudeModel.__dict__["partial_weight"], "partial_weight", pw_desc, is_amp))
        self._set(DecayGroup, "partial_weight_interference", comp(DecayGroup.__dict__["partial_weight_interference"], "partial_weight_interference", lambda rec, a, kw: ({}, len(rec.b.dg.chains) * (len(rec.b.dg.chains) - 1) // 2, False), is_dg))

        def ff_desc(is_new):
            def d(rec, a, kw):
                res = a[0].res if is_new else arg(a, kw, 2, "res")
                if res is None:
                    res = list(rec.b.amp.res)
                sets = [rec.b.chains_of(r) for r in res]
                n = len(sets)
                # both routes select the listed resonances first (part of the Start record) since repo commit 936ac3f
                return {"res": sets, "isNew": is_new}, n * (n + 1) // 2, True

            return d

        for fname in ("cal_fitfractions", "cal_fitfractions_no_grad"):
            o = getattr(ff, fname)
            self._everywhere(o, comp(o, "fit_fractions", ff_desc(False), is_amp))
        self._set(ff.FitFractions, "append_int", comp(ff.FitFractions.__dict__["append_int"], "fit_fractions", ff_desc(True), lambda rec, a, kw: a and a[0].amp is rec.b.amp))

        def plot_desc(rec, a, kw):
            res = arg(a, kw, 5, "res")
            if res is None:
                return None  # PlotAllData then calls amp.partial_weight: that computation logs itself
            todo = [rec.b.chains_of(r) for r in res]
            return {"todo": todo}, len(todo), False

        self._set(plotter.PlotAllData, "__init__", comp(plotter.PlotAllData.__dict__["__init__"], "plot_weights", plot_desc, lambda rec, a, kw: arg(a, kw, 1, "amp") is rec.b.amp))

        orig_fi = DecayGroup.__dict__["factor_iteration"]

        def factor_iteration(self_, deep=2):
            g = orig_fi(self_, deep)
            rec = REC
            if rec is None or self_ is not rec.b.dg or deep == 0:
                return g
            return _Gen(g)

        self._set(DecayGroup, "factor_iteration", factor_iteration)

        # selection primitives
        def sel(name):
            orig = DecayGroup.__dict__[name]

            def wrapper(self_, *a, **kw):
                rec = REC
                if rec is None or rec.busy or rec.observing or self_ is not rec.b.dg or "selection" in rec.disabled:
                    return orig(self_, *a, **kw)
                top = rec.frames[-1] if rec.frames else None
                if not (top is not None and top.comp):
                    rec.pre()
                rec.busy += 1
                try:
                    ret = orig(self_, *a, **kw)
                finally:
                    rec.busy -= 1
                rec.selection_call(name, a, kw)
                return ret

            wrapper.__name__ = name
            self._set(DecayGroup, name, wrapper)

        sel("set_used_chains")
        sel("set_used_res")

        # deliberate parameter-manager changes
        def deliberate(name):
            orig = VarsManager.__dict__[name]

            def wrapper(self_, *a, **kw):
                rec = REC
                if rec is None or rec.busy or rec.observing or self_ is not rec.b.vm or "deliberate" in rec.disabled:
                    return orig(self_, *a, **kw)
                rec.pre()
                rec.busy += 1
                try:
                    ret = orig(self_, *a, **kw)
                finally:
                    rec.busy -= 1
                rec.emit_changes(rec.observe(), name)
                return ret

            wrapper.__name__ = name
            self._set(VarsManager, name, wrapper)

        for n in ("set_all", "set", "set_bound", "remove_bound", "rp2xy_all", "xy2rp_all", "set_fix", "set_trans_var", "standard_complex", "std_polar_all", "refresh_vars"):
            if n in VarsManager.__dict__:
                deliberate(n)


@contextlib.contextmanager
def recording(bench, name, **kw):
    """record one flow on `bench`; yields the recorder"""
    global REC
    if REC is not None:
        raise tlc.MachineryError("nested recordings")
    rec = Recorder(bench, name, **kw)
    REC = rec
    try:
        yield rec
        rec.pre()
    finally:
        REC = None
    if rec.frames:
        rec.open_at_end = [f.kind for f in rec.frames]


# --------------------------------------------------------------------------
# flows
# --------------------------------------------------------------------------
@contextlib.contextmanager
def quiet():
    buf = io.StringIO()
    with contextlib.redirect_stdout(buf):
        yield


def _fit_result_like(b, scale=1.01):
    """a parameter point near the current one (what a user passes as params=...)"""
    p = dict(b.amp.get_params())
    return {k: (v * scale if k.endswith("_0r") or k.endswith("ls_0r") else v) for k, v in p.items()}


def flow_fit(b):
    with quiet():
        b.config.fit(maxiter=2, print_init_nll=False)


def flow_fit_reweight(b):
    with quiet():
        b.config.fit(maxiter=1, print_init_nll=False, reweight=True)


def flow_params_error(b):
    with quiet():
        b.config.get_params_error({})


def flow_ff_old(b):
    with quiet():
        b.config.cal_fitfractions()


def flow_ff_new(b):
    with quiet():
        r = b.config.cal_fitfractions(method="new")
        r.get_frac()


def flow_ff_old_sel(b):
    # from a restricted selection, at another parameter point, in two batches
    b.amp.set_used_chains([0, 2])
    with quiet():
        b.config.cal_fitfractions(params=_fit_result_like(b), batch=70)


def flow_ff_new_sel(b):
    b.amp.set_used_res([b.res[1], b.res[2]])
    with quiet():
        b.config.cal_fitfractions(params=_fit_result_like(b), method="new", batch=70, res=[b.res[2], b.res[3]])


def flow_ff_no_grad(b):
    from tf_pwa.fitfractions import cal_fitfractions_no_grad

    b.amp.set_used_chains([1, 2])
    with quiet():
        cal_fitfractions_no_grad(b.amp, b.config.get_phsp_noeff(), res=[b.res[1], b.res[3]], batch=1000)


def flow_plot(b):
    with quiet():
        b.config.plot_partial_wave(prefix=os.path.join(b.dir, "fig", "a_"), plot_pull=False)


def flow_plot_res(b):
    b.amp.set_used_chains([0, 1])
    with quiet():
        b.config.plot_partial_wave(params=_fit_result_like(b), prefix=os.path.join(b.dir, "fig", "b_"), smooth=False, bin_scale=1, res=[b.res[1], [b.res[2], b.res[3]]], batch=70)


def flow_plot_interf(b):
    b.amp.set_used_chains([1, 2])
    with quiet():
        b.config.plot_partial_wave_interf(b.res[1], b.res[2], prefix=os.path.join(b.dir, "fig", "c_"))


def flow_plotdatas(b):
    b.amp.set_used_chains([0, 2])
    with quiet():
        b.config.get_all_plotdatas(res=[b.res[1], [b.res[2], b.res[3]]])
        b.config.get_all_plotdatas()


def flow_partial_amp(b):
    from tf_pwa.experimental.factor_system import get_all_partial_amp

    with quiet():
        get_all_partial_amp(b.amp, b.probe)


def flow_factor_iteration(b):
    b.amp.set_used_chains([2, 0])
    for deep in (1, 2, 3):
        for _ in b.amp.factor_iteration(deep=deep):
            pass
    for i, _ in enumerate(b.amp.factor_iteration()):
        if i == 1:
            break


def flow_mask_snippet(b):
    """the 'mask params for fit fraction' lines of tf_pwa/tests/test_full.py::test_fit"""
    config, amp = b.config, b.amp
    phsp = config.get_phsp_noeff()
    with quiet():
        amp.vm.batch_sum_var(amp, phsp)
        for i in config.get_decay():
            mask_params = {}
            for j in config.get_decay():
                if i != j:
                    mask_params[str(j.total) + "_0r"] = 0
            with config.mask_params(mask_params):
                amp.vm.batch_sum_var(amp, phsp)
            with amp.mask_params(mask_params):
                pass
        for i in amp.factor_iteration():
            pass


def flow_build_second_model(b):
    """constructing another amplitude model enters temp_config('vm', ...) (tf_pwa.amp.core.variable_scope)"""
    d = copy.deepcopy(b.dict)
    with quiet():
        models.make_config(d).get_amplitude()


def flow_likelihood_profile(b):
    v = b.init_params[b.pname]
    with quiet():
        b.config.likelihood_profile(b.pname, v - 0.01, v + 0.01, N=2)


LIB_FLOWS = {
    # name: (function, tiers)
    "fit": (flow_fit, ("quick", "thorough")),
    "get_params_error": (flow_params_error, ("quick", "thorough")),
    "cal_fitfractions": (flow_ff_old, ("quick", "thorough")),
    "cal_fitfractions_new": (flow_ff_new, ("quick", "thorough")),
    "cal_fitfractions_sel": (flow_ff_old_sel, ("quick", "thorough")),
    "cal_fitfractions_new_sel": (flow_ff_new_sel, ("quick", "thorough")),
    "cal_fitfractions_no_grad": (flow_ff_no_grad, ("quick", "thorough")),
    "plot_partial_wave": (flow_plot, ("quick", "thorough")),
    "plot_partial_wave_res": (flow_plot_res, ("quick", "thorough")),
    "plot_partial_wave_interf": (flow_plot_interf, ("quick", "thorough")),
    "get_all_plotdatas": (flow_plotdatas, ("quick", "thorough")),
    "get_all_partial_amp": (flow_partial_amp, ("quick", "thorough")),
    "factor_iteration": (flow_factor_iteration, ("quick", "thorough")),
    "test_fit_mask_snippet": (flow_mask_snippet, ("quick", "thorough")),
    "build_second_model": (flow_build_second_model, ("quick", "thorough")),
    "fit_reweight": (flow_fit_reweight, ("thorough",)),
    "likelihood_profile": (flow_likelihood_profile, ("thorough",)),
}
# flows re-recorded with an exception injected into one of their inner evaluations
FAULT_FLOWS = ("cal_fitfractions_sel", "cal_fitfractions_new_sel", "cal_fitfractions_no_grad", "plot_partial_wave_res", "plot_partial_wave_interf", "get_all_plotdatas",
               "get_all_partial_amp", "test_fit_mask_snippet")
FOUR_BODY_FLOWS = ("cal_fitfractions", "cal_fitfractions_new_sel", "plot_partial_wave", "get_all_plotdatas", "factor_iteration", "get_all_partial_amp")


# -- flows on the model with a direct (non-resonant) chain: K = 4, no resonance name selects chain 4 ---------------
def d_ff_old_full(b):
    with quiet():
        b.config.cal_fitfractions()


def d_ff_new_full(b):
    with quiet():
        b.config.cal_fitfractions(method="new").get_frac()


def d_ff_no_grad_full(b):
    from tf_pwa.fitfractions import cal_fitfractions_no_grad

    with quiet():
        cal_fitfractions_no_grad(b.amp, b.config.get_phsp_noeff(), res=[b.res[1], b.res[3]], batch=1000)


def d_ff_old_sel(b):
    b.amp.set_used_chains([1, 3])  # a restricted selection that contains the direct chain
    with quiet():
        b.config.cal_fitfractions(params=_fit_result_like(b), batch=70)


def d_ff_new_sel(b):
    b.amp.set_used_chains([0, 3])
    with quiet():
        b.config.cal_fitfractions(params=_fit_result_like(b), method="new", res=[b.res[2], b.res[3]]).get_frac()


def d_partial_weight(b):
    with quiet():
        b.amp.partial_weight(b.probe)
        b.amp.set_used_chains([0, 3])
        b.amp.partial_weight(b.probe, combine=[[b.res[1]], [3], [b.res[2], 3]])
        b.amp.partial_weight_interference(b.probe)


def d_plotdatas(b):
    with quiet():
        b.config.get_all_plotdatas(res=[b.res[1], [b.res[2], b.res[3]]])
        b.amp.set_used_chains([2, 3])
        b.config.get_all_plotdatas(res=[b.res[1], [b.res[2], b.res[3]]])


def d_temp_used_res(b):
    """the interference plot: three temp_used_res blocks inside temp_params, from the full selection"""
    with quiet():
        b.config.plot_partial_wave_interf(b.res[1], b.res[2], prefix=os.path.join(b.dir, "fig", "d_"))


def d_fit_fractions_app(b):
    """tf_pwa.applications.fit_fractions, both routes, on the probe events"""
    from tf_pwa.applications import fit_fractions

    with quiet():
        fit_fractions(b.amp, b.probe, res=[b.res[1], b.res[2]], batch=1000, method="old")
        fit_fractions(b.amp, b.probe, res=[b.res[3]], batch=1000, method="new")


DIRECT_FLOWS = {
    "cal_fitfractions": d_ff_old_full,
    "cal_fitfractions_new": d_ff_new_full,
    "cal_fitfractions_no_grad": d_ff_no_grad_full,
    "cal_fitfractions_sel": d_ff_old_sel,
    "cal_fitfractions_new_sel": d_ff_new_sel,
    "fit_fractions": d_fit_fractions_app,
    "partial_weight": d_partial_weight,
    "get_all_plotdatas": d_plotdatas,
    "plot_partial_wave_interf": d_temp_used_res,
}


def record_direct(ctx, rng):
    """the third real model: every flow, every flow with a fault (quick: the middle inner evaluation), a few user sessions"""
    quick = ctx.tier == "quick"
    t0 = time.time()
    with quiet():
        b = Bench(ctx.work, ctx.seed % 1000 + 6, "direct")
    traces = []
    for name, fn in DIRECT_FLOWS.items():
        tr = record_flow(b, name + "@direct", fn)
        traces.append(tr)
        ks = [(tr["calls"] + 1) // 2] if quick else fault_positions(tr["calls"], ctx.tier, rng)
        for k in ks:
            if k >= 1:
                traces.append(record_flow(b, "%s@direct!fault@%d" % (name, k), fn, fault_at=k))
    n_lib = len(traces)
    for k in range(6 if quick else 80):
        ops = gen_program(rng, nchains=4, deeps=(1,))  # DecayChain.factor_iteration(deep >= 1) is not defined for the direct decay
        traces.append(record_program(b, "user_direct_%d" % k, ops, rng.choice([None, None, 1, 2, 3, 4, 5, 7, 9])))
    if not quick:
        for k, (ops, fault) in enumerate(SCRIPTED):
            ops = json.loads(json.dumps(ops).replace('["iter", 2,', '["iter", 1,'))
            traces.append(record_program(b, "user_scripted_direct_%d" % k, ops, fault))
    for tr in traces:
        tr["model"] = "direct"
    ctx.log("recorded %d library flows and %d user sessions on the model with a direct chain (K = 4) in %.1fs" % (n_lib, len(traces) - n_lib, time.time() - t0))
    return traces


def record_flow(b, name, fn, fault_at=None, **kw):
    """record one library flow; fault_at = k: the k-th inner evaluation (DecayGroup.sum_amp) of the flow raises"""
    b.reset()
    t0 = time.time()
    with recording(b, name, **kw) as rec:
        b.install_fault(fault_at)
        try:
            fn(b)
        except Injected:
            if fault_at is None:
                raise
        finally:
            b.uninstall_fault()
    if "matplotlib.pyplot" in sys.modules:
        sys.modules["matplotlib.pyplot"].close("all")
    tr = rec.trace()
    tr["wall"] = round(time.time() - t0, 2)
    tr["drift"] = rec.drift
    tr["open_at_end"] = getattr(rec, "open_at_end", [])
    tr["calls"] = b.calls
    if fault_at is not None:
        tr["fault_at"] = fault_at
        if b.calls < fault_at:
            raise tlc.MachineryError("flow %s: the fault at inner evaluation %d was never reached (%d evaluations)" % (name, fault_at, b.calls))
    b.reset()
    return tr


def fault_positions(calls, tier, rng):
    """quick: the first, the middle and one seeded position; thorough: every inner evaluation (at most 40, evenly spread)"""
    if calls <= 0:
        return []
    if tier == "quick":
        return sorted({1, (calls + 1) // 2, rng.randint(1, calls)})
    if calls <= 40:
        return list(range(1, calls + 1))
    return sorted({1 + (i * (calls - 1)) // 39 for i in range(40)})


# -- the cached_shape amplitude model: its preprocessor enters temp_total_gls_one between two set_used_chains calls
def cached_shape_bench(work, seed):
    return Bench(work, seed, "3body", extra={"data": {"preprocessor": "cached_shape", "amp_model": "cached_shape"}}, tag="_cs")


def flow_cached_shape(b):
    """tf_pwa/tests/test_full.py::test_precached3"""
    with quiet():
        fcn = b.config.get_fcn()
        fcn({})
        fcn.nll_grad({})


# -- the constr_frac likelihood model: temp_used_res + mask_params inside every NLL evaluation -------------
def constr_frac_bench(work, seed):
    extra = {"data": {"model": "constr_frac"}, "particle": {"R_BD": {"J": 0, "Par": 1, "m0": 2.43, "g0": 0.3, "float": ["m"], "m_min": 2.3, "m_max": 2.6}}, "nll_model": {"constr_frac": {"R_BC": {"value": 0.3, "sigma": 0.1}, "R_BD": {"value": 0.3, "sigma": 0.1, "mask_params": {"R_BD_mass": 2.44}}}}}
    return Bench(work, seed, "3body", extra=extra, tag="_cf")


# --------------------------------------------------------------------------
# seeded random user sessions (nesting 2-3 deep, library composites inside user blocks, injected faults)
# --------------------------------------------------------------------------
BLOCKS = ["temp_params_amp", "temp_params_vm", "mask_params", "temp_used_res", "temp_total_gls_one", "temp_config", "temp_var"]
COMPS = ["partial_weight", "partial_weight_combine", "interference", "ff_old", "ff_new", "ff_config", "plot_weights", "plotdatas", "partial_amp"]


def gen_program(rng, depth=0, max_depth=3, restoring=False, length=None, tries=1, nchains=3, deeps=(1, 2, 2, 3)):
    ops = []
    n = length if length is not None else rng.randint(1, 3)
    for _ in range(n):
        r = rng.random()
        if depth == 0 and r < 0.25:
            k = rng.choice(["chains", "res", "coord", "bound", "setp"])
            if k == "chains":
                ops.append(["chains", sorted(rng.sample(list(range(nchains)), rng.randint(1, nchains)))])
            elif k == "res":
                ops.append(["res", sorted(rng.sample([1, 2, 3], rng.randint(1, 3)))])
            elif k == "coord":
                ops.append(["coord", rng.random() < 0.5])
            elif k == "bound":
                ops.append(["bound", rng.random() < 0.6])
            else:
                ops.append(["setp", rng.randint(1, 3)])
        elif r < 0.55 and depth < max_depth:
            kind = rng.choice(BLOCKS)
            a = rng.randint(1, 3)
            if kind == "temp_used_res":
                a = sorted(rng.sample([1, 2, 3], rng.randint(1, 2)))
            body = gen_program(rng, depth + 1, max_depth, restoring or kind in RESTORING, tries=tries, nchains=nchains, deeps=deeps)
            ops.append(["with", kind, a, body])
        elif r < 0.65 and depth < max_depth:
            body = gen_program(rng, depth + 1, max_depth, restoring, length=rng.randint(0, 2), tries=tries, nchains=nchains, deeps=deeps)
            ops.append(["iter", rng.choice(list(deeps)), body, rng.choice([None, None, 0, 1]), False])
        elif 0.65 <= r < 0.72 and depth > 0 and tries > 0:
            ops.append(["try", gen_program(rng, depth, max_depth, restoring, length=rng.randint(1, 2), tries=tries - 1, nchains=nchains, deeps=deeps)])
        elif 0.72 <= r < 0.80 and depth > 0:
            ops.append(["raise"])
        elif 0.80 <= r < 0.86 and restoring:
            ops.append(["setp", rng.randint(1, 3)])
        else:
            ops.append(["comp", rng.choice(COMPS)])
    return ops


def run_program(b, ops):
    """execute a program with real `with` statements (recursion = nesting)"""
    from tf_pwa.applications import fit_fractions
    from tf_pwa.config import temp_config
    from tf_pwa.config_loader.plotter import PlotAllData
    from tf_pwa.experimental.factor_system import get_all_partial_amp, temp_var

    amp, vm, res = b.amp, b.vm, b.res

    def block(kind, a):
        if kind == "temp_params_amp":
            return amp.temp_params({b.pname: pval(a)})
        if kind == "temp_params_vm":
            return vm.temp_params({b.pname: pval(a)})
        if kind == "mask_params":
            return amp.mask_params({b.pname: pval(a)})
        if kind == "temp_used_res":
            return amp.temp_used_res([res[i] for i in a])
        if kind == "temp_total_gls_one":
            return amp.temp_total_gls_one()
        if kind == "temp_config":
            return temp_config(sd_cfg_key(), a)
        if kind == "temp_var":
            return temp_var(vm)
        raise ValueError(kind)

    def comp(kind):
        names = [res[1], res[2], res[3]]
        if kind == "partial_weight":
            amp.partial_weight(b.probe)
        elif kind == "partial_weight_combine":
            amp.partial_weight(b.probe, combine=[[0, 1], [2]])
        elif kind == "interference":
            amp.partial_weight_interference(b.probe)
        elif kind == "ff_old":
            fit_fractions(amp, b.probe, res=names[:2], batch=1000, method="old")
        elif kind == "ff_new":
            fit_fractions(amp, b.probe, res=names[1:], batch=1000, method="new")
        elif kind == "ff_config":
            with quiet():
                b.config.cal_fitfractions(mcdata=b.probe)
        elif kind == "plot_weights":
            PlotAllData(amp, b.probe, b.probe, res=[[n] for n in names] + [names])
        elif kind == "plotdatas":
            PlotAllData(amp, b.probe, b.probe)
        elif kind == "partial_amp":
            get_all_partial_amp(amp, b.probe)
        else:
            raise ValueError(kind)

    def go(ops):
        for op in ops:
            k = op[0]
            if k == "with":
                with block(op[1], op[2]):
                    go(op[3])
            elif k == "iter":
                deep, body, brk, hold = op[1:5]
                if hold:
                    g = amp.factor_iteration(deep=deep)  # the generator stays referenced by this frame
                    for i, _ in enumerate(g):
                        go(body)
                        if brk is not None and i == brk:
                            break
                else:
                    for i, _ in enumerate(amp.factor_iteration(deep=deep)):
                        go(body)
                        if brk is not None and i == brk:
                            break
            elif k == "try":
                try:
                    go(op[1])
                except Injected:
                    pass
            elif k == "raise":
                raise Injected("raised inside the block")
            elif k == "setp":
                amp.set_params({b.pname: pval(op[1])})
            elif k == "comp":
                with quiet():
                    comp(op[1])
            elif k == "chains":
                amp.set_used_chains(list(op[1]))
            elif k == "res":
                amp.set_used_res([res[i] for i in op[1]])
            elif k == "coord":
                vm.xy2rp_all() if op[1] else vm.rp2xy_all()
            elif k == "bound":
                if op[1]:
                    vm.set_bound({b.pname: (2.0, 3.0)})
                else:
                    vm.remove_bound()
            else:
                raise ValueError(k)

    go(ops)


def record_program(b, name, ops, fault_at, **kw):
    b.reset()
    t0 = time.time()
    with recording(b, name, **kw) as rec:
        b.install_fault(fault_at)
        try:
            run_program(b, ops)
        except Injected:
            pass
        finally:
            b.uninstall_fault()
    tr = rec.trace()
    tr.update(wall=round(time.time() - t0, 2), drift=rec.drift, open_at_end=getattr(rec, "open_at_end", []), program=ops, fault_at=fault_at, calls=b.calls)
    b.reset()
    return tr


# scripted sessions: every action of SessionTrace is taken by at least one of them, whatever the seed
SCRIPTED = [
    ([["with", "temp_params_amp", 2, [["with", "mask_params", 1, [["comp", "partial_weight"]]], ["setp", 3]]]], None),
    ([["with", "temp_params_vm", 2, [["with", "temp_used_res", [1, 2], [["raise"]]]]]], None),
    ([["with", "temp_total_gls_one", 1, [["try", [["with", "temp_config", 1, [["raise"]]]]], ["comp", "interference"]]]], None),
    ([["chains", [0, 1]], ["iter", 2, [["comp", "partial_weight_combine"]], 0, False]], None),
    ([["with", "temp_var", 1, [["setp", 2], ["comp", "ff_old"]]]], 3),
    ([["res", [2, 3]], ["with", "mask_params", 2, [["comp", "plot_weights"]]]], 2),
    ([["coord", False], ["bound", True], ["with", "temp_params_vm", 3, [["comp", "ff_new"]]], ["bound", False], ["coord", True]], None),
    ([["with", "temp_used_res", [2, 3], [["iter", 2, [["raise"]], None, False]]]], None),
    ([["comp", "interference"]], 2),
    ([["setp", 2], ["with", "temp_used_res", [1], [["try", [["comp", "partial_weight"]]], ["comp", "plotdatas"]]]], 2),
    ([["with", "mask_params", 2, [["with", "temp_var", 1, [["setp", 3]]], ["with", "temp_params_amp", 1, [["comp", "partial_weight"]]]]]], None),
    ([["with", "temp_total_gls_one", 1, [["comp", "ff_new"]]]], 2),
    ([["with", "mask_params", 1, [["comp", "plotdatas"]]]], 2),
    ([["with", "temp_config", 2, [["with", "temp_used_res", [3], [["comp", "interference"]]]]]], 1),
]

# the scenario outside LIFO nesting: a suspended factor iteration that outlives the block it was started in
HELD_GENERATOR = [["with", "temp_used_res", [1, 2], [["iter", 1, [["raise"]], None, True]]]]


# --------------------------------------------------------------------------
# the repository's own tests (tf_pwa/tests/test_full.py), executed in-process on the test configuration
# --------------------------------------------------------------------------
class AdoptedBench(Bench):
    """the observers on the amplitude model of an existing ConfigLoader (state carries over between flows)"""

    def __init__(self, config, seed, n_events=6):
        from tf_pwa.config import regist_config

        try:
            regist_config(sd_cfg_key(), 0)
        except Exception:
            pass
        self.use_tf_function = False
        self.model_name = "test_full"
        self.seed = seed
        self.ff_method = "old"
        self.config = config
        self.amp = config.get_amplitude()
        self.dg = self.amp.decay_group
        self.vm = self.amp.vm
        self.pname = "R_BD_mass"
        self.res = {i + 1: str(c.inner[0]) for i, c in enumerate(self.dg.chains)}
        self.p4 = models.phsp_p4(n_events, seed)
        self.probe = config.data.cal_angle(self.p4)
        self.data = self.probe
        self.orig_sum_amp = None
        self.calls = 0
        self.frames = []
        self.res_chains = {}
        for i, c in enumerate(self.dg.chains):
            for r in c.inner:
                self.res_chains.setdefault(str(r), set()).add(i + 1)

    def reset(self):
        self.uninstall_fault()


def record_suite(ctx):
    """fit_result fixture + test_fit + test_bacth_sum + test_cal_chi2 + test_cal_signal_yields of tf_pwa/tests/test_full.py"""
    import tf_pwa.tests.test_full as tfull
    from tf_pwa.config_loader import ConfigLoader

    def plain(fix):
        for attr in ("__wrapped__", "_fixture_function"):
            if hasattr(fix, attr):
                return getattr(fix, attr)
        return fix.__pytest_wrapped__.obj

    sdir = os.path.join(ctx.work, "suite")
    os.makedirs(sdir, exist_ok=True)
    old = os.getcwd()
    os.chdir(sdir)
    global REC
    traces = []
    t0 = time.time()
    try:
        with quiet():
            plain(tfull.gen_toy)()
            config = ConfigLoader("%s/config_toy.yml" % tfull.this_dir)
            config.set_params("%s/exp_params.json" % tfull.this_dir)
        b = AdoptedBench(config, ctx.seed % 1000 + 5)
        if len(b.dg.chains) != 3:
            raise tlc.MachineryError("test configuration does not have three chains")
        box = {}

        def fit(_b):
            with quiet():
                box["fit_result"] = config.fit()

        steps = [("fit_result", fit)]
        for tname in ("test_fit", "test_bacth_sum", "test_cal_chi2", "test_cal_signal_yields"):
            steps.append((tname, lambda _b, f=getattr(tfull, tname): _quiet_call(f, config, box["fit_result"])))
        for name, fn in steps:
            tr = record_flow(b, "test_full:" + name, fn)
            tr["model"] = "test_full"
            traces.append(tr)
            ctx.log("test_full:%s recorded: %d records in %.1fs" % (name, len(tr["ev"]), tr["wall"]))
    finally:
        os.chdir(old)
    ctx.part("test_suite_flows", flows=len(traces), records=sum(len(t["ev"]) for t in traces), wall_s=round(time.time() - t0, 1))
    return traces


def _quiet_call(f, *a):
    import matplotlib.pyplot as plt

    with quiet():
        f(*a)
    plt.close("all")


# --------------------------------------------------------------------------
# validation
# --------------------------------------------------------------------------
def cfg_text(max_depth, max_stack, code=None, K=3):
    code = code or sd.CODE
    b = lambda x: "TRUE" if x else "FALSE"
    return (
        "CONSTANTS\n K = %d\n PV = {1,2}\n MaxDepth = %d\n MaxStack = %d\n Finally = %s\n ExactRestore = %s\n RawSave = %s\n KeyedGraph = %s\n None = None\n"
        "INIT TraceInit\nNEXT TraceNext\nCHECK_DEADLOCK FALSE\n"
        "INVARIANT Transparent\nINVARIANT NotFullHonest\nINVARIANT SelectionSound\nINVARIANT GeneralisationsAgree\nPOSTCONDITION TracePost\n"
        % (K, max_depth, max_stack, b(code["Finally"]), b(code["ExactRestore"]), b(code["RawSave"]), b(code.get("KeyedGraph", True)))
    )


def _clean(tr):
    """what TLC reads"""
    ev = []
    for e in tr["ev"]:
        e = {k: v for k, v in e.items() if k not in ("via", "exc")}
        ev.append(e)
    return {"name": tr["name"], "silent": bool(tr.get("silent", False)), "init": tr["init"], "ev": ev}


class Verdict:
    def __init__(self, tr, matched, accepted, diag):
        self.tr, self.matched, self.accepted, self.diag = tr, matched, accepted, diag
        self.kind = None  # "violation" | "machinery" | None
        self.key = None
        self.detail = None


def validate(ctx, traces, label, code=None, K=3):
    """one TLC run over all traces (of models with K chains) -> (tlc result, [Verdict])"""
    if not traces:
        raise tlc.MachineryError("no traces recorded")
    nesting = 1
    for tr in traces:
        d = 0
        for e in tr["ev"]:
            if e["a"].startswith("Enter") or e["a"].startswith("Start"):
                d += 1
            elif e["a"] in ("ExitNormal", "Abandon", "ExitOuterExc"):
                d -= 1
            elif e["a"] == "Raise":
                d -= e["n"]
            nesting = max(nesting, d)
    longest = max(len(tr["ev"]) for tr in traces)
    inp = os.path.join(ctx.work, "strace_%s.json" % label)
    with open(inp, "w") as f:
        json.dump({"traces": [_clean(tr) for tr in traces]}, f)
    cfg = os.path.join(ctx.work, "strace_%s.cfg" % label)
    with open(cfg, "w") as f:
        f.write(cfg_text(2 * longest + 50, nesting + 2, code, K=K))
    r = tlc.run("SessionTrace", cfg, work=ctx.work, workers=1, env={"IN_FILE": inp}, timeout=900, expect_violation=True)
    if r.violation:
        raise tlc.MachineryError("SessionTrace: invariant %s violated in a state TLC reached (initial state of a trace?)\n%s" % (r.violation, r.stdout[-1500:]))
    if not r.out or r.out.get("traces") != len(traces):
        raise tlc.MachineryError("SessionTrace wrote no verdict")
    out = []
    for i, tr in enumerate(traces):
        reg, diag = r.out["reg"][i], r.out["diag"][i]
        matched = int(reg[0])
        v = Verdict(tr, matched, matched == len(tr["ev"]), diag)
        v.last_state = {"m": reg[1], "stack": reg[2], "base": reg[3]}
        out.append(v)
    return r, out


def _stack_kinds(tr, upto):
    """kinds of the frames open before record `upto` (0-based), from the trace itself"""
    st = []
    for e in tr["ev"][:upto]:
        a = e["a"]
        if a.startswith("Enter"):
            st.append([k for k, v in ENTER_ACTION.items() if v == a][0])
        elif a.startswith("Start"):
            st.append([k for k, v in START_ACTION.items() if v == a][0])
        elif a in ("ExitNormal", "Abandon", "ExitOuterExc"):
            if 0 < e["pos"] <= len(st):
                st.pop(e["pos"] - 1)
        elif a == "Raise":
            del st[len(st) - e["n"] :]
    return st


def classify(v, stable_index=True):
    """a rejected trace -> violation (property) or machinery (recorder / projection mismatch)"""
    tr = v.tr
    i = v.matched  # 0-based index of the refused record
    e = tr["ev"][i]
    kinds = _stack_kinds(tr, i)
    where = "%s#%d" % (e["a"], i + 1) if stable_index else e["a"]
    detail = {
        "flow": tr["name"],
        "model": tr.get("model", "3body"),
        "refused_record": i + 1,
        "record": {k: x for k, x in e.items() if k != "sts"},
        "open_frames": kinds,
        "last_spec_state": v.last_state,
        "matched_prefix": [x["a"] for x in tr["ev"][:i]][-12:],
    }
    for k in ("program", "fault_at"):
        if k in tr:
            detail[k] = tr[k]
    if int(v.diag[0]) == i + 1:
        bad = sorted(x.strip().strip('"') for x in v.diag[1].strip("{}").split(",") if x.strip())
        detail.update(differs=bad, spec_successor={"m": v.diag[2], "stack": v.diag[3]}, inner=v.diag[4])
        fields = "+".join(bad)
        if e["a"] in RESTORE_EVENTS or all(x.startswith("inv:") for x in bad):
            v.kind = "violation"
        else:
            v.kind = "machinery"
            detail["why"] = "the successor of a non-restoring action differs from the logged state: recorder / projection / model drift"
    else:
        fields = "no_action"
        v.kind = "machinery"
        detail["why"] = "no action of SessionTrace is enabled for this record (a step Session.tla does not model, or a misplaced hook)"
    flow = tr["name"].split("#")[0]
    if flow.startswith("user_") and flow != "user_held_generator":
        flow = "user"  # random / scripted sessions: the signature (open frames, action, fields) identifies the failure
    v.key = "trace:%s:%s:%s:%s" % (flow, ">".join(kinds) or "top", where, fields)
    v.sig = (tuple(kinds), e["a"], fields)  # root cause: open frames, refused action, fields that differ
    v.detail = detail
    return v


def corrupt(tr, rng):
    """binding demonstration (i): one recorded field of one record changed"""
    tr = copy.deepcopy(tr)
    idx = [i for i, e in enumerate(tr["ev"]) if e["a"] in ("ExitNormal", "Raise", "CompStep")]
    i = rng.choice(idx)
    e = tr["ev"][i]
    act = e["st"]["active"]
    e["st"]["active"] = [c for c in (1, 2, 3) if c not in act] or [1]
    tr["name"] += "#corrupted@%d" % (i + 1)
    tr["expect"] = "reject"
    return tr


# --------------------------------------------------------------------------
# entry points
# --------------------------------------------------------------------------
VAC_QUICK = ["TrUserSetParam", "TrUserSetChains", "TrUserSetRes", "TrEnterTempParamsAmp", "TrEnterTempParamsVM", "TrEnterTempVar", "TrInnerSetParam", "TrEnterMask",
             "TrEnterTempUsedRes", "TrEnterGlsOne", "TrEnterTempConfig", "TrStartPartialWeight", "TrStartInterference", "TrStartFitFractions", "TrStartPlotWeights",
             "TrStartFactorIteration", "TrCompStep", "TrExitNormal", "TrAbandon", "TrRaise", "TrRaiseN"]


def record_all(ctx, hooks_note=None):
    quick = ctx.tier == "quick"
    rng = random.Random(ctx.seed)
    traces = []
    t0 = time.time()
    b3 = Bench(ctx.work, ctx.seed % 1000 + 1, "3body")
    clean = {}
    for name, (fn, tiers) in LIB_FLOWS.items():
        if ctx.tier in tiers:
            tr = record_flow(b3, name, fn)
            clean[name] = tr
            traces.append(tr)
    ctx.log("recorded %d library flows on the 3-body model in %.1fs" % (len(traces), time.time() - t0))
    t1 = time.time()
    bc = constr_frac_bench(ctx.work, ctx.seed % 1000 + 3)
    tr = record_flow(bc, "fit_constr_frac", flow_fit)
    traces.append(tr)
    nf = 0
    for k in fault_positions(min(tr["calls"], 12), ctx.tier, rng):
        traces.append(record_flow(bc, "fit_constr_frac!fault@%d" % k, flow_fit, fault_at=k))
        nf += 1
    for name in FAULT_FLOWS:
        for k in fault_positions(clean[name]["calls"], ctx.tier, rng):
            traces.append(record_flow(b3, "%s!fault@%d" % (name, k), LIB_FLOWS[name][0], fault_at=k))
            nf += 1
    with quiet():
        bcs = cached_shape_bench(ctx.work, ctx.seed % 1000 + 4)
    traces.append(record_flow(bcs, "cached_shape_model", flow_cached_shape))
    ctx.log("recorded %d library flows with an injected fault and the cached_shape model in %.1fs" % (nf, time.time() - t1))
    t1 = time.time()
    b4 = Bench(ctx.work, ctx.seed % 1000 + 2, "4body")
    for name in FOUR_BODY_FLOWS:
        tr = record_flow(b4, name + "@4body", LIB_FLOWS[name][0])
        tr["model"] = "4body"
        traces.append(tr)
        if name in FAULT_FLOWS:
            k = (tr["calls"] + 1) // 2
            if k >= 1:
                tr = record_flow(b4, "%s@4body!fault@%d" % (name, k), LIB_FLOWS[name][0], fault_at=k)
                tr["model"] = "4body"
                traces.append(tr)
    ctx.log("recorded the flows on the 4-body cascade in %.1fs" % (time.time() - t1))
    t2 = time.time()
    n_user = (20, 10) if quick else (300, 100)
    for b, n, tag in ((b3, n_user[0], "3body"), (b4, n_user[1], "4body")):
        for k in range(n):
            ops = gen_program(rng)
            fault = rng.choice([None, None, 1, 2, 3, 4, 5, 7, 9])
            tr = record_program(b, "user_%s_%d" % (tag, k), ops, fault)
            tr["model"] = tag
            traces.append(tr)
    for b, tag in ((b3, "3body"),) if quick else ((b3, "3body"), (b4, "4body")):
        for k, (ops, fault) in enumerate(SCRIPTED):
            tr = record_program(b, "user_scripted_%s_%d" % (tag, k), ops, fault)
            tr["model"] = tag
            traces.append(tr)
    held = record_program(b3, "user_held_generator", HELD_GENERATOR, None)
    traces.append(held)
    ctx.log("recorded %d random and %d scripted user sessions in %.1fs" % (sum(n_user), (1 if quick else 2) * len(SCRIPTED) + 1, time.time() - t2))
    return traces, (b3, b4), rng


def run(ctx):
    import matplotlib

    matplotlib.use("Agg")
    hooks = Hooks()
    hooks.install()
    try:
        _run(ctx)
    finally:
        hooks.remove()


def _run(ctx):
    t0 = time.time()
    traces, (b3, b4), rng = record_all(ctx)
    rec_wall = time.time() - t0
    # binding demonstrations ride in the same TLC run
    demos = []
    # (i) one recorded field of one record corrupted -> must be rejected at that record
    demos.append(corrupt(next(t for t in traces if t["name"] == "cal_fitfractions_sel"), rng))
    demos.append(corrupt(next(t for t in traces if t["name"] == "plot_partial_wave_res"), rng))
    # (ii) one hook removed: DecayGroup.temp_used_res is not wrapped -> the selection changes behind the recorder's back
    tr = record_flow(b3, "plot_partial_wave_interf#hook_removed", flow_plot_interf, disabled=("temp_used_res",))
    tr["expect"] = "reject"
    demos.append(tr)
    # (ii') inner evaluations not logged: accepted through bounded silent CompSteps when the recorder says so, rejected otherwise
    tr = record_flow(b3, "cal_fitfractions_sel#silent", flow_ff_old_sel, log_compsteps=False)
    tr["expect"] = "accept"
    demos.append(tr)
    tr = copy.deepcopy(tr)
    tr["name"] = "cal_fitfractions_sel#silent_undeclared"
    tr["silent"] = False
    tr["expect"] = "reject"
    demos.append(tr)
    allt = traces + demos
    t1 = time.time()
    r, verdicts = validate(ctx, allt, "main")
    tlc_wall = time.time() - t1
    ctx.tlc(r, "SessionTrace %d traces" % len(allt))
    direct = record_direct(ctx, rng)
    r4, v4 = validate(ctx, direct, "direct", K=4)
    ctx.tlc(r4, "SessionTrace K=4 %d traces" % len(direct))
    verdicts = verdicts + v4
    traces = traces + direct
    suite = []
    if ctx.tier == "thorough":
        suite = record_suite(ctx)
        r2, v2 = validate(ctx, suite, "suite")
        ctx.tlc(r2, "SessionTrace test_full %d traces" % len(suite))
        verdicts = verdicts + v2
        traces = traces + suite
    n_ev = sum(len(t["ev"]) for t in traces)
    accepted = 0
    demo_out = {}
    machinery = []
    found = {}
    for v in verdicts:
        tr = v.tr
        exp = tr.get("expect")
        if exp == "reject":
            if v.accepted:
                machinery.append("binding demonstration failed: trace %s was accepted" % tr["name"])
            else:
                classify(v)
                demo_out[tr["name"]] = {"rejected_at": v.matched + 1, "of": len(tr["ev"]), "key": v.key}
            continue
        if exp == "accept":
            if not v.accepted:
                machinery.append("binding demonstration failed: trace %s was rejected at record %d" % (tr["name"], v.matched + 1))
            demo_out[tr["name"]] = {"accepted": v.matched, "of": len(tr["ev"])}
            continue
        nontrivial = any(e["a"].startswith("Enter") or e["a"].startswith("Start") for e in tr["ev"])
        ctx.count(len(tr["ev"]), distinct_key=("trace", tr["name"], json.dumps([e["a"] for e in tr["ev"]])), nontrivial=nontrivial)
        if v.accepted:
            accepted += 1
            if tr.get("open_at_end"):
                machinery.append("flow %s ended with open frames %s" % (tr["name"], tr["open_at_end"]))
            continue
        classify(v, stable_index=not tr["name"].startswith("user_"))
        if tr["name"] == "user_held_generator" and not JUDGE_HELD_GENERATOR:
            ctx.part("observation_held_generator", key=v.key, differs=v.detail.get("differs"), record=v.matched + 1)
            ctx.notes.append("observation (outside the LIFO nesting of Session.tla, not judged): %s" % v.key)
            continue
        if v.kind == "violation":
            # one report per root cause: the shortest trace that shows it (ties: first flow name)
            cur = found.get(v.sig)
            if cur is None or (len(tr["ev"]), tr["name"]) < (len(cur.tr["ev"]), cur.tr["name"]):
                if cur is not None:
                    v.detail["also_seen_in"] = sorted(set(cur.detail.get("also_seen_in", []) + [cur.tr["name"]]))[:20]
                found[v.sig] = v
            else:
                cur.detail["also_seen_in"] = sorted(set(cur.detail.get("also_seen_in", []) + [tr["name"]]))[:20]
        else:
            machinery.append("%s: %s" % (v.key, json.dumps(v.detail, default=str)[:1500]))
    for v in sorted(found.values(), key=lambda x: x.key):
        ctx.violation(v.key, v.detail)
    ctx.cov["traces_validated_against_impl"] += accepted
    ctx.cov["binding_demo"] = demo_out
    by_action, by_lib = {}, {}
    for t in traces:
        for e in t["ev"]:
            by_action[e["a"]] = by_action.get(e["a"], 0) + 1
            if not t["name"].startswith("user_"):
                by_lib[e["a"]] = by_lib.get(e["a"], 0) + 1
    ctx.part("trace_validation", traces=len(traces), records=n_ev, accepted=accepted, longest=max(len(t["ev"]) for t in traces),
             with_injected_fault=sum(1 for t in traces if t.get("fault_at") is not None), drift_records=sum(t.get("drift", 0) for t in traces),
             record_wall_s=round(rec_wall, 1), tlc_wall_s=round(tlc_wall, 1))
    ctx.part("trace_records_by_action", **by_action)
    ctx.part("trace_records_by_action_library_flows_only", **by_lib)
    never = sorted(a for a, n in r.coverage.items() if a.startswith("Tr") and n == 0)
    ctx.part("trace_actions_never_taken", actions=never)
    for t in traces[:2] + [t for t in traces if "!fault" in t["name"]][:2] + [t for t in traces if t["name"].startswith("user_")][:2]:
        ctx.sample({"trace": t["name"], "records": [e["a"] for e in t["ev"]][:40]})
    ctx.assume("B2: the recorder wraps the library's override blocks / computations at run time; a change of state made by code that is not wrapped is logged as a deliberate change (drift record) when it happens outside every block")
    ctx.assume("B2: faults in library flows are exceptions raised by the k-th DecayGroup.sum_amp call of the flow")
    if found:
        # the verdict is the violation; what else was refused is recorded, not raised
        ctx.notes += ["not validated because of the violation(s): " + m[:300] for m in machinery[:10]]
        return
    if machinery:
        raise tlc.MachineryError("SessionTrace refused %d trace(s) for reasons that are not property violations:\n%s" % (len(machinery), "\n".join(machinery[:5])))
    missing = [a for a in VAC_QUICK if r.coverage.get(a, 0) == 0]
    if missing:
        raise tlc.MachineryError("vacuous trace validation: actions never taken by any recorded trace: %s" % missing)
    if not ctx.cov["rule"]:
        ctx.cov["rule"] = (
            "SessionTrace.tla: every record of every recorded execution (library composite entry points, the same with an exception injected into an inner evaluation, "
            "and seeded random user sessions with injected faults) is matched by the Session action it names, the successor projects to the logged state, "
            "and Transparent / NotFullHonest / SelectionSound hold in it; distinct = distinct record sequences"
        )


def parse_flow(name):
    """'cal_fitfractions_sel@4body!fault@3#demo' -> (base, model, fault)"""
    name = name.split("#")[0]
    fault = None
    if "!fault@" in name:
        name, k = name.split("!fault@")
        fault = int(k)
    model = "3body"
    for mdl in ("4body", "direct"):
        if name.endswith("@" + mdl):
            name, model = name[: -len("@" + mdl)], mdl
    return name, model, fault


def replay(ctx, path):
    import matplotlib

    matplotlib.use("Agg")
    with open(path) as f:
        j = json.load(f)
    d = j["detail"]
    hooks = Hooks()
    hooks.install()
    try:
        base, model, fault = parse_flow(d["flow"])
        if base.startswith("test_full:"):
            trs = [t for t in record_suite(ctx) if t["name"] == d["flow"]]
            if not trs:
                raise tlc.MachineryError("no such suite flow: %s" % d["flow"])
            tr = trs[0]
        elif base == "cached_shape_model":
            tr = record_flow(cached_shape_bench(ctx.work, ctx.seed % 1000 + 4), d["flow"], flow_cached_shape)
        elif base == "fit_constr_frac":
            b = constr_frac_bench(ctx.work, ctx.seed % 1000 + 3)
            tr = record_flow(b, d["flow"], flow_fit, fault_at=fault)
        else:
            model = d.get("model", model)
            with quiet():
                b = Bench(ctx.work, ctx.seed % 1000 + {"3body": 1, "4body": 2, "direct": 6}[model], model)
            if "program" in d:
                tr = record_program(b, d["flow"], d["program"], d.get("fault_at"))
            else:
                tr = record_flow(b, d["flow"], (DIRECT_FLOWS[base] if model == "direct" else LIB_FLOWS[base][0]), fault_at=fault)
            tr["model"] = model
        r, (v,) = validate(ctx, [tr], "replay", K=NCHAINS.get(tr.get("model", "3body"), 3))
        ctx.tlc(r, "SessionTrace replay")
        ctx.count(len(tr["ev"]), distinct_key=("replay", j["key"]))
        ctx.count(1, distinct_key=("replay2", j["key"]))
        ctx.cov["traces_validated_against_impl"] = 1
        ctx.cov["rule"] = "re-recorded and re-validated one flow"
        ctx.sample({"trace": tr["name"], "records": [e["a"] for e in tr["ev"]][:60], "accepted": v.accepted})
        if not v.accepted:
            classify(v, stable_index=not tr["name"].startswith("user_"))
            if v.kind == "violation":
                ctx.violation(v.key, v.detail)
            else:
                raise tlc.MachineryError("%s: %s" % (v.key, json.dumps(v.detail, default=str)[:1500]))
    finally:
        hooks.remove()
